#!/bin/sh
# Build the framework offline from files on disk only.
set -e
cd "$(dirname "$0")"
exec python3 ./check --setup
