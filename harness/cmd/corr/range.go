//go:build !no_range

package main

import (
	"fmt"
	"strconv"

	"github.com/versity/versitygw/backend"
)

func init() {
	// size \t hex(header)  ->  "OK start len valid" | "ERR"
	handlers["range"] = func(f []string) string {
		size, _ := strconv.ParseInt(f[0], 10, 64)
		s, l, v, err := backend.ParseGetObjectRange(size, unhex(f[1]))
		if err != nil {
			return "ERR"
		}
		return fmt.Sprintf("OK %d %d %v", s, l, v)
	}
	// size \t hex(header)  ->  "OK start len" | "ERR"
	handlers["copyrange"] = func(f []string) string {
		size, _ := strconv.ParseInt(f[0], 10, 64)
		s, l, err := backend.ParseCopySourceRange(size, unhex(f[1]))
		if err != nil {
			return "ERR"
		}
		return fmt.Sprintf("OK %d %d", s, l)
	}
}
