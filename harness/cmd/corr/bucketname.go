//go:build !no_bucketname

package main

import "github.com/versity/versitygw/s3api/utils"

func init() {
	// hex(name)
	handlers["bucketname"] = func(f []string) string {
		if utils.IsValidBucketName(unhex(f[0][1:]), false) {
			return "1"
		}
		return "0"
	}
}
