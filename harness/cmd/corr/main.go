// corr: calls the real versitygw functions on inputs written by the check driver and prints one
// canonical observation per line. Input: one case per line, tab-separated fields, byte strings in hex.
package main

import (
	"bufio"
	"encoding/hex"
	"fmt"
	"os"
	"strings"
)

type handler func(fields []string) string

var handlers = map[string]handler{}

func unhex(s string) string {
	b, err := hex.DecodeString(s)
	if err != nil {
		panic("harness: bad hex field " + s)
	}
	return string(b)
}

func hx(s string) string { return hex.EncodeToString([]byte(s)) }

// protect turns a Go panic of the code under test into the observable PANIC
func protect(h handler, f []string) (out string) {
	defer func() {
		if r := recover(); r != nil {
			msg := fmt.Sprint(r)
			if strings.HasPrefix(msg, "harness:") {
				fmt.Fprintln(os.Stderr, msg)
				os.Exit(3)
			}
			out = "PANIC"
		}
	}()
	return h(f)
}

func main() {
	if len(os.Args) < 2 {
		fmt.Fprintln(os.Stderr, "usage: corr <function> < cases")
		os.Exit(2)
	}
	h, ok := handlers[os.Args[1]]
	if !ok {
		fmt.Fprintln(os.Stderr, "unknown function", os.Args[1])
		os.Exit(2)
	}
	in := bufio.NewReaderSize(os.Stdin, 1<<20)
	out := bufio.NewWriterSize(os.Stdout, 1<<20)
	defer out.Flush()
	for {
		line, err := in.ReadString('\n')
		line = strings.TrimRight(line, "\n")
		if line != "" || err == nil {
			fmt.Fprintln(out, protect(h, strings.Split(line, "\t")))
		}
		if err != nil {
			break
		}
	}
	out.Flush()
	for _, d := range cleanupDirs {
		os.RemoveAll(d)
	}
}

// scratch directories created by handlers, removed at exit
var cleanupDirs []string
