//go:build !no_walk

package main

import (
	"context"
	"io/fs"
	"strconv"
	"strings"
	"testing/fstest"

	"github.com/versity/versitygw/backend"
	"github.com/versity/versitygw/s3response"
)

func hexList(l []string) string {
	out := make([]string, len(l))
	for i, s := range l {
		out[i] = hx(s)
	}
	return strings.Join(out, ",")
}

func init() {
	// entries \t hex(prefix) \t hex(delim) \t hex(marker) \t max \t maxpages
	//   entries: comma-separated hex(path):kind, kind f = file object, s = file that getObj skips,
	//            d = directory object (has etag), e = plain directory
	// -> pages joined by '|', each "objs;cps;trunc;hex(next)" or ERR; markers are followed up to maxpages pages
	handlers["walk"] = func(f []string) string {
		m := fstest.MapFS{}
		kind := map[string]byte{}
		if f[0] != "" {
			for _, e := range strings.Split(f[0], ",") {
				pk := strings.Split(e, ":")
				p := unhex(pk[0])
				kind[p] = pk[1][0]
				if pk[1] == "d" || pk[1] == "e" {
					m[p] = &fstest.MapFile{Mode: fs.ModeDir | 0o755}
				} else {
					m[p] = &fstest.MapFile{Data: []byte("x")}
				}
			}
		}
		prefix, delim, marker := unhex(f[1]), unhex(f[2]), unhex(f[3])
		max, _ := strconv.Atoi(f[4])
		maxpages, _ := strconv.Atoi(f[5])
		getObj := func(path string, d fs.DirEntry) (s3response.Object, error) {
			k := kind[strings.TrimSuffix(path, "/")]
			if d.IsDir() {
				if k == 'd' {
					key := path
					return s3response.Object{Key: &key}, nil
				}
				return s3response.Object{}, backend.ErrSkipObj
			}
			if k == 's' {
				return s3response.Object{}, backend.ErrSkipObj
			}
			key := path
			return s3response.Object{Key: &key}, nil
		}
		pages := []string{}
		for i := 0; i < maxpages; i++ {
			res, err := backend.Walk(context.Background(), m, prefix, delim, marker, int32(max), getObj, []string{".sgwtmp"})
			if err != nil {
				pages = append(pages, "ERR")
				break
			}
			objs := []string{}
			for _, o := range res.Objects {
				objs = append(objs, *o.Key)
			}
			cps := []string{}
			for _, c := range res.CommonPrefixes {
				cps = append(cps, *c.Prefix)
			}
			pages = append(pages, hexList(objs)+";"+hexList(cps)+";"+strconv.FormatBool(res.Truncated)+";"+hx(res.NextMarker))
			if !res.Truncated {
				break
			}
			marker = res.NextMarker
		}
		return strings.Join(pages, "|")
	}
}
