//go:build !no_iam

package main

import (
	"fmt"
	"os"
	"strconv"
	"strings"
	"sync"
	"time"

	"github.com/versity/versitygw/auth"
	"github.com/versity/versitygw/verifhook"
)

func iamOut(a auth.Account) string {
	return fmt.Sprintf("F:%s:%s:%d:%d", hx(a.Secret), hx(string(a.Role)), a.UserID, a.GroupID)
}

func iamErr(err error) string {
	switch {
	case err == nil:
		return "OK"
	case err == auth.ErrUserExists || strings.Contains(err.Error(), "user already exists"):
		return "EXISTS"
	case err == auth.ErrNoSuchUser || strings.Contains(err.Error(), "user not found"):
		return "NOSUCH"
	}
	return "ERR:" + strings.ReplaceAll(err.Error(), " ", "_")
}

func optInt(s string) *int {
	if s == "~" {
		return nil
	}
	v, _ := strconv.Atoi(s)
	return &v
}

func newIAM(ttl time.Duration) (*auth.IAMCache, *auth.IAMServiceInternal, string) {
	dir, err := os.MkdirTemp("/dev/shm", "verif-iam-")
	if err != nil {
		dir, _ = os.MkdirTemp("", "verif-iam-")
	}
	svc, err := auth.NewInternal(auth.Account{Access: "root", Secret: "rootsecret", Role: auth.RoleAdmin}, dir)
	if err != nil {
		panic("harness: " + err.Error())
	}
	return auth.NewCache(svc, ttl, time.Hour), svc, dir
}

var hookMu sync.Mutex

func init() {
	// ttl(big|zero) \t op,op,...   ops: C:acc:secret:role:uid:gid | U:acc:secret|~:uid|~:gid|~ | D:acc | L:acc  (hex strings)
	handlers["iam"] = func(f []string) string {
		ttl := time.Hour
		if f[0] == "zero" {
			ttl = 0
		}
		c, _, dir := newIAM(ttl)
		defer os.RemoveAll(dir)
		defer c.Shutdown()
		outs := []string{}
		for _, o := range strings.Split(f[1], ",") {
			p := strings.Split(o, ":")
			switch p[0] {
			case "C":
				uid, _ := strconv.Atoi(p[4])
				gid, _ := strconv.Atoi(p[5])
				outs = append(outs, iamErr(c.CreateAccount(auth.Account{Access: unhex(p[1]), Secret: unhex(p[2]), Role: auth.Role(unhex(p[3])), UserID: uid, GroupID: gid})))
			case "U":
				var props auth.MutableProps
				if p[2] != "~" {
					s := unhex(p[2])
					props.Secret = &s
				}
				props.UserID, props.GroupID = optInt(p[3]), optInt(p[4])
				outs = append(outs, iamErr(c.UpdateUserAccount(unhex(p[1]), props)))
			case "D":
				outs = append(outs, iamErr(c.DeleteUserAccount(unhex(p[1]))))
			case "L":
				a, err := c.GetUserAccount(unhex(p[1]))
				if err != nil {
					outs = append(outs, iamErr(err))
				} else {
					outs = append(outs, iamOut(a))
				}
			}
		}
		return strings.Join(outs, "|")
	}
	// schedule of one lookup (L) and one delete (D) of account u1 that is in the store but not in the cache:
	//   "inflight"  : the lookup fetches, the delete runs completely, then the lookup inserts   (L D D L)
	//   "held-enter": the delete is held before it touches the store, the lookup runs completely, then the delete (L L D D)
	//   "after"     : the delete runs completely, then the lookup                              (D D L L)
	// -> the answer of a final lookup
	handlers["iamsched"] = func(f []string) string {
		hookMu.Lock()
		defer hookMu.Unlock()
		c, svc, dir := newIAM(time.Hour)
		defer os.RemoveAll(dir)
		defer c.Shutdown()
		if err := svc.CreateAccount(auth.Account{Access: "u1", Secret: "s1", Role: auth.RoleUser, UserID: 1234, GroupID: 2345}); err != nil {
			return iamErr(err)
		}
		site := map[string]string{"inflight": "iamcache.get.fetched", "held-enter": "iam.delete.enter"}[f[0]]
		reached := make(chan struct{}, 4)
		release := make(chan struct{})
		var once sync.Once
		verifhook.Fn = func(s string) {
			if s == site {
				hit := false
				once.Do(func() { hit = true })
				if hit {
					reached <- struct{}{}
					<-release
				}
			}
		}
		defer func() { verifhook.Fn = nil }()
		prefix := ""
		// held: the operation stopped at the hook site; other: the operation started while it is held
		var held, other func()
		switch f[0] {
		case "inflight":
			held = func() { c.GetUserAccount("u1") }
			other = func() { c.DeleteUserAccount("u1") }
		case "held-enter":
			held = func() { c.DeleteUserAccount("u1") }
			other = func() { c.GetUserAccount("u1") }
		default:
			c.DeleteUserAccount("u1")
			c.GetUserAccount("u1")
		}
		if held != nil {
			hdone, odone := make(chan struct{}), make(chan struct{})
			go func() { held(); close(hdone) }()
			select {
			case <-reached:
			case <-hdone:
				return "HOOK-NOT-REACHED"
			case <-time.After(5 * time.Second):
				return "HOOK-NOT-REACHED"
			}
			go func() { other(); close(odone) }()
			select {
			case <-odone:
			case <-time.After(300 * time.Millisecond):
				// the implementation makes the second operation wait for the held one:
				// the schedule that actually runs is "held operation completely, then the other"
				prefix = "BLOCKED|"
			}
			close(release)
			<-hdone
			<-odone
		}
		a, err := c.GetUserAccount("u1")
		if err != nil {
			return prefix + iamErr(err)
		}
		return prefix + iamOut(a)
	}
}
