//go:build !no_access

package main

import (
	"context"
	"errors"
	"strings"

	"github.com/aws/aws-sdk-go-v2/service/s3/types"
	"github.com/versity/versitygw/auth"
	"github.com/versity/versitygw/backend"
	"github.com/versity/versitygw/s3err"
)

// stubBackend answers GetBucketPolicy from a fixed document / absence / read error; everything else is unsupported
type stubBackend struct {
	backend.BackendUnsupported
	mode string
	doc  []byte
}

func (s stubBackend) GetBucketPolicy(_ context.Context, bucket string) ([]byte, error) {
	switch s.mode {
	case "DOC":
		return s.doc, nil
	case "NONE":
		return nil, s3err.GetAPIError(s3err.ErrNoSuchBucketPolicy)
	}
	return nil, errors.New("input/output error")
}

func init() {
	perms := map[string]auth.Permission{"READ": auth.PermissionRead, "WRITE": auth.PermissionWrite, "READ_ACP": auth.PermissionReadAcp,
		"WRITE_ACP": auth.PermissionWriteAcp, "FULL_CONTROL": auth.PermissionFullControl}
	// mode \t hex(doc) \t grants(hexacc:PERM:Type,...) \t hex(who) \t role \t isroot \t readonly \t PERM \t hex(action) \t hex(bucket) \t hex(object)
	handlers["verifyaccess"] = func(f []string) string {
		un := func(s string) string {
			if s == "-" {
				return ""
			}
			return unhex(s)
		}
		be := stubBackend{mode: f[0], doc: []byte(un(f[1]))}
		acl := auth.ACL{Owner: "owner"}
		if f[2] != "-" {
			for _, g := range strings.Split(f[2], ",") {
				p := strings.Split(g, ":")
				t := types.TypeCanonicalUser
				if p[2] == "Group" {
					t = types.TypeGroup
				}
				acl.Grantees = append(acl.Grantees, auth.Grantee{Access: un(p[0]), Permission: perms[p[1]], Type: t})
			}
		}
		err := auth.VerifyAccess(context.Background(), be, auth.AccessOptions{
			Acl: acl, AclPermission: perms[f[7]], IsRoot: f[5] == "1", Acc: auth.Account{Access: un(f[3]), Role: auth.Role(f[4])},
			Bucket: un(f[9]), Object: un(f[10]), Action: auth.Action(un(f[8])), Readonly: f[6] == "1",
		})
		if err == nil {
			return "ALLOW"
		}
		return "DENY"
	}
}
