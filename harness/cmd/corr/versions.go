package main

import (
	"context"
	"fmt"
	"os"
	"strconv"
	"strings"

	"github.com/aws/aws-sdk-go-v2/service/s3"
	"github.com/aws/aws-sdk-go-v2/service/s3/types"
	"github.com/versity/versitygw/backend/meta"
	"github.com/versity/versitygw/backend/posix"
	"github.com/versity/versitygw/s3response"
)

// versionburst \t n: n overwrites of one key in a versioning-enabled bucket of the real posix backend, one right after the other
// in this process (many within one millisecond), then ListObjectVersions page by page. Answer:
// "<n acknowledged> <n listed> <first position where the listing is not the acknowledgements in reverse, or -1> <adjacent pairs within one ms>"
func init() {
	handlers["versionburst"] = func(f []string) string {
		ctx := context.Background()
		n, _ := strconv.Atoi(f[0])
		dir, err := os.MkdirTemp("/dev/shm", "verif-corr-ver-")
		if err != nil {
			panic("harness: " + err.Error())
		}
		cleanupDirs = append(cleanupDirs, dir)
		vdir, err := os.MkdirTemp("/dev/shm", "verif-corr-verdir-")
		if err != nil {
			panic("harness: " + err.Error())
		}
		cleanupDirs = append(cleanupDirs, vdir)
		be, err := posix.New(dir, meta.XattrMeta{}, posix.PosixOpts{VersioningDir: vdir})
		if err != nil {
			panic("harness: " + err.Error())
		}
		bk, key := "bkt", "burst"
		if err := be.CreateBucket(ctx, &s3.CreateBucketInput{Bucket: &bk}, []byte(`{"Owner":"root"}`)); err != nil {
			panic("harness: create bucket: " + err.Error())
		}
		if err := be.PutBucketVersioning(ctx, bk, types.BucketVersioningStatusEnabled); err != nil {
			panic("harness: versioning: " + err.Error())
		}
		acks := []string{}
		for i := 0; i < n; i++ {
			body := fmt.Sprintf("w%06d", i)
			l := int64(len(body))
			out, err := be.PutObject(ctx, s3response.PutObjectInput{Bucket: &bk, Key: &key, ContentLength: &l, Body: strings.NewReader(body)})
			if err != nil {
				return "ERR put " + err.Error()
			}
			acks = append(acks, out.VersionID)
		}
		listed := []string{}
		km, vm := "", ""
		for page := 0; page < n/100+5; page++ {
			mx := int32(1000)
			in := &s3.ListObjectVersionsInput{Bucket: &bk, MaxKeys: &mx, KeyMarker: &km, VersionIdMarker: &vm, Prefix: new(string), Delimiter: new(string)}
			res, err := be.ListObjectVersions(ctx, in)
			if err != nil {
				return "ERR list " + err.Error()
			}
			for _, v := range res.Versions {
				if v.VersionId != nil {
					listed = append(listed, *v.VersionId)
				}
			}
			if res.IsTruncated == nil || !*res.IsTruncated {
				break
			}
			km, vm = "", ""
			if res.NextKeyMarker != nil {
				km = *res.NextKeyMarker
			}
			if res.NextVersionIdMarker != nil {
				vm = *res.NextVersionIdMarker
			}
		}
		bad := -1
		for i := 0; i < len(acks) || i < len(listed); i++ {
			if i >= len(acks) || i >= len(listed) || listed[i] != acks[len(acks)-1-i] {
				bad = i
				break
			}
		}
		same := 0
		for i := 1; i < len(acks); i++ {
			if len(acks[i]) >= 10 && len(acks[i-1]) >= 10 && acks[i][:10] == acks[i-1][:10] {
				same++
			}
		}
		return fmt.Sprintf("%d %d %d %d", len(acks), len(listed), bad, same)
	}
}
