//go:build !no_auth

package main

import (
	"errors"

	"github.com/versity/versitygw/s3api/utils"
	"github.com/versity/versitygw/s3err"
)

func init() {
	names := map[s3err.ErrorCode]string{
		s3err.ErrMissingFields: "MissingFields", s3err.ErrSignatureVersionNotSupported: "SigVersion", s3err.ErrCredMalformed: "CredMalformed",
		s3err.ErrInvalidQueryParams: "InvalidQueryParams", s3err.ErrSignatureIncorrService: "IncorrService",
		s3err.ErrSignatureTerminationStr: "TerminationStr", s3err.ErrSignatureDateDoesNotMatch: "DateMismatch",
	}
	field := func(s string) string {
		if s == "" {
			return "-"
		}
		return hx(s)
	}
	// hex(authorization) -> "OK access region signedHeaders signature date" | "ERR name"
	handlers["parseauth"] = func(f []string) string {
		in := ""
		if f[0] != "-" {
			in = unhex(f[0])
		}
		d, err := utils.ParseAuthorization(in)
		if err != nil {
			var ae s3err.APIError
			if errors.As(err, &ae) {
				for code, n := range names {
					if s3err.GetAPIError(code) == ae {
						return "ERR " + n
					}
				}
				return "ERR other:" + ae.Code
			}
			return "ERR other"
		}
		return "OK " + field(d.Access) + " " + field(d.Region) + " " + field(d.SignedHeaders) + " " + field(d.Signature) + " " + field(d.Date)
	}
}
