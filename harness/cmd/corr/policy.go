//go:build !no_policy

package main

import (
	"errors"
	"strings"

	"github.com/versity/versitygw/auth"
	"github.com/versity/versitygw/s3err"
)

type stubIAM struct{ accounts map[string]bool }

func (s stubIAM) CreateAccount(auth.Account) error { return nil }
func (s stubIAM) GetUserAccount(a string) (auth.Account, error) {
	if s.accounts[a] {
		return auth.Account{Access: a, Secret: "x", Role: auth.RoleUser}, nil
	}
	return auth.Account{}, auth.ErrNoSuchUser
}
func (s stubIAM) UpdateUserAccount(string, auth.MutableProps) error { return nil }
func (s stubIAM) DeleteUserAccount(string) error                     { return nil }
func (s stubIAM) ListUserAccounts() ([]auth.Account, error)          { return nil, nil }
func (s stubIAM) Shutdown() error                                    { return nil }

// classify the MalformedPolicy description into the model's error enum
func policyErrClass(err error) string {
	var ae s3err.APIError
	if !errors.As(err, &ae) {
		return "OTHER:" + err.Error()
	}
	d := ae.Description
	switch {
	case strings.HasPrefix(d, "Policies must be valid JSON"), strings.HasPrefix(d, "This policy contains invalid Json"):
		return "InvalidJson"
	case strings.HasPrefix(d, "Missing required field Statement"):
		return "MissingStatement"
	case strings.HasPrefix(d, "Could not parse the policy: Statement is empty"):
		return "EmptyStatement"
	case strings.HasPrefix(d, "Invalid effect"):
		return "InvalidEffect"
	case strings.HasPrefix(d, "Invalid principal"):
		return "InvalidPrincipal"
	case strings.HasPrefix(d, "Policy has invalid action"):
		return "InvalidAction"
	case strings.HasPrefix(d, "Policy has invalid resource"):
		return "InvalidResource"
	case strings.HasPrefix(d, "Action does not apply"):
		return "ResourceMismatch"
	}
	return "OTHER:" + d
}

func init() {
	// hex(pattern) \t hex(subject) -> true|false
	handlers["globmatch"] = func(f []string) string {
		if (auth.Resources{}).Match(unhex(f[0]), unhex(f[1])) {
			return "true"
		}
		return "false"
	}
	// hex(doc) \t hex(bucket) \t hex(acc1),hex(acc2).. \t repeat -> verdicts seen over <repeat> calls, joined by '|'
	handlers["polvalidate"] = func(f []string) string {
		iam := stubIAM{accounts: map[string]bool{}}
		if f[2] != "" {
			for _, a := range strings.Split(f[2], ",") {
				iam.accounts[unhex(a)] = true
			}
		}
		n := 1
		if len(f) > 3 {
			for n = 0; n < len(f[3]); n++ {
			}
		}
		seen := map[string]bool{}
		order := []string{}
		for i := 0; i < n; i++ {
			err := auth.ValidatePolicyDocument([]byte(unhex(f[0])), unhex(f[1]), iam)
			v := "OK"
			if err != nil {
				v = policyErrClass(err)
			}
			if !seen[v] {
				seen[v] = true
				order = append(order, v)
			}
		}
		return strings.Join(order, "|")
	}
	// hex(doc) \t hex(access) \t hex(bucket) \t hex(object) \t hex(action) -> ALLOW | DENY | JSONERR
	handlers["polverify"] = func(f []string) string {
		err := auth.VerifyBucketPolicy([]byte(unhex(f[0])), unhex(f[1]), unhex(f[2]), unhex(f[3]), auth.Action(unhex(f[4])))
		if err == nil {
			return "ALLOW"
		}
		var ae s3err.APIError
		if errors.As(err, &ae) && ae.Code == "AccessDenied" {
			return "DENY"
		}
		return "JSONERR"
	}
}
