//go:build !no_copyaccess

package main

import (
	"context"
	"strings"

	"github.com/aws/aws-sdk-go-v2/service/s3"
	"github.com/aws/aws-sdk-go-v2/service/s3/types"
	"github.com/versity/versitygw/auth"
	"github.com/versity/versitygw/backend"
	"github.com/versity/versitygw/s3err"
)

// recBackend records every bucket name the access decision of a copy asks the backend about
type recBackend struct {
	backend.BackendUnsupported
	asked *[]string
}

func (r recBackend) GetBucketAcl(_ context.Context, in *s3.GetBucketAclInput) ([]byte, error) {
	*r.asked = append(*r.asked, *in.Bucket)
	return []byte(`{"Owner":"root","Grantees":[]}`), nil
}

func (r recBackend) GetBucketPolicy(_ context.Context, bucket string) ([]byte, error) {
	*r.asked = append(*r.asked, bucket)
	return nil, s3err.GetAPIError(s3err.ErrNoSuchBucketPolicy)
}

func init() {
	// hex(copy source header value, leading "/" already removed as the controller does) -> comma separated hex of the bucket
	// names the backend was asked about, for a plain user copying into bucket "dst"
	handlers["copyaccess"] = func(f []string) string {
		src := ""
		if f[0] != "-" {
			src = unhex(f[0])
		}
		var asked []string
		be := recBackend{asked: &asked}
		_ = auth.VerifyObjectCopyAccess(context.Background(), be, src, auth.AccessOptions{
			Acl: auth.ACL{Owner: "bob", Grantees: []auth.Grantee{{Access: "bob", Permission: auth.PermissionFullControl,
				Type: types.TypeCanonicalUser}}},
			AclPermission: auth.PermissionWrite,
			Acc:           auth.Account{Access: "bob", Role: auth.RoleUser},
			Bucket:        "dst",
			Object:        "k",
			Action:        auth.PutObjectAction,
		})
		out := make([]string, 0, len(asked))
		for _, a := range asked {
			out = append(out, hx(a))
		}
		return "asked=" + strings.Join(out, ",")
	}
}
