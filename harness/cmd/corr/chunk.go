//go:build !no_chunk

package main

import (
	"errors"
	"io"
	"strconv"
	"strings"
	"time"

	"github.com/versity/versitygw/s3api/utils"
	"github.com/versity/versitygw/s3err"
)

// schedReader delivers prepared fragments; eofWith[i] makes fragment i come with io.EOF
type schedReader struct {
	frags   [][]byte
	eofWith []bool
	i       int
}

func (s *schedReader) Read(p []byte) (int, error) {
	if s.i >= len(s.frags) {
		return 0, io.EOF
	}
	f := s.frags[s.i]
	e := s.eofWith[s.i]
	if len(f) > len(p) {
		// the destination is smaller than the fragment: deliver what fits, keep the rest
		n := copy(p, f)
		s.frags[s.i] = f[n:]
		return n, nil
	}
	s.i++
	copy(p, f)
	if e {
		return len(f), io.EOF
	}
	return len(f), nil
}

func chunkErrClass(err error, prefix string) string {
	var ae s3err.APIError
	switch {
	case err == io.EOF:
		return prefix + "_EOF"
	case err == io.ErrUnexpectedEOF:
		return prefix + "_UnexpectedEOF"
	case strings.Contains(err.Error(), "invalid chunk header format"):
		return prefix + "_InvalidChunk"
	case strings.Contains(err.Error(), "malformed chunk encoding"):
		return prefix + "_Malformed"
	case strings.Contains(err.Error(), "actual checksum"):
		return prefix + "_Checksum"
	case errors.As(err, &ae):
		switch ae.Code {
		case "SignatureDoesNotMatch":
			return prefix + "_SigMismatch"
		case "BadDigest":
			return prefix + "_BadDigest"
		case "InvalidRequest", "InvalidArgument":
			return prefix + "_InvalidTrailer"
		}
		return prefix + "_Other:" + ae.Code
	}
	return prefix + "_Other:" + strings.ReplaceAll(err.Error(), " ", "_")
}

func parseFrags(s string) ([][]byte, []bool) {
	var frags [][]byte
	var eofs []bool
	if s == "-" || s == "" {
		return frags, eofs
	}
	for _, x := range strings.Split(s, ",") {
		he := strings.Split(x, ":")
		d := ""
		if he[0] != "-" {
			d = unhex(he[0])
		}
		frags = append(frags, []byte(d))
		eofs = append(eofs, he[1] == "1")
	}
	return frags, eofs
}

func hexOrDash(b []byte) string {
	if len(b) == 0 {
		return "-"
	}
	return hx(string(b))
}

func init() {
	date := time.Date(2024, 1, 2, 3, 4, 5, 0, time.UTC)
	// trailer(0|1|2) \t hex(secret) \t hex(seedsig) \t frags  -> "<hex out> <class>"
	handlers["schunk"] = func(f []string) string {
		frags, eofs := parseFrags(f[3])
		src := &schedReader{frags: frags, eofWith: eofs}
		var rd io.Reader
		var err error
		ad := utils.AuthData{Signature: unhex(f[2])}
		switch f[0] {
		case "1":
			rd, err = utils.NewSignedChunkReader(src, ad, "us-east-1", unhex(f[1]), date, "x-amz-checksum-crc32", false)
		case "2":
			rd, err = utils.NewSignedChunkReader(src, ad, "us-east-1", unhex(f[1]), date, "x-amz-checksum-crc32c", false)
		default:
			rd, err = utils.NewSignedChunkReader(src, ad, "us-east-1", unhex(f[1]), date, "", false)
		}
		if err != nil {
			panic("harness: " + err.Error())
		}
		var out []byte
		buf := make([]byte, 1<<17)
		for it := 0; it < 100000; it++ {
			n, err := rd.Read(buf)
			out = append(out, buf[:n]...)
			if err != nil {
				return hexOrDash(out) + " " + chunkErrClass(err, "E")
			}
		}
		return hexOrDash(out) + " E_Loop"
	}
	// kind(1|2) \t src frags \t dest sizes (comma list or -) \t default dest size -> "<hex out> <class>"
	handlers["uchunk"] = func(f []string) string {
		frags, eofs := parseFrags(f[1])
		src := &schedReader{frags: frags, eofWith: eofs}
		ct := "x-amz-checksum-crc32"
		if f[0] == "2" {
			ct = "x-amz-checksum-crc32c"
		}
		var rd io.Reader
		var err error
		if ct == "x-amz-checksum-crc32" {
			rd, err = utils.NewUnsignedChunkReader(src, "x-amz-checksum-crc32", false)
		} else {
			rd, err = utils.NewUnsignedChunkReader(src, "x-amz-checksum-crc32c", false)
		}
		if err != nil {
			panic("harness: " + err.Error())
		}
		var sizes []int
		if f[2] != "-" && f[2] != "" {
			for _, x := range strings.Split(f[2], ",") {
				v, _ := strconv.Atoi(x)
				sizes = append(sizes, v)
			}
		}
		dflt, _ := strconv.Atoi(f[3])
		var out []byte
		for it := 0; it < 1000000; it++ {
			sz := dflt
			if it < len(sizes) {
				sz = sizes[it]
			}
			buf := make([]byte, sz)
			n, err := rd.Read(buf)
			out = append(out, buf[:n]...)
			if err != nil {
				return hexOrDash(out) + " " + chunkErrClass(err, "U")
			}
		}
		return hexOrDash(out) + " U_Loop"
	}
}
