//go:build !no_events

package main

import (
	"encoding/json"

	"github.com/versity/versitygw/s3event"
)

func init() {
	// hex(json filter) \t event type
	handlers["eventfilter"] = func(f []string) string {
		var flt s3event.EventFilter
		if err := json.Unmarshal([]byte(unhex(f[0])), &flt); err != nil {
			panic("harness: " + err.Error())
		}
		if flt.Filter(s3event.EventType(f[1])) {
			return "1"
		}
		return "0"
	}
}
