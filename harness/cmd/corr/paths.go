//go:build !no_paths

package main

import "github.com/versity/versitygw/backend"

func init() {
	// hex(name) -> true|false
	handlers["validname"] = func(f []string) string {
		n := ""
		if f[0] != "-" {
			n = unhex(f[0])
		}
		if backend.IsObjectNameValid(n) {
			return "true"
		}
		return "false"
	}
}
