//go:build !no_lock

package main

import (
	"context"
	"encoding/json"
	"errors"
	"fmt"
	"os"
	"strings"
	"time"

	"github.com/aws/aws-sdk-go-v2/service/s3"
	"github.com/aws/aws-sdk-go-v2/service/s3/types"
	"github.com/versity/versitygw/auth"
	"github.com/versity/versitygw/backend"
	"github.com/versity/versitygw/backend/meta"
	"github.com/versity/versitygw/backend/posix"
	"github.com/versity/versitygw/s3err"
	"github.com/versity/versitygw/s3response"
)

// lockBackend answers the four calls CheckObjectAccess makes from named states
type lockBackend struct {
	backend.BackendUnsupported
	cfg    string
	objs   map[string][2]string
	policy string
}

func (b lockBackend) GetObjectLockConfiguration(_ context.Context, bucket string) ([]byte, error) {
	day := int32(1)
	mk := func(mode types.ObjectLockRetentionMode, age time.Duration) ([]byte, error) {
		t := time.Now().Add(-age)
		return json.Marshal(auth.BucketLockConfig{Enabled: true, CreatedAt: &t, DefaultRetention: &types.DefaultRetention{Mode: mode, Days: &day}})
	}
	switch b.cfg {
	case "none":
		return nil, s3err.GetAPIError(s3err.ErrObjectLockConfigurationNotFound)
	case "disabled":
		return json.Marshal(auth.BucketLockConfig{Enabled: false})
	case "enabled":
		t := time.Now()
		return json.Marshal(auth.BucketLockConfig{Enabled: true, CreatedAt: &t})
	case "default-gov-active":
		return mk(types.ObjectLockRetentionModeGovernance, time.Hour)
	case "default-comp-active":
		return mk(types.ObjectLockRetentionModeCompliance, time.Hour)
	case "default-gov-expired":
		return mk(types.ObjectLockRetentionModeGovernance, 49*time.Hour)
	case "default-comp-expired":
		return mk(types.ObjectLockRetentionModeCompliance, 49*time.Hour)
	}
	panic("harness: cfg " + b.cfg)
}

func (b lockBackend) GetObjectRetention(_ context.Context, bucket, object, versionId string) ([]byte, error) {
	st := b.objs[object][0]
	mk := func(mode types.ObjectLockRetentionMode, d time.Duration) ([]byte, error) {
		t := time.Now().Add(d)
		return json.Marshal(types.ObjectLockRetention{Mode: mode, RetainUntilDate: &t})
	}
	switch st {
	case "nokey":
		return nil, s3err.GetAPIError(s3err.ErrNoSuchKey)
	case "none":
		return nil, s3err.GetAPIError(s3err.ErrNoSuchObjectLockConfiguration)
	case "gov-active":
		return mk(types.ObjectLockRetentionModeGovernance, time.Hour)
	case "gov-expired":
		return mk(types.ObjectLockRetentionModeGovernance, -time.Hour)
	case "comp-active":
		return mk(types.ObjectLockRetentionModeCompliance, time.Hour)
	case "comp-expired":
		return mk(types.ObjectLockRetentionModeCompliance, -time.Hour)
	case "empty":
		return json.Marshal(types.ObjectLockRetention{})
	}
	panic("harness: retention " + st)
}

func (b lockBackend) GetObjectLegalHold(_ context.Context, bucket, object, versionId string) (*bool, error) {
	st := b.objs[object][1]
	switch st {
	case "nokey":
		return nil, s3err.GetAPIError(s3err.ErrNoSuchKey)
	case "none":
		return nil, s3err.GetAPIError(s3err.ErrNoSuchObjectLockConfiguration)
	}
	v := st == "on"
	return &v, nil
}

func (b lockBackend) GetBucketPolicy(_ context.Context, bucket string) ([]byte, error) {
	switch b.policy {
	case "none":
		return nil, s3err.GetAPIError(s3err.ErrNoSuchBucketPolicy)
	case "grants":
		return []byte(`{"Statement":[{"Effect":"Allow","Principal":"caller","Action":"s3:BypassGovernanceRetention","Resource":"arn:aws:s3:::bkt/*"}]}`), nil
	}
	return []byte(`{"Statement":[{"Effect":"Allow","Principal":"someoneelse","Action":"s3:BypassGovernanceRetention","Resource":"arn:aws:s3:::bkt/*"},{"Effect":"Allow","Principal":"caller","Action":"s3:GetObject","Resource":"arn:aws:s3:::bkt/*"}]}`), nil
}

func init() {
	// cfg \t ret:hold,ret:hold,... \t bypass(0/1) \t policy
	handlers["lockcheck"] = func(f []string) string {
		be := lockBackend{cfg: f[0], objs: map[string][2]string{}, policy: f[3]}
		var ids []types.ObjectIdentifier
		for i, o := range strings.Split(f[1], ",") {
			p := strings.Split(o, ":")
			k := fmt.Sprintf("obj%d", i)
			be.objs[k] = [2]string{p[0], p[1]}
			key := k
			ids = append(ids, types.ObjectIdentifier{Key: &key})
		}
		err := auth.CheckObjectAccess(context.Background(), "bkt", "caller", ids, f[2] == "1", be)
		if err == nil {
			return "allow"
		}
		if errors.Is(err, s3err.GetAPIError(s3err.ErrObjectLocked)) {
			return "locked"
		}
		return "err:" + err.Error()
	}

	// existing \t bypass(0/1): PutObjectRetention of the real posix backend on an object with that existing retention
	var be *posix.Posix
	n := 0
	handlers["putretention"] = func(f []string) string {
		ctx := context.Background()
		if be == nil {
			dir, err := os.MkdirTemp("/dev/shm", "verif-corr-lock-")
			if err != nil {
				panic("harness: " + err.Error())
			}
			cleanupDirs = append(cleanupDirs, dir)
			be, err = posix.New(dir, meta.XattrMeta{}, posix.PosixOpts{})
			if err != nil {
				panic("harness: " + err.Error())
			}
			lock := true
			bk := "bkt"
			err = be.CreateBucket(ctx, &s3.CreateBucketInput{Bucket: &bk, ObjectLockEnabledForBucket: &lock}, []byte(`{"Owner":"root"}`))
			if err != nil {
				panic("harness: create bucket: " + err.Error())
			}
		}
		n++
		bk, key := "bkt", fmt.Sprintf("k%d", n)
		zero := int64(0)
		_, err := be.PutObject(ctx, s3response.PutObjectInput{Bucket: &bk, Key: &key, ContentLength: &zero, Body: strings.NewReader("")})
		if err != nil {
			panic("harness: put: " + err.Error())
		}
		mk := func(mode types.ObjectLockRetentionMode, d time.Duration) []byte {
			t := time.Now().Add(d)
			b, _ := json.Marshal(types.ObjectLockRetention{Mode: mode, RetainUntilDate: &t})
			return b
		}
		var ex []byte
		switch f[0] {
		case "gov":
			ex = mk(types.ObjectLockRetentionModeGovernance, time.Hour)
		case "comp":
			ex = mk(types.ObjectLockRetentionModeCompliance, time.Hour)
		case "gov-expired":
			ex = mk(types.ObjectLockRetentionModeGovernance, -time.Hour)
		case "comp-expired":
			ex = mk(types.ObjectLockRetentionModeCompliance, -time.Hour)
		}
		if ex != nil {
			if err := be.PutObjectRetention(ctx, bk, key, "", true, ex); err != nil {
				panic("harness: first retention: " + err.Error())
			}
		}
		neu := mk(types.ObjectLockRetentionModeGovernance, time.Minute)
		err = be.PutObjectRetention(ctx, bk, key, "", f[1] == "1", neu)
		got, _ := be.GetObjectRetention(ctx, bk, key, "")
		stored := string(got) == string(neu)
		if err == nil && stored {
			return "stored"
		}
		if err != nil && !stored {
			return "refused"
		}
		return fmt.Sprintf("inconsistent:%v:%v", err, stored)
	}
}
