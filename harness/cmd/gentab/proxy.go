package main

import (
	"go/ast"
	"sort"
	"strings"
)

// Gen/ProxyFields.v: for every method of *S3Proxy (backend/s3proxy/s3.go), which fields of the caller's input reach the
// SDK call and which fields of the SDK's answer reach the caller.
//
//	forwarded: the SDK call receives the method's input value itself ("*": every field), or a composite literal whose
//	           entries "F: input.F" are listed (an entry whose value is some other expression is listed as "F=<expr>")
//	cleared:   fields the method sets to nil / "" before the call ("input.F = nil")
//	returned:  the method returns the SDK's output value itself ("*"), or a composite literal with entries "F: out.F"
func init() {
	generators = append(generators, func() (string, string) {
		f := parse("backend/s3proxy/s3.go")
		type row struct {
			name                         string
			forwarded, cleared, returned []string
		}
		var rows []row
		for _, d := range f.Decls {
			fd, ok := d.(*ast.FuncDecl)
			if !ok || fd.Recv == nil || len(fd.Recv.List) != 1 || fd.Body == nil {
				continue
			}
			if se, ok := fd.Recv.List[0].Type.(*ast.StarExpr); !ok || src(se.X) != "S3Proxy" {
				continue
			}
			if !fd.Name.IsExported() {
				continue
			}
			r := row{name: fd.Name.Name}
			// the name of the input parameter (the last one of struct / pointer type named *Input)
			inName := ""
			for _, p := range fd.Type.Params.List {
				if strings.Contains(src(p.Type), "Input") && len(p.Names) == 1 {
					inName = p.Names[0].Name
				}
			}
			outNames := map[string]bool{}
			fwd, ret, clr := map[string]bool{}, map[string]bool{}, map[string]bool{}
			litFields := func(cl *ast.CompositeLit, from map[string]bool, into map[string]bool) {
				for _, e := range cl.Elts {
					kv, ok := e.(*ast.KeyValueExpr)
					if !ok {
						continue
					}
					k := src(kv.Key)
					v := src(kv.Value)
					matched := false
					for n := range from {
						if v == n+"."+k || v == "*"+n+"."+k || v == "&"+n+"."+k {
							into[k] = true
							matched = true
						}
					}
					if !matched {
						into[k+"=<"+v+">"] = true
					}
				}
			}
			ast.Inspect(fd.Body, func(n ast.Node) bool {
				switch x := n.(type) {
				case *ast.AssignStmt:
					// out, err := s.client.X(ctx, <arg>, ...)
					if len(x.Rhs) == 1 {
						if call, ok := x.Rhs[0].(*ast.CallExpr); ok && strings.HasPrefix(src(call.Fun), "s.client.") && len(call.Args) >= 2 {
							if len(x.Lhs) >= 1 {
								if id, ok := x.Lhs[0].(*ast.Ident); ok && id.Name != "_" {
									outNames[id.Name] = true
								}
							}
							arg := call.Args[1]
							if ue, ok := arg.(*ast.UnaryExpr); ok {
								if cl, ok := ue.X.(*ast.CompositeLit); ok {
									litFields(cl, map[string]bool{inName: true}, fwd)
								} else if src(ue.X) == inName {
									fwd["*"] = true
								}
							} else if src(arg) == inName {
								fwd["*"] = true
							}
						}
					}
				case *ast.ReturnStmt:
					for _, res := range x.Results {
						e := res
						if ue, ok := e.(*ast.UnaryExpr); ok {
							e = ue.X
						}
						if cl, ok := e.(*ast.CompositeLit); ok && len(cl.Elts) > 0 {
							litFields(cl, outNames, ret)
						} else if outNames[src(e)] {
							ret["*"] = true
						} else if call, ok := e.(*ast.CallExpr); ok && strings.HasPrefix(src(call.Fun), "s.client.") {
							ret["*"] = true
						}
					}
				}
				return true
			})
			// unconditional "input.F = nil" / "input.F = \"\"" statements of the method body, and
			// "if input.F != nil && *input.F == 0 { input.F = nil }" (a numeric zero turned into "absent")
			if inName != "" {
				for _, st := range fd.Body.List {
					if as, ok := st.(*ast.AssignStmt); ok && len(as.Lhs) == 1 && len(as.Rhs) == 1 {
						l := src(as.Lhs[0])
						if strings.HasPrefix(l, inName+".") && (src(as.Rhs[0]) == "nil" || src(as.Rhs[0]) == `""`) {
							clr[strings.TrimPrefix(l, inName+".")] = true
						}
					}
					if is, ok := st.(*ast.IfStmt); ok {
						c := src(is.Cond)
						for _, bs := range is.Body.List {
							if as, ok := bs.(*ast.AssignStmt); ok && len(as.Lhs) == 1 && len(as.Rhs) == 1 && src(as.Rhs[0]) == "nil" {
								l := src(as.Lhs[0])
								if strings.HasPrefix(l, inName+".") && strings.Contains(c, "*"+l+" == 0") {
									clr["zero:"+strings.TrimPrefix(l, inName+".")] = true
								}
							}
						}
					}
				}
			}
			// "return s.client.X(ctx, input)" forwards everything too
			ast.Inspect(fd.Body, func(n ast.Node) bool {
				if call, ok := n.(*ast.CallExpr); ok && strings.HasPrefix(src(call.Fun), "s.client.") && len(call.Args) >= 2 {
					if src(call.Args[1]) == inName {
						fwd["*"] = true
					}
				}
				return true
			})
			r.forwarded, r.cleared, r.returned = sorted(fwd), sorted(clr), sorted(ret)
			rows = append(rows, r)
		}
		sort.Slice(rows, func(i, j int) bool { return rows[i].name < rows[j].name })
		q := func(l []string) string {
			items := []string{}
			for _, s := range l {
				items = append(items, coqStr(s))
			}
			return coqList(items)
		}
		var b strings.Builder
		b.WriteString("(* backend/s3proxy/s3.go: method, fields forwarded to the SDK call, fields cleared before it, fields returned to the caller *)\n")
		b.WriteString("Definition proxy_methods : list (string * (list string * list string * list string)) :=\n  [")
		for i, r := range rows {
			if i > 0 {
				b.WriteString(";\n   ")
			}
			b.WriteString("(" + coqStr(r.name) + ", (" + q(r.forwarded) + ", " + q(r.cleared) + ", " + q(r.returned) + "))")
		}
		b.WriteString("].\n")
		return "ProxyFields.v", b.String()
	})
}
