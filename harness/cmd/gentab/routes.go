package main

import (
	"fmt"
	"go/ast"
	"sort"
	"strings"
)

// Gen/RouteTable.v: for every handler of s3api/controllers/base.go, every access-check call
// (auth.VerifyAccess, auth.VerifyObjectCopyAccess, auth.CheckObjectAccess, auth.IsAdminOrOwner, auth.MayCreateBucket)
// and every backend call (c.be.X), in source order, each with the chain of sub-resource conditions leading to it and
// the literal fields of the AccessOptions argument.

type rrow struct {
	handler string
	conds   []string
	line    int
	kind    string
	fields  map[string]string
}

var rrows []rrow

func litFields(e ast.Expr) map[string]string {
	m := map[string]string{}
	cl, ok := e.(*ast.CompositeLit)
	if !ok {
		return m
	}
	for _, el := range cl.Elts {
		if kv, ok := el.(*ast.KeyValueExpr); ok {
			m[src(kv.Key)] = src(kv.Value)
		}
	}
	return m
}

func simpCond(c string) string {
	c = strings.ReplaceAll(c, `ctx.Request().URI().QueryArgs().Has(`, "has(")
	return c
}

func isRouteCond(c string) bool {
	return strings.Contains(c, "has(") || strings.Contains(c, "copySource") || strings.Contains(c, "uploadId") ||
		strings.Contains(c, `ctx.Query`) || strings.Contains(c, "QueryInt") || strings.Contains(c, "partNumber") ||
		strings.Contains(c, "versionId") || strings.Contains(c, "ctx.Method()") || strings.Contains(c, "attrs")
}

func walkStmts(handler string, conds []string, list []ast.Stmt) (terminated bool) {
	for _, st := range list {
		switch s := st.(type) {
		case *ast.IfStmt:
			c := simpCond(src(s.Cond))
			inner := append(append([]string{}, conds...), c)
			if s.Init != nil {
				visitCalls(handler, conds, s.Init)
			}
			visitCalls(handler, conds, s.Cond)
			thenTerm := walkStmts(handler, inner, s.Body.List)
			if s.Else != nil {
				neg := append(append([]string{}, conds...), "!("+c+")")
				switch e := s.Else.(type) {
				case *ast.BlockStmt:
					walkStmts(handler, neg, e.List)
				case *ast.IfStmt:
					walkStmts(handler, neg, []ast.Stmt{e})
				}
			}
			if thenTerm && s.Else == nil && isRouteCond(c) {
				conds = append(conds, "!("+c+")")
			}
		case *ast.ReturnStmt:
			visitCalls(handler, conds, s)
			return true
		case *ast.BlockStmt:
			if walkStmts(handler, conds, s.List) {
				return true
			}
		case *ast.SwitchStmt:
			visitCalls(handler, conds, s)
		case *ast.ForStmt, *ast.RangeStmt:
			visitCalls(handler, conds, s)
		default:
			visitCalls(handler, conds, st)
		}
	}
	return false
}

func visitCalls(handler string, conds []string, n ast.Node) {
	ast.Inspect(n, func(x ast.Node) bool {
		if _, ok := x.(*ast.FuncLit); ok {
			return false
		}
		call, ok := x.(*ast.CallExpr)
		if !ok {
			return true
		}
		fn := src(call.Fun)
		line := fset.Position(call.Pos()).Line
		rc := []string{}
		for _, c := range conds {
			if isRouteCond(c) {
				rc = append(rc, c)
			}
		}
		switch {
		case fn == "auth.VerifyAccess" && len(call.Args) == 3:
			rrows = append(rrows, rrow{handler, rc, line, "VerifyAccess", litFields(call.Args[2])})
		case fn == "auth.VerifyObjectCopyAccess" && len(call.Args) == 4:
			f := litFields(call.Args[3])
			f["copySource"] = src(call.Args[2])
			rrows = append(rrows, rrow{handler, rc, line, "VerifyObjectCopyAccess", f})
		case fn == "auth.CheckObjectAccess":
			f := map[string]string{}
			if len(call.Args) >= 5 {
				f["objects"] = src(call.Args[3])
				f["bypass"] = src(call.Args[4])
			}
			rrows = append(rrows, rrow{handler, rc, line, "CheckObjectAccess", f})
		case fn == "auth.IsAdminOrOwner":
			rrows = append(rrows, rrow{handler, rc, line, "IsAdminOrOwner", map[string]string{}})
		case fn == "auth.MayCreateBucket":
			rrows = append(rrows, rrow{handler, rc, line, "MayCreateBucket", map[string]string{}})
		case strings.HasPrefix(fn, "c.be."):
			rrows = append(rrows, rrow{handler, rc, line, "be." + strings.TrimPrefix(fn, "c.be."), map[string]string{}})
		case fn == "ctx.Body":
			rrows = append(rrows, rrow{handler, rc, line, "body.ctxBody", map[string]string{}})
		case fn == "ctx.Locals" && len(call.Args) == 1 && src(call.Args[0]) == `"body-reader"`:
			rrows = append(rrows, rrow{handler, rc, line, "body.reader", map[string]string{}})
		}
		return true
	})
}

func init() {
	generators = append(generators, func() (string, string) {
		rrows = nil
		f := parse("s3api/controllers/base.go")
		actions := stringConsts(parse("auth/bucket_policy_actions.go"))
		for _, d := range f.Decls {
			fd, ok := d.(*ast.FuncDecl)
			if !ok || fd.Recv == nil || fd.Body == nil || len(fd.Recv.List) == 0 {
				continue
			}
			if src(fd.Recv.List[0].Type) != "S3ApiController" {
				continue
			}
			walkStmts(fd.Name.Name, nil, fd.Body.List)
		}
		sort.SliceStable(rrows, func(i, j int) bool { return rrows[i].line < rrows[j].line })
		var b strings.Builder
		b.WriteString("(* s3api/controllers/base.go: access checks and backend calls per handler, in source order *)\n")
		b.WriteString("Record row := { r_handler : string; r_conds : list string; r_line : nat; r_kind : string; r_action : string;\n")
		b.WriteString("                r_perm : string; r_object : string; r_readonly : bool; r_extra : string }.\n\n")
		b.WriteString("Definition route_table : list row := [\n")
		for i, r := range rrows {
			action := r.fields["Action"]
			if strings.HasPrefix(action, "auth.") {
				if v, ok := actions[strings.TrimPrefix(action, "auth.")]; ok {
					action = v
				} else {
					action = "<unknown:" + action + ">"
				}
			}
			perm := strings.TrimPrefix(r.fields["AclPermission"], "auth.Permission")
			_, ro := r.fields["Readonly"]
			extra := r.fields["copySource"] + r.fields["objects"]
			if r.fields["bypass"] != "" {
				extra += "|bypass=" + r.fields["bypass"]
			}
			conds := []string{}
			for _, c := range r.conds {
				conds = append(conds, coqStr(c))
			}
			sep := ";"
			if i == len(rrows)-1 {
				sep = ""
			}
			fmt.Fprintf(&b, "  {| r_handler := %s; r_conds := %s; r_line := %d; r_kind := %s; r_action := %s; r_perm := %s; r_object := %s; r_readonly := %v; r_extra := %s |}%s\n",
				coqStr(r.handler), coqList(conds), r.line, coqStr(r.kind), coqStr(action), coqStr(perm), coqStr(r.fields["Object"]), ro, coqStr(extra), sep)
		}
		b.WriteString("].\n")
		return "RouteTable.v", b.String()
	})
}
