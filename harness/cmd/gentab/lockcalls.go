package main

import (
	"fmt"
	"go/ast"
	"strings"
)

// Gen/LockCalls.v: for the posix backend operations that replace an object on their own (the controller cannot check the
// lock for them, or checks it too early), the source lines of auth.CheckObjectAccess calls and of the publishing step
// (f.link()) inside the method body (backend/posix/posix.go)
func init() {
	generators = append(generators, func() (string, string) {
		f := parse("backend/posix/posix.go")
		want := []string{"CompleteMultipartUpload", "PutObject", "CopyObject"}
		rows := []string{}
		for _, name := range want {
			for _, d := range f.Decls {
				fd, ok := d.(*ast.FuncDecl)
				if !ok || fd.Name.Name != name || fd.Recv == nil || fd.Body == nil {
					continue
				}
				checks, links := []string{}, []string{}
				ast.Inspect(fd.Body, func(n ast.Node) bool {
					ce, ok := n.(*ast.CallExpr)
					if !ok {
						return true
					}
					if se, ok := ce.Fun.(*ast.SelectorExpr); ok {
						if x, ok := se.X.(*ast.Ident); ok {
							line := fmt.Sprint(fset.Position(ce.Pos()).Line)
							if x.Name == "auth" && se.Sel.Name == "CheckObjectAccess" {
								checks = append(checks, line)
							}
							if x.Name == "f" && se.Sel.Name == "link" {
								links = append(links, line)
							}
						}
					}
					return true
				})
				rows = append(rows, fmt.Sprintf("  (%s, %s, %s)", coqStr(name), "["+strings.Join(checks, "; ")+"]", "["+strings.Join(links, "; ")+"]"))
			}
		}
		text := "(* backend/posix/posix.go: per method, lines of auth.CheckObjectAccess calls and of f.link() *)\n" +
			"Definition posix_lock_calls : list (string * list nat * list nat) := [\n" + strings.Join(rows, ";\n") + "\n].\n"
		return "LockCalls.v", text
	})
}
