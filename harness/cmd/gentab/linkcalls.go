package main

import (
	"fmt"
	"go/ast"
	"strings"
)

// Gen/LinkCalls.v: for every method of the posix backend, the source lines of its calls of (*tmpfile).link(), the step that
// publishes a temporary file under the object's name and closes its descriptor (backend/posix/posix.go)
func init() {
	generators = append(generators, func() (string, string) {
		f := parse("backend/posix/posix.go")
		rows := []string{}
		for _, d := range f.Decls {
			fd, ok := d.(*ast.FuncDecl)
			if !ok || fd.Body == nil {
				continue
			}
			links := []string{}
			ast.Inspect(fd.Body, func(n ast.Node) bool {
				ce, ok := n.(*ast.CallExpr)
				if !ok {
					return true
				}
				if se, ok := ce.Fun.(*ast.SelectorExpr); ok && se.Sel.Name == "link" && len(ce.Args) == 0 {
					links = append(links, fmt.Sprint(fset.Position(ce.Pos()).Line))
				}
				return true
			})
			if len(links) > 0 {
				rows = append(rows, fmt.Sprintf("  (%s, %s)", coqStr(fd.Name.Name), "["+strings.Join(links, "; ")+"]"))
			}
		}
		text := "(* backend/posix/posix.go: per function, the lines of its calls of link() on a temporary file *)\n" +
			"Definition posix_link_calls : list (string * list nat) := [\n" + strings.Join(rows, ";\n") + "\n].\n"
		return "LinkCalls.v", text
	})
}
