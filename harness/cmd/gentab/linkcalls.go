package main

import (
	"fmt"
	"go/ast"
	"strings"
)

// Gen/LinkCalls.v: for every method of the posix backend, the source lines of its calls of (*tmpfile).link(), the step that
// publishes a temporary file under the object's name and closes its descriptor (backend/posix/posix.go)
func init() {
	generators = append(generators, func() (string, string) {
		f := parse("backend/posix/posix.go")
		rows := []string{}
		for _, d := range f.Decls {
			fd, ok := d.(*ast.FuncDecl)
			if !ok || fd.Body == nil {
				continue
			}
			// grouped by the temporary file (the receiver of the call): a function may publish two different files on two
			// of its paths (DeleteObject: the promoted version, the delete marker), never one file twice
			links := map[string][]string{}
			order := []string{}
			ast.Inspect(fd.Body, func(n ast.Node) bool {
				ce, ok := n.(*ast.CallExpr)
				if !ok {
					return true
				}
				if se, ok := ce.Fun.(*ast.SelectorExpr); ok && se.Sel.Name == "link" && len(ce.Args) == 0 {
					recv := "?"
					if id, ok := se.X.(*ast.Ident); ok {
						recv = id.Name
					}
					if _, seen := links[recv]; !seen {
						order = append(order, recv)
					}
					links[recv] = append(links[recv], fmt.Sprint(fset.Position(ce.Pos()).Line))
				}
				return true
			})
			for _, recv := range order {
				rows = append(rows, fmt.Sprintf("  (%s, %s)", coqStr(fd.Name.Name+":"+recv), "["+strings.Join(links[recv], "; ")+"]"))
			}
		}
		text := "(* backend/posix/posix.go: per function and temporary file (\"function:variable\"), the lines of the calls of link() on it *)\n" +
			"Definition posix_link_calls : list (string * list nat) := [\n" + strings.Join(rows, ";\n") + "\n].\n"
		return "LinkCalls.v", text
	})
}
