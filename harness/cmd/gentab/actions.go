package main

import (
	"go/ast"
	"go/token"
)

// Gen/ActionLists.v: supportedActionList, supportedObjectActionList (auth/bucket_policy_actions.go)
func init() {
	generators = append(generators, func() (string, string) {
		f := parse("auth/bucket_policy_actions.go")
		consts := stringConsts(f)
		lists := map[string][]string{}
		for _, d := range f.Decls {
			gd, ok := d.(*ast.GenDecl)
			if !ok || gd.Tok != token.VAR {
				continue
			}
			for _, s := range gd.Specs {
				vs := s.(*ast.ValueSpec)
				if len(vs.Names) != 1 || len(vs.Values) != 1 {
					continue
				}
				cl, ok := vs.Values[0].(*ast.CompositeLit)
				if !ok {
					continue
				}
				set := map[string]bool{}
				for _, e := range cl.Elts {
					kv, ok := e.(*ast.KeyValueExpr)
					if !ok {
						continue
					}
					switch k := kv.Key.(type) {
					case *ast.Ident:
						if v, ok := consts[k.Name]; ok {
							set[v] = true
						} else {
							set["<unknown:"+k.Name+">"] = true
						}
					case *ast.BasicLit:
						set[k.Value] = true
					}
				}
				lists[vs.Names[0].Name] = sorted(set)
			}
		}
		q := func(l []string) string {
			items := []string{}
			for _, s := range l {
				items = append(items, coqStr(s))
			}
			return coqList(items)
		}
		all := map[string]bool{}
		for _, v := range consts {
			if len(v) > 3 && v[:3] == "s3:" {
				all[v] = true
			}
		}
		text := "(* auth/bucket_policy_actions.go *)\n" +
			"Definition supported_actions : list string :=\n  " + q(lists["supportedActionList"]) + ".\n\n" +
			"Definition supported_object_actions : list string :=\n  " + q(lists["supportedObjectActionList"]) + ".\n\n" +
			"Definition action_constants : list string :=\n  " + q(sorted(all)) + ".\n"
		return "ActionLists.v", text
	})
}
