"""Start / stop real versitygw processes on scratch roots."""
import http.client, os, shutil, signal, socket, subprocess, time
from .common import env, scratch, log


def free_port():
    s = socket.socket()
    s.bind(("127.0.0.1", 0))
    p = s.getsockname()[1]
    s.close()
    return p


class Gateway:
    """One gateway process. cfg: dict(meta='xattr'|'sidecar'|'nometa', otmp=bool, versioning=bool, readonly=bool,
    iam=bool, chown=bool). Several Gateway objects may share a Site (same root)."""
    def __init__(self, binary, site, port=None, extra_env=None, global_args=(), trace=None, mem_limit=None):
        self.binary, self.site = binary, site
        self.mem_limit = mem_limit          # bytes of address space (RLIMIT_AS): a runaway allocation ends the process, not the sandbox
        self.port = port or free_port()
        self.extra_env = extra_env or {}
        self.global_args = list(global_args)
        self.proc = None
        self.logf = None

    def argv(self):
        s = self.site
        a = [self.binary, "-p", "127.0.0.1:%d" % self.port, "-a", s.root_access, "-s", s.root_secret, "-q"]
        if s.cfg.get("tls"):
            crt, key = os.path.join(s.base, "tls.crt"), os.path.join(s.base, "tls.key")
            if not os.path.exists(crt):
                subprocess.run(["openssl", "req", "-x509", "-newkey", "rsa:2048", "-nodes", "-keyout", key, "-out", crt, "-days", "2", "-subj", "/CN=127.0.0.1",
                                "-addext", "subjectAltName=IP:127.0.0.1"], check=True, stdout=subprocess.DEVNULL, stderr=subprocess.DEVNULL)
            a += ["--cert", crt, "--key", key]
        if s.cfg.get("iam", True):
            a += ["--iam-dir", s.iamdir]
        if s.cfg.get("readonly"):
            a += ["--readonly"]
        a += self.global_args
        a += ["posix"]
        if s.cfg.get("backend") == "s3":
            # the S3 proxy backend: cfg["s3"] = dict(endpoint=..., access=..., secret=...)
            b = s.cfg["s3"]
            a[-1] = "s3"
            a += ["--endpoint", b["endpoint"], "--access", b.get("access", "root"), "--secret", b.get("secret", "rootsecret"), "--ssl-skip-verify"]
            return a
        if s.cfg.get("versioning"):
            a += ["--versioning-dir", s.verdir]
        if s.cfg.get("meta") == "sidecar":
            a += ["--sidecar", s.sidecar]
        if s.cfg.get("meta") == "nometa":
            a += ["--nometa"]
        if not s.cfg.get("otmp", True):
            a += ["--disableotmp"]
        if s.cfg.get("chown"):
            a += ["--chuid", "--chgid"]
        a += [s.root]
        return a

    def start(self):
        e = env()
        e.update(self.extra_env)
        self.logf = open(os.path.join(self.site.base, "gw-%d.log" % self.port), "ab")
        pre = None
        if self.mem_limit:
            import resource
            lim = self.mem_limit
            pre = lambda: resource.setrlimit(resource.RLIMIT_AS, (lim, lim))
        self.proc = subprocess.Popen(self.argv(), env=e, stdout=self.logf, stderr=subprocess.STDOUT, cwd=self.site.base, preexec_fn=pre)
        for _ in range(400):
            if self.proc.poll() is not None:
                raise RuntimeError("gateway exited at start: " + self.log_tail())
            try:
                # an HTTP exchange, not just a TCP connect: a connect to a port of the ephemeral range on which nobody listens
                # yet can succeed as a TCP self-connection
                if self.site.cfg.get("tls"):
                    import ssl
                    c = http.client.HTTPSConnection("127.0.0.1", self.port, timeout=0.5, context=ssl._create_unverified_context())
                else:
                    c = http.client.HTTPConnection("127.0.0.1", self.port, timeout=0.5)
                c.request("GET", "/")
                r = c.getresponse(); r.read(); c.close()
                if r.status > 0:
                    return self
            except (OSError, http.client.HTTPException):
                time.sleep(0.02)
        raise RuntimeError("gateway did not start")

    def alive(self):
        return self.proc is not None and self.proc.poll() is None

    def stop(self, kill=False):
        if self.proc is None:
            return
        if self.proc.poll() is None:
            self.proc.send_signal(signal.SIGKILL if kill else signal.SIGTERM)
            try:
                self.proc.wait(timeout=5)
            except subprocess.TimeoutExpired:
                self.proc.kill()
                self.proc.wait()
        if self.logf:
            self.logf.close()
        self.proc = None

    def restart(self):
        self.stop()
        return self.start()

    def log_tail(self, n=2000):
        try:
            return open(os.path.join(self.site.base, "gw-%d.log" % self.port), "rb").read()[-n:].decode("latin1")
        except OSError:
            return ""


class Site:
    """A scratch storage site: root, versioning dir, sidecar dir, IAM dir, under one base directory."""
    def __init__(self, cfg=None, name="site", root_access="root", root_secret="rootsecret"):
        self.cfg = dict(cfg or {})
        self.base = scratch(name)
        self.root = os.path.join(self.base, "root")
        self.verdir = os.path.join(self.base, "versions")
        self.sidecar = os.path.join(self.base, "sidecar")
        self.iamdir = os.path.join(self.base, "iam")
        self.outside = os.path.join(self.base, "outside")
        for d in (self.root, self.verdir, self.sidecar, self.iamdir):
            os.makedirs(d)
        self.root_access, self.root_secret = root_access, root_secret
        self.gws = []

    def gateway(self, binary, **kw):
        g = Gateway(binary, self, **kw).start()
        self.gws.append(g)
        return g

    def close(self):
        for g in self.gws:
            try:
                g.stop(kill=True)
            except Exception:
                pass
        shutil.rmtree(self.base, ignore_errors=True)

    def __enter__(self):
        return self

    def __exit__(self, *a):
        self.close()
