"""Driving the verifhook yield points of a gateway built with the verif tag (file protocol, see /repo/verifhook/on.go)."""
import glob, os, threading, time


class Hooks:
    def __init__(self, base):
        self.dir = os.path.join(base, "hooks")
        os.makedirs(self.dir, exist_ok=True)

    def env(self):
        return {"VERIF_HOOK_DIR": self.dir}

    def hold(self, site):
        open(os.path.join(self.dir, "hold." + site), "w").close()

    def wait_at(self, site, timeout=5.0, thread=None):
        """wait until some request is parked at the site; returns True when one is (False at once when the requesting
        thread has finished without passing the site)"""
        t0 = time.time()
        while time.time() - t0 < timeout:
            if glob.glob(os.path.join(self.dir, "at.%s.*" % site)):
                return True
            if thread is not None and not thread.is_alive():
                return bool(glob.glob(os.path.join(self.dir, "at.%s.*" % site)))
            time.sleep(0.001)
        return False

    def release(self, site):
        for f in (os.path.join(self.dir, "hold." + site),):
            try: os.remove(f)
            except OSError: pass

    def crash_at(self, site, n=1):
        with open(os.path.join(self.dir, "crash." + site), "w") as f:
            f.write(str(n))

    def clear(self):
        for f in os.listdir(self.dir):
            try: os.remove(os.path.join(self.dir, f))
            except OSError: pass

    def trace(self):
        try:
            return [l.split(" ", 1)[1] for l in open(os.path.join(self.dir, "trace")).read().splitlines() if " " in l]
        except OSError:
            return []


def held(hooks, site, first, second, timeout=5.0):
    """run first() in a thread with the site held; once it is parked there run second(); release; returns
    (result of first, result of second, parked?)"""
    res = {}
    hooks.hold(site)
    t = threading.Thread(target=lambda: res.__setitem__("a", first()))
    t.start()
    parked = hooks.wait_at(site, timeout, t)
    if parked:
        # only the first passage is held: later passages of the same site (by the second request) go through
        for f in glob.glob(os.path.join(hooks.dir, "at.%s.*" % site)):
            n = int(f.rsplit(".", 1)[1])
            for m in range(n + 1, n + 40):
                open(os.path.join(hooks.dir, "go.%s.%d" % (site, m)), "w").close()
    try:
        res["b"] = second() if parked else None
    finally:
        hooks.release(site)
        t.join(30)
        for f in glob.glob(os.path.join(hooks.dir, "go.%s.*" % site)):      # (so that the next schedule's first passage parks again)
            try: os.remove(f)
            except OSError: pass
    return res.get("a"), res.get("b"), parked
