"""Driving the verifhook yield points of a gateway built with the verif tag (file protocol, see /repo/verifhook/on.go)."""
import glob, os, threading, time


class Hooks:
    def __init__(self, base):
        self.dir = os.path.join(base, "hooks")
        os.makedirs(self.dir, exist_ok=True)

    def env(self):
        return {"VERIF_HOOK_DIR": self.dir}

    def hold(self, site):
        open(os.path.join(self.dir, "hold." + site), "w").close()

    def wait_at(self, site, timeout=5.0):
        """wait until some request is parked at the site; returns True when one is"""
        t0 = time.time()
        while time.time() - t0 < timeout:
            if glob.glob(os.path.join(self.dir, "at.%s.*" % site)):
                return True
            time.sleep(0.002)
        return False

    def release(self, site):
        for f in (os.path.join(self.dir, "hold." + site),):
            try: os.remove(f)
            except OSError: pass

    def crash_at(self, site, n=1):
        with open(os.path.join(self.dir, "crash." + site), "w") as f:
            f.write(str(n))

    def clear(self):
        for f in os.listdir(self.dir):
            try: os.remove(os.path.join(self.dir, f))
            except OSError: pass

    def trace(self):
        try:
            return [l.split(" ", 1)[1] for l in open(os.path.join(self.dir, "trace")).read().splitlines() if " " in l]
        except OSError:
            return []


def held(hooks, site, first, second, timeout=5.0):
    """run first() in a thread with the site held; once it is parked there run second(); release; returns
    (result of first, result of second, parked?)"""
    res = {}
    hooks.hold(site)
    t = threading.Thread(target=lambda: res.__setitem__("a", first()))
    t.start()
    parked = hooks.wait_at(site, timeout)
    try:
        res["b"] = second() if parked else None
    finally:
        hooks.release(site)
        t.join(30)
    return res.get("a"), res.get("b"), parked
