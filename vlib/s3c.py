"""Minimal S3 client with its own SigV4 implementation (independent of the gateway's signer)."""
import datetime, hashlib, hmac, http.client, re, urllib.parse
import xml.etree.ElementTree as ET

UNSIGNED = "UNSIGNED-PAYLOAD"


def _h(k, m):
    return hmac.new(k, m.encode() if isinstance(m, str) else m, hashlib.sha256).digest()


def quote_path(p):
    if isinstance(p, str):
        p = p.encode("utf-8")
    return urllib.parse.quote_from_bytes(p, safe="/-_.~")


def quote_q(s):
    return urllib.parse.quote(s, safe="-_.~")


def signing_key(secret, date, region, service="s3"):
    return _h(_h(_h(_h(("AWS4" + secret).encode(), date), region), service), "aws4_request")


class Resp:
    def __init__(self, status, headers, body):
        self.status = status
        self.headers = {k.lower(): v for k, v in headers}
        self.body = body
    @property
    def code(self):
        m = re.search(rb"<Code>(.*?)</Code>", self.body or b"")
        return m.group(1).decode() if m else ""
    def xml(self):
        try:
            return strip_ns(ET.fromstring(self.body))
        except ET.ParseError:
            return None
    def __repr__(self):
        return "Resp(%d %s %r)" % (self.status, self.code, (self.body or b"")[:80])


def strip_ns(el):
    for e in el.iter():
        if "}" in e.tag:
            e.tag = e.tag.split("}", 1)[1]
    return el


class Client:
    def __init__(self, port, access, secret, region="us-east-1", host="127.0.0.1", tls=False):
        self.host, self.port, self.access, self.secret, self.region, self.tls = host, port, access, secret, region, tls

    def sign(self, method, cpath, cq, headers, payload_hash, now=None, secret=None, region=None, service="s3",
             access=None):
        now = now or datetime.datetime.utcnow()
        amzdate = now.strftime("%Y%m%dT%H%M%SZ")
        d = now.strftime("%Y%m%d")
        headers.setdefault("host", "%s:%d" % (self.host, self.port))
        headers.setdefault("x-amz-date", amzdate)
        headers.setdefault("x-amz-content-sha256", payload_hash)
        sh = sorted(k.lower() for k in headers)
        low = {k.lower(): v for k, v in headers.items()}
        ch = "".join("%s:%s\n" % (k, " ".join(str(low[k]).split())) for k in sh)
        creq = "\n".join([method, cpath, cq, ch, ";".join(sh), payload_hash])
        scope = "%s/%s/%s/aws4_request" % (d, region or self.region, service)
        sts = "\n".join(["AWS4-HMAC-SHA256", amzdate, scope, hashlib.sha256(creq.encode()).hexdigest()])
        key = signing_key(self.secret if secret is None else secret, d, region or self.region, service)
        sig = hmac.new(key, sts.encode(), hashlib.sha256).hexdigest()
        headers["Authorization"] = "AWS4-HMAC-SHA256 Credential=%s/%s, SignedHeaders=%s, Signature=%s" % (
            access or self.access, scope, ";".join(sh), sig)
        return sig, key, amzdate, scope

    def req(self, method, path, query=None, body=b"", headers=None, sign=True, secret=None, raw_path=None,
            payload_hash=None, tamper=None, now=None, region=None, service="s3", access=None, raw_query=None,
            send_body=None, timeout=20, content_length=None, pre_headers=None):
        """path: decoded path (str or bytes); query: list of (k, v) or dict. Returns Resp.
        tamper(headers) is applied after signing; send_body overrides the bytes put on the wire."""
        headers = dict(headers or {})
        if isinstance(query, dict):
            query = list(query.items())
        query = query or []
        cpath = quote_path(path)
        cq = "&".join("%s=%s" % (quote_q(k), quote_q(v)) for k, v in sorted(query))
        ph = payload_hash or hashlib.sha256(body).hexdigest()
        if sign:
            self.sign(method, cpath, cq, headers, ph, now=now, secret=secret, region=region, service=service,
                      access=access)
        else:
            headers.setdefault("host", "%s:%d" % (self.host, self.port))
        if tamper:
            tamper(headers)
        wire = body if send_body is None else send_body
        url = (raw_path if raw_path is not None else cpath)
        q = raw_query if raw_query is not None else cq
        if q:
            url += "?" + q
        return self.raw(method, url, headers, wire, timeout=timeout, content_length=content_length, pre_headers=pre_headers)

    def req_streaming(self, method, path, make_body, query=None, headers=None, payload_type="STREAMING-AWS4-HMAC-SHA256-PAYLOAD",
                      secret=None, tamper=None, timeout=30):
        """aws-chunked request: headers are signed first with the streaming payload type; make_body(seed_sig, key, amzdate,
        date8, region) returns the encoded body. Returns (Resp, seed signature)."""
        import datetime as _dt
        headers = dict(headers or {})
        if isinstance(query, dict):
            query = list(query.items())
        query = query or []
        cpath = quote_path(path)
        cq = "&".join("%s=%s" % (quote_q(k), quote_q(v)) for k, v in sorted(query))
        now = _dt.datetime.utcnow()
        sig, key, amzdate, scope = self.sign(method, cpath, cq, headers, payload_type, now=now, secret=secret)
        body = make_body(sig, key, amzdate, now.strftime("%Y%m%d"), self.region)
        if tamper:
            tamper(headers)
        url = cpath + ("?" + cq if cq else "")
        return self.raw(method, url, headers, body, timeout=timeout), sig

    def raw(self, method, url, headers, wire=b"", timeout=20, content_length=None, pre_headers=None):
        cls = http.client.HTTPSConnection if self.tls else http.client.HTTPConnection
        kw = {}
        if self.tls:
            import ssl
            kw["context"] = ssl._create_unverified_context()
        conn = cls(self.host, self.port, timeout=timeout, **kw)
        try:
            conn.putrequest(method, url, skip_host=True, skip_accept_encoding=True)
            for k, v in (pre_headers or []):
                conn.putheader(k, v)
            for k, v in headers.items():
                conn.putheader(k, v)
            if content_length is False:
                pass              # neither Content-Length nor Transfer-Encoding: a request without a body stream
            elif content_length is not None:
                conn.putheader("Content-Length", str(content_length))
            elif wire or method in ("PUT", "POST"):
                conn.putheader("Content-Length", str(len(wire)))
            conn.endheaders()
            if wire:
                try:
                    conn.send(wire)
                except (BrokenPipeError, ConnectionResetError):
                    pass          # the server answered before reading the whole body; its response may still be readable
            r = conn.getresponse()
            data = r.read()
            rr = Resp(r.status, r.getheaders(), data)
            rr.wire = wire
            rr.sent_headers = dict(headers)
            return rr
        except (OSError, http.client.HTTPException) as e:
            # connection refused / reset / closed without a response: an observation, not a harness error
            rr = Resp(-1, [], b"")
            rr.error = repr(e)
            rr.wire = wire
            rr.sent_headers = dict(headers)
            return rr
        finally:
            conn.close()

    def presign(self, method, path, query=None, expires=300, now=None, secret=None, headers=None):
        now = now or datetime.datetime.utcnow()
        amzdate = now.strftime("%Y%m%dT%H%M%SZ")
        d = now.strftime("%Y%m%d")
        scope = "%s/%s/s3/aws4_request" % (d, self.region)
        hd = {"host": "%s:%d" % (self.host, self.port)}
        hd.update({k.lower(): v for k, v in (headers or {}).items()})
        sh = sorted(hd)
        q = list((query or {}).items()) if isinstance(query, dict) else list(query or [])
        q += [("X-Amz-Algorithm", "AWS4-HMAC-SHA256"), ("X-Amz-Credential", "%s/%s" % (self.access, scope)),
              ("X-Amz-Date", amzdate), ("X-Amz-Expires", str(expires)), ("X-Amz-SignedHeaders", ";".join(sh))]
        cq = "&".join("%s=%s" % (quote_q(k), quote_q(v)) for k, v in sorted(q))
        ch = "".join("%s:%s\n" % (k, hd[k]) for k in sh)
        creq = "\n".join([method, quote_path(path), cq, ch, ";".join(sh), UNSIGNED])
        sts = "\n".join(["AWS4-HMAC-SHA256", amzdate, scope, hashlib.sha256(creq.encode()).hexdigest()])
        key = signing_key(self.secret if secret is None else secret, d, self.region)
        sig = hmac.new(key, sts.encode(), hashlib.sha256).hexdigest()
        return quote_path(path) + "?" + cq + "&X-Amz-Signature=" + sig, hd
