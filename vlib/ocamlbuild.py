"""Build an extracted model + OCaml driver: coqc the Extract file in build/ocaml/<name>/, ocamlfind ocamlopt."""
import os, shutil
from .common import BUILD, COQ, VERIF, Lock, run, BuildError


def build_driver(name, extract_v, ml_name, driver_ml):
    """extract_v: path under coq/ of the Extraction file; ml_name: file it writes; driver_ml: file under ocaml/."""
    with Lock("ocaml-" + name):
        d = os.path.join(BUILD, "ocaml", name)
        os.makedirs(d, exist_ok=True)
        # coqc writes the extracted files into its cwd
        p = run(["timeout", "600", "coqc", "-Q", COQ, "VGW", "-w", "-notation-overridden,-deprecated,-extraction",
                 os.path.join(COQ, extract_v), "-o", os.path.join(d, os.path.basename(extract_v) + "o")], cwd=d, check=False)
        if p.returncode != 0 or not os.path.exists(os.path.join(d, ml_name)):
            raise BuildError("extraction failed: " + (p.stdout + p.stderr).decode("latin1")[-3000:])
        shutil.copy(os.path.join(VERIF, "ocaml", driver_ml), os.path.join(d, driver_ml))
        out = os.path.join(BUILD, "bin", name)
        base = ml_name[:-3]
        run(["ocamlfind", "ocamlopt", "-O3", "-w", "-a", "-o", out, base + ".mli", base + ".ml", driver_ml], cwd=d, check=False)
        if not os.path.exists(out):
            run(["ocamlfind", "ocamlopt", "-w", "-a", "-o", out, base + ".mli", base + ".ml", driver_ml], cwd=d)
        return out


def run_lines(binary, lines, nproc=14, timeout=900):
    """Feed one case per line to the extracted driver, sharded over nproc processes; returns the output lines in order."""
    import subprocess
    from concurrent.futures import ThreadPoolExecutor
    if not lines:
        return []
    nproc = max(1, min(nproc, len(lines) // 8 or 1))
    shards = [lines[i::nproc] for i in range(nproc)]
    def work(sh):
        p = subprocess.run([binary], input=("\n".join(sh) + "\n").encode(), stdout=subprocess.PIPE, timeout=timeout)
        return p.stdout.decode().split("\n")[:len(sh)]
    with ThreadPoolExecutor(nproc) as ex:
        outs = list(ex.map(work, shards))
    res = [None] * len(lines)
    for k, o in enumerate(outs):
        o = o + ["?"] * (len(shards[k]) - len(o))
        res[k::nproc] = o
    return res
