"""Build the Go harness and the gateway binary from /repo's current working tree."""
import glob, os, shutil
from .common import BUILD, HARNESS, REPO, Lock, run, write_if_changed, log, BuildError

HW = os.path.join(BUILD, "harness")


def _sync_harness():
    os.makedirs(HW, exist_ok=True)
    tmpl = open(os.path.join(HARNESS, "go.mod.tmpl")).read()
    if "replace github.com/versity/versitygw" not in tmpl:
        tmpl += "\nreplace github.com/versity/versitygw => %s\n" % REPO
    write_if_changed(os.path.join(HW, "go.mod"), tmpl)
    shutil.copyfile(os.path.join(REPO, "go.sum"), os.path.join(HW, "go.sum"))
    want = set()
    for src in glob.glob(os.path.join(HARNESS, "cmd", "*", "*.go")):
        rel = os.path.relpath(src, HARNESS)
        want.add(rel)
        write_if_changed(os.path.join(HW, rel), open(src).read())
    for old in glob.glob(os.path.join(HW, "cmd", "*", "*.go")):
        if os.path.relpath(old, HW) not in want:
            os.remove(old)


def build_tool(name):
    """go build harness/cmd/<name> against /repo (replace directive) -> build/bin/<name>."""
    with Lock("go-" + name):
        _sync_harness()
        out = os.path.join(BUILD, "bin", name)
        os.makedirs(os.path.dirname(out), exist_ok=True)
        p = run(["go", "build", "-tags", "verif", "-o", out, "./cmd/" + name], cwd=HW, timeout=900, check=False)
        if p.returncode != 0:
            # a handler file that no longer compiles against the working tree must not take the other properties' handlers
            # down with it: retry without the offending files (their handlers then answer "unknown function")
            import re
            err = (p.stdout + p.stderr).decode("latin1")
            bad = sorted(set(re.findall(r"cmd/%s/(\w+)\.go:" % name, err)) - {"main"})
            if not bad:
                raise BuildError("go build %s failed:\n%s" % (name, err[-3000:]))
            tags = "verif," + ",".join("no_" + b for b in bad)
            log("harness files excluded because they do not compile against /repo:", bad)
            p2 = run(["go", "build", "-tags", tags, "-o", out, "./cmd/" + name], cwd=HW, timeout=900, check=False)
            if p2.returncode != 0:
                raise BuildError("go build %s failed:\n%s" % (name, (p2.stdout + p2.stderr).decode("latin1")[-3000:]))
        return out


def build_gateway(tags="verif"):
    """go build the real gateway from the working tree of /repo -> build/bin/versitygw[-tags]."""
    with Lock("go-gateway-" + (tags or "plain")):
        out = os.path.join(BUILD, "bin", "versitygw-" + (tags or "plain"))
        os.makedirs(os.path.dirname(out), exist_ok=True)
        cmd = ["go", "build", "-o", out]
        if tags:
            cmd += ["-tags", tags]
        run(cmd + ["./cmd/versitygw"], cwd=REPO, timeout=900)
        return out
