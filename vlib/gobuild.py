"""Build the Go harness and the gateway binary from /repo's current working tree."""
import glob, os, shutil
from .common import BUILD, HARNESS, REPO, Lock, run, write_if_changed, log, BuildError

HW = os.path.join(BUILD, "harness")


def _sync_harness():
    os.makedirs(HW, exist_ok=True)
    tmpl = open(os.path.join(HARNESS, "go.mod.tmpl")).read()
    if "replace github.com/versity/versitygw" not in tmpl:
        tmpl += "\nreplace github.com/versity/versitygw => %s\n" % REPO
    write_if_changed(os.path.join(HW, "go.mod"), tmpl)
    shutil.copyfile(os.path.join(REPO, "go.sum"), os.path.join(HW, "go.sum"))
    want = set()
    for src in glob.glob(os.path.join(HARNESS, "cmd", "*", "*.go")):
        rel = os.path.relpath(src, HARNESS)
        want.add(rel)
        write_if_changed(os.path.join(HW, rel), open(src).read())
    for old in glob.glob(os.path.join(HW, "cmd", "*", "*.go")):
        if os.path.relpath(old, HW) not in want:
            os.remove(old)


def build_tool(name):
    """go build harness/cmd/<name> against /repo (replace directive) -> build/bin/<name>."""
    with Lock("go-" + name):
        _sync_harness()
        out = os.path.join(BUILD, "bin", name)
        os.makedirs(os.path.dirname(out), exist_ok=True)
        run(["go", "build", "-tags", "verif", "-o", out, "./cmd/" + name], cwd=HW, timeout=900)
        return out


def build_gateway(tags="verif"):
    """go build the real gateway from the working tree of /repo -> build/bin/versitygw[-tags]."""
    with Lock("go-gateway-" + (tags or "plain")):
        out = os.path.join(BUILD, "bin", "versitygw-" + (tags or "plain"))
        os.makedirs(os.path.dirname(out), exist_ok=True)
        cmd = ["go", "build", "-o", out]
        if tags:
            cmd += ["-tags", tags]
        run(cmd + ["./cmd/versitygw"], cwd=REPO, timeout=900)
        return out
