"""Helpers for end-to-end histories against the real gateway: canonical observations, directory snapshots."""
import hashlib, os, stat


def _xattrs(path):
    out = {}
    try:
        for name in os.listxattr(path, follow_symlinks=False):
            if name.startswith("user."):
                try:
                    out[name] = os.getxattr(path, name, follow_symlinks=False).hex()
                except OSError:
                    out[name] = "?"
    except OSError:
        pass
    return out


def snapshot(*roots, ignore_times=True):
    """Byte-exact canonical snapshot of directory trees: {relpath: (kind, size, sha256 of content, sorted user.* xattrs)}."""
    snap = {}
    for root in roots:
        base = os.path.basename(root.rstrip("/"))
        for d, dirs, files in os.walk(root):
            dirs.sort()
            rel = os.path.join(base, os.path.relpath(d, root))
            snap[rel] = ("dir", 0, "", tuple(sorted(_xattrs(d).items())))
            for f in sorted(files):
                p = os.path.join(d, f)
                try:
                    st = os.lstat(p)
                    if stat.S_ISREG(st.st_mode):
                        with open(p, "rb") as fh:
                            dig = hashlib.sha256(fh.read()).hexdigest()
                        snap[os.path.join(rel, f)] = ("file", st.st_size, dig, tuple(sorted(_xattrs(p).items())))
                    else:
                        snap[os.path.join(rel, f)] = ("other", 0, "", ())
                except OSError:
                    snap[os.path.join(rel, f)] = ("gone", 0, "", ())
    return snap


def snap_diff(a, b, limit=8):
    """human-readable differences between two snapshots"""
    out = []
    for k in sorted(set(a) | set(b)):
        if a.get(k) != b.get(k):
            if k not in a: out.append("created " + k)
            elif k not in b: out.append("removed " + k)
            else:
                what = []
                if a[k][:3] != b[k][:3]: what.append("content")
                if a[k][3] != b[k][3]: what.append("attributes")
                out.append("changed %s (%s)" % (k, ",".join(what)))
        if len(out) >= limit:
            break
    return out


def meta_of(headers):
    return {k[11:]: v for k, v in headers.items() if k.startswith("x-amz-meta-")}


CONTENT_HEADERS = ["content-type", "content-encoding", "content-language", "content-disposition", "cache-control", "expires"]


def etag_clean(e):
    return (e or "").strip('"')


def multipart_etag(parts_bytes):
    return "%s-%d" % (hashlib.md5(b"".join(hashlib.md5(p).digest() for p in parts_bytes)).hexdigest(), len(parts_bytes))
