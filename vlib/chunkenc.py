"""Independent aws-chunked encoders (signed, signed+trailer, unsigned+trailer) used by the harness."""
import base64, binascii, hashlib, hmac, struct

DATE8, DATE16, REGION = "20240102", "20240102T030405Z", "us-east-1"
EMPTY_SHA = hashlib.sha256(b"").hexdigest()


def _h(k, m):
    return hmac.new(k, m if isinstance(m, bytes) else m.encode(), hashlib.sha256).digest()


def signing_key(secret, date8=DATE8, region=REGION):
    return _h(_h(_h(_h(("AWS4" + secret).encode(), date8), region), "s3"), "aws4_request")


def sts_prefix(algo, date16=DATE16, date8=DATE8, region=REGION):
    return "%s\n%s\n%s/%s/s3/aws4_request" % (algo, date16, date8, region)


def crc32c(data):
    crc = 0xFFFFFFFF
    for b in data:
        crc ^= b
        for _ in range(8):
            crc = (crc >> 1) ^ 0x82F63B78 if crc & 1 else crc >> 1
    return crc ^ 0xFFFFFFFF


def checksum_b64(kind, data):
    v = binascii.crc32(data) & 0xFFFFFFFF if kind == "crc32" else crc32c(data)
    return base64.b64encode(struct.pack(">I", v)).decode()


def encode_signed(chunks, key, seed, trailer=None, date16=DATE16, date8=DATE8, region=REGION):
    """chunks: list of bytes (non-empty); returns the encoded stream. trailer: None | 'crc32' | 'crc32c'."""
    out = b""
    prev = seed
    pfx = sts_prefix("AWS4-HMAC-SHA256-PAYLOAD", date16, date8, region)
    for c in list(chunks) + [b""]:
        sts = "\n".join([pfx, prev, EMPTY_SHA, hashlib.sha256(c).hexdigest()])
        sig = hmac.new(key, sts.encode(), hashlib.sha256).hexdigest()
        if c:
            out += ("%x;chunk-signature=%s\r\n" % (len(c), sig)).encode() + c + b"\r\n"
        else:
            out += ("0;chunk-signature=%s\r\n" % sig).encode()
        prev = sig
    if trailer:
        name = "x-amz-checksum-" + trailer
        cs = checksum_b64(trailer, b"".join(chunks))
        tsts = "\n".join([sts_prefix("AWS4-HMAC-SHA256-TRAILER", date16, date8, region), prev,
                          hashlib.sha256(("%s:%s\n" % (name, cs)).encode()).hexdigest()])
        tsig = hmac.new(key, tsts.encode(), hashlib.sha256).hexdigest()
        out += ("%s:%s\r\nx-amz-trailer-signature:%s\r\n\r\n" % (name, cs, tsig)).encode()
    else:
        out += b"\r\n"
    return out


def encode_unsigned(chunks, kind="crc32"):
    out = b""
    for c in chunks:
        out += ("%x\r\n" % len(c)).encode() + c + b"\r\n"
    out += b"0\r\n"
    out += ("x-amz-checksum-%s:%s\r\n\r\n" % (kind, checksum_b64(kind, b"".join(chunks)))).encode()
    return out
