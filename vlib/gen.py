"""T1: regenerate coq/Gen/*.v from /repo's current sources with harness/cmd/gentab."""
import os
from . import gobuild
from .common import COQ, REPO, Lock, run


def regenerate():
    tool = gobuild.build_tool("gentab")
    with Lock("coq"):
        run([tool, REPO, os.path.join(COQ, "Gen")], timeout=120, quiet=True)
