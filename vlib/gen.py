"""T1: regenerate coq/Gen/*.v from /repo's current sources with harness/cmd/gentab."""
import os
from . import gobuild
from .common import COQ, REPO, Lock, run


def access_spec_v():
    """spec/access_spec.json (hand-written from the S3 API reference: operation -> action, resource kind, ACL permission)
    rendered as a Coq table"""
    import json
    from .common import VERIF, coq_str, coq_list, coq_bool, write_if_changed
    spec = json.load(open(os.path.join(VERIF, "spec", "access_spec.json")))
    perm = {"READ": "Read", "WRITE": "Write", "READ_ACP": "ReadAcp", "WRITE_ACP": "WriteAcp"}
    rows = ["  {| s_backend := %s; s_actions := %s; s_perm := %s; s_object := %s; s_mutating := %s; s_check := %s |}" % (
        coq_str(e["backend"]), coq_list([coq_str(a) for a in e["actions"]]), coq_str(perm[e["perm"]]), coq_bool(e["object"]),
        coq_bool(e["mutating"]), coq_str(e["check"])) for e in spec]
    text = ("(* GENERATED from spec/access_spec.json (the hand-written access Spec). Do not edit. *)\n"
            "From Coq Require Import String List Bool.\nImport ListNotations.\nOpen Scope string_scope.\n\n"
            "Record aspec := { s_backend : string; s_actions : list string; s_perm : string; s_object : bool; s_mutating : bool; s_check : string }.\n\n"
            "Definition access_spec : list aspec := [\n" + ";\n".join(rows) + "\n].\n")
    write_if_changed(os.path.join(COQ, "Gen", "AccessSpec.v"), text)


def regenerate():
    tool = gobuild.build_tool("gentab")
    with Lock("coq"):
        run([tool, REPO, os.path.join(COQ, "Gen")], timeout=120, quiet=True)
        access_spec_v()
