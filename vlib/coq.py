"""Coq side of a check: grep gate, full .vo build, Print Assumptions audit, case files."""
import os, re, subprocess, time
from .common import COQ, VERIF, BUILD, Lock, run, log, write_if_changed, BuildError

FORBIDDEN = re.compile(r"\b(Admitted|admit|Axiom|Axioms|Parameter|Parameters|Conjecture|Conjectures|Abort All|"
                       r"Unset Guard Checking|Unset Positivity Checking|Unset Universe Checking|bypass_check|"
                       r"Admit Obligations|type-in-type|impredicative-set)\b")


def v_files():
    out = []
    for d, _, fs in os.walk(COQ):
        rel = os.path.relpath(d, COQ)
        if rel.startswith("Cases") or rel.startswith("Extract"):
            continue
        for f in fs:
            if f.endswith(".v"):
                out.append(os.path.normpath(os.path.join(rel, f)))
    return sorted(out)


def strip_comments(text):
    out, depth, i = [], 0, 0
    while i < len(text):
        if text.startswith("(*", i):
            depth += 1; i += 2
        elif text.startswith("*)", i) and depth:
            depth -= 1; i += 2
        else:
            if depth == 0:
                out.append(text[i])
            i += 1
    return "".join(out)


def gate():
    """Reject admitted proofs / declared axioms anywhere in the development (comments and string-free scan)."""
    bad = []
    for f in v_files():
        txt = strip_comments(open(os.path.join(COQ, f), encoding="latin1").read())
        for n, line in enumerate(txt.split("\n"), 1):
            code = re.sub(r'"[^"]*"', '""', line)
            if FORBIDDEN.search(code):
                bad.append("%s:%d: %s" % (f, n, line.strip()[:120]))
            if re.match(r"\s*(Variable|Variables|Hypothesis|Hypotheses|Context)\b", code):
                # only allowed inside a Section: verified structurally below
                pass
        # Variable/Hypothesis outside a section
        depth = 0
        for n, line in enumerate(txt.split("\n"), 1):
            if re.match(r"\s*Section\s+\w+", line): depth += 1
            elif re.match(r"\s*End\s+\w+", line) and depth: depth -= 1
            elif depth == 0 and re.match(r"\s*(Variable|Variables|Hypothesis|Hypotheses)\b", line):
                bad.append("%s:%d: %s outside a section" % (f, n, line.strip()[:80]))
    return bad


def build(jobs=16, timeout=1500, targets=None):
    """Full .vo build (never -vos) of the given targets (default: every .v under coq/ except Cases/).
    Returns (ok, output)."""
    with Lock("coq"):
        files = v_files()
        proj = "-Q . VGW\n-arg -w -arg -notation-overridden,-deprecated,-large-nat\n" + "\n".join(files) + "\n"
        changed = write_if_changed(os.path.join(COQ, "_CoqProject"), proj)
        if changed or not os.path.exists(os.path.join(COQ, "Makefile")):
            run(["coq_makefile", "-f", "_CoqProject", "-o", "Makefile"], cwd=COQ, quiet=True)
        p = run(["timeout", str(timeout), "make", "-j%d" % jobs, "-k"] + list(targets or []), cwd=COQ, check=False,
                timeout=timeout + 30)
        out = (p.stdout + p.stderr).decode("latin1")
        return p.returncode == 0, out


def coqc_file(relpath, timeout=900):
    p = run(["timeout", str(timeout), "coqc", "-Q", ".", "VGW", "-w", "-notation-overridden,-deprecated,-large-nat",
             relpath], cwd=COQ, check=False, timeout=timeout + 30, quiet=True)
    return p.returncode, (p.stdout + p.stderr).decode("latin1")


def run_cases(name, text, timeout=900):
    """Compile coq/Cases/<name>.v (written now) and return (rc, output)."""
    path = os.path.join(COQ, "Cases", name + ".v")
    os.makedirs(os.path.dirname(path), exist_ok=True)
    with open(path, "w") as f:
        f.write(text)
    t0 = time.time()
    rc, out = coqc_file(os.path.join("Cases", name + ".v"), timeout)
    log("cases %s: rc=%d %.1fs" % (name, rc, time.time() - t0))
    return rc, out


def printed_list(out, ident):
    """Parse 'ident = [a; b; c]\n : list …' as printed by 'Print ident.'; returns list of strings, or None."""
    m = re.search(r"(?:^|\n)" + re.escape(ident) + r"\s*=\s*(.*?)\n\s*:\s", out, re.S)
    if not m:
        return None
    body = " ".join(m.group(1).split())
    if not (body.startswith("[") and body.endswith("]")):
        return None
    body = body[1:-1].strip()
    if not body:
        return []
    # split on top-level ';'
    items, depth, cur, instr = [], 0, "", False
    for ch in body:
        if ch == '"':
            instr = not instr
        if not instr:
            if ch in "([":
                depth += 1
            elif ch in ")]":
                depth -= 1
            elif ch == ";" and depth == 0:
                items.append(cur.strip()); cur = ""; continue
        cur += ch
    items.append(cur.strip())
    return [re.sub(r"^(-?\d+)%\w+$", r"\1", it) for it in items]


def check_assumptions(check, module, theorems):
    """O1: every property theorem exists in the compiled module and is closed under the global context."""
    body = "From VGW Require Import %s.\n" % module
    for t in theorems:
        body += 'Goal True. idtac "BEGIN %s". exact I. Qed.\nCheck %s.\nPrint Assumptions %s.\n' % (t, t, t)
    rc, out = run_cases("Assum_" + check.pid, body)
    check.checker_cmds.append("coqc Cases/Assum_%s.v (Print Assumptions of %d theorems)" % (check.pid, len(theorems)))
    if rc != 0:
        for t in theorems:
            check.obligation("theorem " + t, False, out[-3000:])
        return False
    ok_all = True
    parts = re.split(r"BEGIN (\S+)", out)
    seen = {}
    for i in range(1, len(parts) - 1, 2):
        seen[parts[i]] = parts[i + 1]
    for t in theorems:
        txt = seen.get(t, "")
        ok = "Closed under the global context" in txt
        check.obligation("theorem %s (Qed, closed under the global context)" % t, ok, txt)
        ok_all &= ok
    if check.tier == "thorough":
        ok_all &= coqchk(check, module)
    return ok_all


def coqchk(check, module):
    """thorough tier: the compiled property file and everything it depends on, re-checked by the independent checker; -o lists the axioms"""
    with Lock("coq"):
        p = run(["coqchk", "-silent", "-o", "-Q", ".", "VGW", "VGW." + module], cwd=COQ, timeout=3000, check=False, quiet=True)
    out = (p.stdout + p.stderr).decode("latin1")
    ok = p.returncode == 0 and "Axioms: <none>" in " ".join(out.split()) and "type-in-type: <none>" in " ".join(out.split())
    check.checker_cmds.append("coqchk -silent -o -Q . VGW VGW.%s" % module)
    check.obligation("coqchk re-checks %s and its dependencies: no axioms, no type-in-type, no assumed positivity / guardedness" % module, ok, out[-1500:])
    return ok


def ensure_built(check, targets=None):
    """Gate + build of the property's targets (a property is not made to depend on files it does not use);
    records obligations. Returns True when they compiled."""
    bad = gate()
    check.obligation("grep gate: no Admitted/admit/Axiom/Parameter/Conjecture/unchecked flags in coq/", not bad, "\n".join(bad))
    ok, out = build(targets=targets)
    check.checker_cmds.append("make -C coq -j16 (coq_makefile, full .vo build, coqc 8.16.1)")
    check.obligation("coq development compiles (all proofs re-checked against regenerated Gen/)", ok, out[-6000:])
    return ok and not bad


def printed_nested(out, ident):
    """Parse 'ident = [[1; 2]; [3]]' (nested lists of integers, possibly with %Z suffixes and (-n) forms) into Python lists; or None."""
    m = re.search(r"(?:^|\n)" + re.escape(ident) + r"\s*=\s*(.*?)\n\s*:\s", out, re.S)
    if not m:
        return None
    body = " ".join(m.group(1).split())
    body = re.sub(r"%\w+", "", body).replace("(", "").replace(")", "").replace(";", ",")
    if not re.fullmatch(r"[\[\]\d,\s-]*", body):
        return None
    import json as _json
    try:
        return _json.loads(body)
    except Exception:
        return None
