"""Shared plumbing of the /verif checks: paths, environment, subprocesses, locking,
verdict / evidence / known-findings protocol (DESIGN.md §5)."""
import fcntl, hashlib, json, os, random, re, shutil, subprocess, sys, time

VERIF = os.path.dirname(os.path.dirname(os.path.abspath(__file__)))
REPO = os.environ.get("VERIF_REPO", "/repo")
BUILD = os.path.join(VERIF, "build")
COQ = os.path.join(VERIF, "coq")
HARNESS = os.path.join(VERIF, "harness")
SCRATCH_BASE = "/dev/shm" if os.path.isdir("/dev/shm") else "/var/tmp"

GOENV = {
    "GOFLAGS": "-mod=mod", "GOPROXY": "off", "GOSUMDB": "off", "GOTOOLCHAIN": "local",
    "CGO_ENABLED": "0",
}

TRUSTED_BASE = [
    "Coq 8.16.1 kernel (coqc); vm_compute used for witnesses, finite tables and case files; no native_compute",
    "no axioms: every property theorem is printed with Print Assumptions and must be 'Closed under the global context'",
    "harness/cmd/gentab (Go go/ast translator producing coq/Gen/*.v from /repo on every run)",
    "harness/cmd/corr (Go, links /repo, calls the real functions) and the Python end-to-end driver (own SigV4 signer, canonicalisation of observations)",
    "where a check runs an extracted model: Coq extraction to OCaml 4.13.1 with ExtrOcamlBasic only (no Extract Constant), N/Z/string kept as the extracted inductives, plus a line-reader OCaml driver",
    "modelled, not verified: Go standard library functions transcribed in coq/Base, fiber/fasthttp, the vendored AWS signer (oracle), the OS filesystem",
]


def env():
    e = dict(os.environ)
    e.update(GOENV)
    e.pop("AWS_CA_BUNDLE", None)
    return e


def log(*a):
    print("[check]", *a, file=sys.stderr, flush=True)


def run(cmd, cwd=None, timeout=1200, inp=None, check=True, extra_env=None, quiet=False):
    e = env()
    if extra_env:
        e.update(extra_env)
    t0 = time.time()
    p = subprocess.run(cmd, cwd=cwd, env=e, input=inp, stdout=subprocess.PIPE, stderr=subprocess.PIPE,
                       timeout=timeout)
    if not quiet:
        log("ran", " ".join(cmd[:6]), "… rc=%d %.1fs" % (p.returncode, time.time() - t0))
    if check and p.returncode != 0:
        raise BuildError("command failed: %s\n%s\n%s" % (" ".join(cmd), p.stdout.decode("latin1")[-4000:],
                                                          p.stderr.decode("latin1")[-4000:]))
    return p


class BuildError(Exception):
    pass


class StopCheck(Exception):
    """raised by Check.require after recording a failure: the run cannot continue meaningfully"""
    pass


class Lock:
    """Process-level lock so that concurrent checks do not race on shared build output."""
    def __init__(self, name):
        os.makedirs(BUILD, exist_ok=True)
        self.path = os.path.join(BUILD, name + ".lock")
    def __enter__(self):
        self.f = open(self.path, "w")
        fcntl.flock(self.f, fcntl.LOCK_EX)
        return self
    def __exit__(self, *a):
        fcntl.flock(self.f, fcntl.LOCK_UN)
        self.f.close()


def write_if_changed(path, text):
    os.makedirs(os.path.dirname(path), exist_ok=True)
    try:
        if open(path).read() == text:
            return False
    except OSError:
        pass
    with open(path, "w") as f:
        f.write(text)
    return True


def scratch(prefix):
    d = os.path.join(SCRATCH_BASE, "verif-%s-%d-%d" % (prefix, os.getpid(), random.randrange(1 << 30)))
    os.makedirs(d)
    return d


# ---------------------------------------------------------------------------------------
# Coq literal helpers

def coq_str(b):
    """Coq term of type string for a byte string."""
    if isinstance(b, str):
        b = b.encode("utf-8")
    if all(32 <= c < 127 for c in b):
        return '"' + b.decode("ascii").replace('"', '""') + '"'
    return "(bs [" + ";".join(str(c) for c in b) + "]%N)"


def coq_z(n):
    return "(%d)" % n


def coq_bool(b):
    return "true" if b else "false"


def coq_list_def(name, typ, terms, per=1500, sep=None):
    """Definition <name> : list <typ> := ... split into pieces of `per` terms (one huge list literal overflows coqc's parser stack)"""
    if len(terms) <= per:
        body = coq_list(terms)
        if sep: body = body.replace(sep[0], sep[1])
        return "Definition %s : list (%s) :=\n %s.\n" % (name, typ, body)
    out, names = "", []
    for i in range(0, len(terms), per):
        n = "%s_%d" % (name, i // per); names.append(n)
        body = coq_list(terms[i:i + per])
        if sep: body = body.replace(sep[0], sep[1])
        out += "Definition %s : list (%s) :=\n %s.\n" % (n, typ, body)
    return out + "Definition %s : list (%s) := (%s)%%list.\n" % (name, typ, " ++ ".join(names))


def coq_list(items):
    return "[" + "; ".join(items) + "]"


def coq_opt(x):
    return "None" if x is None else "(Some %s)" % x


# ---------------------------------------------------------------------------------------
# Known findings (committed file, never written at run time)

class Finding:
    def __init__(self, pid, key, what):
        self.pid, self.key, self.what = pid, key, what


def load_known_findings(pid):
    out = {}
    path = os.path.join(VERIF, "KNOWN_FINDINGS.txt")
    if not os.path.exists(path):
        return out
    for line in open(path):
        line = line.strip()
        m = re.match(r"finding: property=(\S+) key=(\S+) :: (.*)$", line)
        if m and m.group(1) == pid:
            out[m.group(2)] = Finding(pid, m.group(2), m.group(3))
    return out


# ---------------------------------------------------------------------------------------
# One check run

class Check:
    def __init__(self, pid, tier, seed, level="proof"):
        self.pid, self.tier, self.seed, self.level = pid, tier, seed, level
        self.t0 = time.time()
        self.rnd = random.Random(seed)
        self.obligations = []      # (name, ok, detail)          O1: theorems / table obligations
        self.ties = []             # (name, ok, detail)          O2: correspondence model <-> impl
        self.failures = []         # dict(key, what, replay)     R3: Impl violates Spec on a concrete case
        self.evaluations = 0
        self.nontrivial = set()
        self.dist = {}
        self.samples = []
        self.rule = ""
        self.assumptions = []
        self.extra = {}
        self.traces = 0
        self.checker_cmds = []
        self.known = load_known_findings(pid)
        shutil.rmtree(os.path.join(VERIF, "replay", pid), ignore_errors=True)

    # -- recording
    def obligation(self, name, ok, detail=""):
        self.obligations.append((name, bool(ok), detail))
        if not ok:
            log("OBLIGATION FAILED:", name, detail[:2000])

    def tie(self, name, ok, detail=""):
        self.ties.append((name, bool(ok), detail))
        if not ok:
            log("TIE BROKEN:", name, str(detail)[:2000])

    def fail(self, key, what, replay):
        """Impl violates Spec on a concrete input. key = classifier slug (matched against known findings)."""
        self.failures.append({"key": key, "what": what, "replay": replay})

    def require(self, cond, key, what, replay=None):
        """a precondition of the scenario that the implementation must satisfy (e.g. a plain valid PUT succeeds);
        when it does not, that is itself a failing input: record it and stop the run."""
        if not cond:
            self.fail(key, what, replay or {"what": what})
            raise StopCheck(what)

    def count(self, cls, n=1):
        self.dist[cls] = self.dist.get(cls, 0) + n

    def case(self, canon, nontrivial, sample=None):
        self.evaluations += 1
        if nontrivial:
            self.nontrivial.add(hashlib.sha1(repr(canon).encode()).hexdigest())
        if sample is not None and len(self.samples) < 8:
            self.samples.append(sample)

    # -- verdict
    def finish(self):
        os.makedirs(os.path.join(VERIF, "evidence"), exist_ok=True)
        rdir = os.path.join(VERIF, "replay", self.pid)
        unknown = [f for f in self.failures if f["key"] not in self.known]
        known_hit = {}
        for f in self.failures:
            if f["key"] in self.known:
                known_hit.setdefault(f["key"], f)
        broken_obl = [o for o in self.obligations if not o[1]]
        broken_tie = [t for t in self.ties if not t[1]]
        lines = []
        nviol = 0
        if unknown and os.environ.get("VERIF_KEYS"):
            ks = {}
            for f in unknown: ks.setdefault(f["key"], f["what"])
            for k, w in sorted(ks.items()): print("[check] failure key %s :: %s" % (k, w[:240]))
        if unknown:
            os.makedirs(rdir, exist_ok=True)
            seen = set()
            for f in unknown:
                if f["key"] in seen or nviol >= 12:       # one replay per distinct classifier, at most 12 per run
                    continue
                seen.add(f["key"])
                nviol += 1
                path = os.path.join(rdir, "%s-%d-%d.json" % (f["key"][:40].replace("/", "_"), self.seed, nviol))
                json.dump({"property": self.pid, "kind": "failing-input", "key": f["key"], "what": f["what"],
                           "seed": self.seed, "tier": self.tier, "replay": f["replay"],
                           "broken_obligations": [o[0] for o in broken_obl],
                           "broken_ties": [t[0] for t in broken_tie]}, open(path, "w"), indent=1, default=str)
                lines.append("VIOLATION property=%s replay=%s" % (self.pid, path))
        elif broken_obl or broken_tie:
            os.makedirs(rdir, exist_ok=True)
            nviol = 1
            path = os.path.join(rdir, "unproved-%d.json" % self.seed)
            json.dump({"property": self.pid, "kind": "no-failing-input-found",
                       "broken_obligations": [{"name": o[0], "detail": o[2][-3000:]} for o in broken_obl],
                       "broken_ties": [{"name": t[0], "detail": t[2]} for t in broken_tie],
                       "seed": self.seed, "tier": self.tier}, open(path, "w"), indent=1, default=str)
            lines.append("VIOLATION property=%s replay=%s no-failing-input-found" % (self.pid, path))
        for k, f in sorted(known_hit.items()):
            print("KNOWN-FINDING: property=%s %s [%s]" % (self.pid, self.known[k].what, k))
        for l in lines:
            print(l)
        wall = time.time() - self.t0
        nob = len(self.obligations)
        ndis = len([o for o in self.obligations if o[1]])
        cov = {
            "obligations": nob, "discharged": ndis,
            "checker_cmd": "; ".join(self.checker_cmds) or "make -C coq (coqc 8.16.1, full .vo build)",
            "trusted_base": TRUSTED_BASE,
            "evaluations": self.evaluations,
            "distinct_nontrivial": len(self.nontrivial),
            "rule": self.rule,
            "samples": self.samples or ["(no generated case in this run)"],
            "traces_validated_against_impl": self.traces,
            "input_distribution": self.dist,
            "obligation_names": [o[0] for o in self.obligations],
            "ties": [{"name": t[0], "ok": t[1]} for t in self.ties],
            "known_findings_reproduced": sorted(known_hit),
            "explanation": self.extra.get("explanation", ""),
        }
        cov.update({k: v for k, v in self.extra.items() if k != "explanation"})
        ev = {"property_id": self.pid, "tier": self.tier, "seed": self.seed, "level": self.level,
              "coverage": cov, "assumptions": self.assumptions, "wall_s": round(wall, 2), "violations": nviol}
        json.dump(ev, open(os.path.join(VERIF, "evidence", self.pid + ".json"), "w"), indent=1, default=str)
        log("%s %s: obligations %d/%d, ties %d/%d, evaluations %d (nontrivial %d), failures %d (unknown %d), %.1fs" % (
            self.pid, self.tier, ndis, nob, len(self.ties) - len(broken_tie), len(self.ties), self.evaluations,
            len(self.nontrivial), len(self.failures), len(unknown), wall))
        return 1 if nviol else 0
