#!/bin/sh
# for every kept seeded change: does it still apply to /repo HEAD, and does its property's quick check report a violation with it?
cd /verif
for d in seeded/*/; do
  id=$(basename $d); prop=${id%-*}
  if ! git -C /repo apply --check $PWD/$d/patch.diff 2>/dev/null; then echo "$id STALE (does not apply to HEAD any more)"; continue; fi
  out=$(tools/mutest.sh $PWD/$d/patch.diff $prop quick 2>&1)
  n=$(echo "$out" | grep -c "^VIOLATION")
  if [ "$n" -gt 0 ]; then echo "$id CAUGHT ($n violation lines)"; else echo "$id MISSED"; fi
done
