#!/bin/sh
# run every claimed check (quick tier) on the current tree; evidence files are rewritten; prints a summary
cd /verif
for id in $(python3 -c "import json;print(' '.join(c['property_id'] for c in json.load(open('MANIFEST.json'))['checks']))"); do
  s=$(date +%s)
  out=$(./check $id --tier ${1:-quick} 2>/tmp/runall.$id.err); rc=$?
  e=$(date +%s)
  echo "$id rc=$rc $((e-s))s $(echo "$out" | grep -c VIOLATION) violations, $(echo "$out" | grep -c KNOWN-FINDING) known; $(tail -1 /tmp/runall.$id.err | cut -c9-160)"
done
python3-vt - <<'PY'
import json,jsonschema,glob
sch=json.load(open('/root/.vp/EVIDENCE.schema.json'))
for f in sorted(glob.glob('/verif/evidence/*.json')):
    ev=json.load(open(f))
    try:
        jsonschema.validate(ev,sch)
        c=ev['coverage']
        ok = ev['level']!='proof' or c['obligations']==c['discharged']
        print(f.split('/')[-1], 'valid' if ok else 'OBLIGATIONS!=DISCHARGED', ev['violations'])
    except Exception as e:
        print(f, 'INVALID', str(e)[:100])
PY
