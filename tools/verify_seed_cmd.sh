#!/bin/sh
# tools/verify_seed_cmd.sh <srcid> <k> <dst> <mode>: confirm a seeded change whose demonstration is a program driving the real binary.
#   mode run : <demo>/run.sh <worktree>          (the script builds the gateway itself)
#   mode vgw : VGW=<binary built from the worktree> python3 <demo>/demo<k>.py
#   mode arg : python3 <demo>/demo<k>.py <binary built from the worktree>
#   mode wt  : python3 <demo>/demo<k>.py <worktree>   (the program builds the gateway itself, e.g. with -tags verif)
SRC=/tmp/seedout/$1; K=$2; DST=/verif/seeded/$3; MODE=$4; PATCH=${5:-$SRC/patch$K.diff}; DEMO=${6:-$SRC/demo$K}
export GOFLAGS=-mod=mod GOPROXY=off GOSUMDB=off GOTOOLCHAIN=local; unset AWS_CA_BUNDLE
WT=/tmp/wt/vc-$1-$K
git -C /repo worktree remove --force $WT 2>/dev/null; git -C /repo worktree add -q --detach $WT HEAD || exit 1
run_demo() {
  if [ "$MODE" = run ]; then sh $DEMO/run.sh $WT >/tmp/vc-$1-$K.out 2>&1
  elif [ "$MODE" = wt ]; then python3 $DEMO/demo$K.py $WT >/tmp/vc-$1-$K.out 2>&1
  elif [ "$MODE" = arg ]; then BIN=$(mktemp -d)/vgw; (cd $WT && go build -o $BIN ./cmd/versitygw) && python3 $DEMO/demo$K.py $BIN >/tmp/vc-$1-$K.out 2>&1; rc=$?; rm -rf $(dirname $BIN); return $rc
  else BIN=$(mktemp -d)/vgw; (cd $WT && go build -o $BIN ./cmd/versitygw) && VGW=$BIN python3 $DEMO/demo$K.py >/tmp/vc-$1-$K.out 2>&1; fi; }
run_demo $1 $K; R0=$?
(cd $WT && git apply $PATCH) || { echo "patch does not apply"; git -C /repo worktree remove --force $WT; exit 1; }
(cd $WT && go build ./...) || { echo "does not compile"; git -C /repo worktree remove --force $WT; exit 1; }
B=$(python3 /verif/tools/baseline.py $WT | head -1)
run_demo $1 $K; R1=$?
echo "$1-$K -> $3: demo without patch rc=$R0; with patch rc=$R1; $B"
if [ $R0 -eq 0 ] && [ $R1 -ne 0 ] && echo "$B" | grep -q "199/199"; then
  rm -rf $DST; mkdir -p $DST; cp $PATCH $DST/patch.diff; cp -r $DEMO $DST/demo
  python3 - <<PY
import json, os
mp="$(dirname $PATCH)/meta$K.json"
m=json.load(open(mp)) if os.path.exists(mp) else {}
m["property"]="$3".split("-")[0]
m["verified_by_us"]={"head":"$(git -C /repo rev-parse --short HEAD)","compiles":True,"baseline":"$B","demo_without_patch":"pass","demo_with_patch":"fail","demo_run":"$MODE","demo_from":"$DEMO"}
json.dump(m,open("$DST/meta.json","w"),indent=1)
PY
  echo "kept $DST"
fi
git -C /repo worktree remove --force $WT
