#!/bin/sh
# tools/mutbatch.sh <dir>:<k>:<Cxx> ... : mutation-test delivered round-2 seeds (/tmp/seedout/<dir>/patch<k>.diff) against a check
for x in "$@"; do
  d=$(echo $x | cut -d: -f1); k=$(echo $x | cut -d: -f2); c=$(echo $x | cut -d: -f3)
  out=$(sh /verif/tools/mutest.sh /tmp/seedout/$d/patch$k.diff $c quick 2>&1)
  n=$(echo "$out" | grep -c "^VIOLATION")
  if [ "$n" -gt 0 ]; then echo "$d-$k vs $c: CAUGHT ($n) $(echo "$out" | grep '^VIOLATION' | head -2 | sed 's/.*replay=.*\///' | tr '\n' ' ')"; else echo "$d-$k vs $c: MISSED  $(echo "$out" | grep -E 'apply|uncommitted' | head -1)"; fi
done
