#!/usr/bin/env python3
"""Run the pinned test suite of /repo (guard off) and compare with /root/.vp/BASELINE.json stable_pass."""
import json, os, subprocess, sys
repo = sys.argv[1] if len(sys.argv) > 1 else "/repo"
base = json.load(open("/root/.vp/BASELINE.json"))
want = set(base["stable_pass"])
e = dict(os.environ, GOFLAGS="-mod=mod", GOPROXY="off", GOSUMDB="off", GOTOOLCHAIN="local")
p = subprocess.run(["go", "test", "-mod=mod", "-json", "-vet=off", "-count=1", "-timeout", "25m", "./..."], cwd=repo, env=e,
                   stdout=subprocess.PIPE, stderr=subprocess.DEVNULL)
passed, failed = set(), set()
for line in p.stdout.decode("utf-8", "replace").split("\n"):
    try:
        ev = json.loads(line)
    except ValueError:
        continue
    if ev.get("Test") and ev.get("Action") in ("pass", "fail"):
        (passed if ev["Action"] == "pass" else failed).add(ev["Package"] + "::" + ev["Test"])
missing = sorted(want - passed)
print("baseline: %d/%d stable tests pass; missing %d; failing (any) %d" % (len(want & passed), len(want), len(missing), len(failed)))
for m in missing[:20]:
    print("  MISSING", m)
for f in sorted(failed & want)[:20]:
    print("  FAILED", f)
sys.exit(1 if missing else 0)
