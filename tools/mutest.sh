#!/bin/sh
# tools/mutest.sh <patch.diff> <Cxx> [tier]: apply a seeded change to /repo, run the check, undo the change.
P="$1"; ID="$2"; TIER="${3:-quick}"
cd /repo || exit 2
git diff --quiet || { echo "/repo has uncommitted changes"; exit 2; }
git apply "$P" || { echo "patch does not apply"; exit 2; }
cd /verif && ./check "$ID" --tier "$TIER" 2>/tmp/mutest.err | grep -E "VIOLATION|KNOWN-FINDING"; RC=$?
tail -3 /tmp/mutest.err
git -C /repo checkout -- . ; git -C /repo clean -fdq
exit 0
