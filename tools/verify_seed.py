#!/usr/bin/env python3
"""tools/verify_seed.py <Cxx> <k> [patchfile]: confirm a sub-agent's seeded change in a scratch worktree of /repo HEAD
(compiles, 199-test baseline passes with it, its demonstration fails with it and passes without it) and, if so,
store it as /verif/seeded/<Cxx>-<k>/ (patch.diff, demo/, meta.json)."""
import glob, json, os, re, shutil, subprocess, sys
pid, k = sys.argv[1], sys.argv[2]
src = "/tmp/seedout/%s" % pid
patch = sys.argv[3] if len(sys.argv) > 3 else "%s/patch%s.diff" % (src, k)
demo = "%s/demo%s" % (src, k)
wt = "/tmp/wt/verify-%s-%s" % (pid, k)
env = dict(os.environ, GOFLAGS="-mod=mod", GOPROXY="off", GOSUMDB="off", GOTOOLCHAIN="local")
env.pop("AWS_CA_BUNDLE", None)
def sh(cmd, **kw):
    return subprocess.run(cmd, shell=True, env=env, stdout=subprocess.PIPE, stderr=subprocess.STDOUT, **kw)
sh("git -C /repo worktree remove --force %s" % wt)
assert sh("git -C /repo worktree add -q --detach %s HEAD" % wt).returncode == 0
try:
    tests = glob.glob(demo + "/*_test.go")
    readme = open(glob.glob(demo + "/README*")[0]).read() if glob.glob(demo + "/README*") else ""
    assert tests, "no go test demo found; verify by hand"
    placements = []
    mdir = re.search(r"cp -r\s+\S+\s+\./(\w+)", readme)
    if mdir:
        # the demonstration is a package of its own, copied as a directory
        for t in tests:
            placements.append((t, mdir.group(1)))
        os.makedirs(os.path.join(wt, mdir.group(1)), exist_ok=True)
        tests = []
    for t in tests:
        # (the destination is the last word of the cp line that names the file; a line may copy several files)
        m = re.search(r"^\s*cp\s+[^\n]*%s[^\n]*?\s(\S+)\s*$" % re.escape(os.path.basename(t)), readme, re.M) or \
            re.search(r"cp\s+\S*%s\s+(\S+)" % re.escape(os.path.basename(t)), readme)
        d = m.group(1) if m else None
        if d and d.endswith(".go"): d = os.path.dirname(d)
        if not d:
            pk = re.search(r"^package (\w+)", open(t).read(), re.M).group(1)
            cands = [x for x in ("auth", "backend", "backend/posix", "s3api/utils", "s3api/controllers", "s3api/middlewares", "s3api", "s3event", "backend/meta") if os.path.basename(x) == pk.replace("_test", "")]
            d = cands[0]
        d = d.rstrip("/").replace("/tmp/wt/%s/" % pid, "")
        placements.append((t, d))
    def run_demo():
        for t, d in placements:
            shutil.copy(t, os.path.join(wt, d, os.path.basename(t)))
        pk = " ".join(sorted(set("./" + d + "/" for _, d in placements)))
        r = sh("cd %s && go test -tags verif -mod=mod -vet=off -count=1 %s" % (wt, pk))
        for t, d in placements:
            os.remove(os.path.join(wt, d, os.path.basename(t)))
        if mdir:
            os.makedirs(os.path.join(wt, mdir.group(1)), exist_ok=True)
        return r.returncode, r.stdout.decode()[-1500:]
    rc0, out0 = run_demo()
    assert rc0 == 0, "demo does not pass on the unchanged tree:\n" + out0
    assert sh("cd %s && git apply %s" % (wt, patch)).returncode == 0, "patch does not apply to HEAD"
    assert sh("cd %s && go build ./..." % wt).returncode == 0, "does not compile"
    b = sh("python3 /verif/tools/baseline.py %s" % wt)
    assert b.returncode == 0, "baseline broken: " + b.stdout.decode()
    rc1, out1 = run_demo()
    assert rc1 != 0, "demo does not fail with the patch"
    out = "/verif/seeded/%s" % os.environ.get("SEED_DST", "%s-%s" % (pid, k))
    shutil.rmtree(out, ignore_errors=True)
    os.makedirs(out)
    shutil.copy(patch, out + "/patch.diff")
    shutil.copytree(demo, out + "/demo")
    meta = json.load(open("%s/meta%s.json" % (src, k))) if os.path.exists("%s/meta%s.json" % (src, k)) else {"property": pid}
    meta["verified_by_us"] = {"head": sh("git -C /repo rev-parse --short HEAD").stdout.decode().strip(),
                              "compiles": True, "baseline": b.stdout.decode().strip().split("\n")[0],
                              "demo_without_patch": "pass", "demo_with_patch": "fail", "demo_output_tail": out1[-600:],
                              "demo_placement": [(os.path.basename(t), d) for t, d in placements]}
    json.dump(meta, open(out + "/meta.json", "w"), indent=1)
    print("kept", out)
finally:
    sh("git -C /repo worktree remove --force %s" % wt)
