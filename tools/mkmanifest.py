#!/usr/bin/env python3
"""Regenerate MANIFEST.json from tools/claims.json (single source of truth for claimed checks)."""
import json, os, sys
here = os.path.dirname(os.path.abspath(__file__))
root = os.path.dirname(here)
claims = json.load(open(os.path.join(here, "claims.json")))
props = [json.loads(l)["id"] for l in open(os.path.join(root, "properties.jsonl"))]
checks = []
na = []
for pid in props:
    c = claims["checks"].get(pid)
    if c is None:
        na.append({"property_id": pid, "reason": claims["not_applicable"].get(pid, "check not built yet in this development; no claim is made")})
        continue
    checks.append({
        "property_id": pid,
        "quick_cmd": f"./check {pid} --tier quick",
        "thorough_cmd": f"./check {pid} --tier thorough",
        "evidence_file": f"/verif/evidence/{pid}.json",
        "replay_cmd_template": f"./check {pid} --replay {{path}}",
        "engine": "rocq-model+correspondence",
        "level_claimed": {"category": c.get("category", "proof"), "text": c["text"], "design_ref": c.get("design_ref", f"DESIGN.md §7 {pid}")},
        "level_note": c["note"],
        "technique": c["technique"],
    })
m = {
    "version": 1,
    "setup_cmd": "./setup.sh",
    "hooks": {
        "guard": "verif",
        "enable": "go build -tags verif ./cmd/versitygw",
        "baseline_off_cmd": "cd /repo && go test -mod=mod -json -vet=off -count=1 -timeout 25m ./...",
        "source_commits": claims.get("hook_commits", []),
        "add_only": True,
    },
    "engines": [{
        "name": "rocq-model+correspondence",
        "path": "/verif/check",
        "serves_properties": [c["property_id"] for c in checks],
        "kind_free_text": "Rocq/Coq 8.16.1 theorems over executable Gallina models (coq/), tied to /repo on every run by regenerated tables (harness/cmd/gentab) and by correspondence runs of the model (vm_compute / extracted OCaml) against the real functions and the real gateway binary",
    }],
    "checks": checks,
    "notes": claims.get("notes", ""),
    "not_applicable": na,
}
json.dump(m, open(os.path.join(root, "MANIFEST.json"), "w"), indent=1)
print("MANIFEST.json:", len(checks), "checks,", len(na), "not claimed")
