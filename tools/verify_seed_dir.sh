#!/bin/sh
# tools/verify_seed_dir.sh <srcid> <k> <dst> [destdir-in-worktree]: confirm a seeded change whose demonstration is a Go test package
# of its own (all *_test.go of the demo directory, or of its single sub-directory, copied into <worktree>/<package name> or the given
# directory): passes on the unchanged tree, patch applies and compiles, baseline passes, fails with the patch; then store it.
SRC=/tmp/seedout/$1; K=$2; DST=/verif/seeded/$3; WHERE=$4
export GOFLAGS=-mod=mod GOPROXY=off GOSUMDB=off GOTOOLCHAIN=local; unset AWS_CA_BUNDLE
WT=/tmp/wt/vm-$1-$K
git -C /repo worktree remove --force $WT 2>/dev/null; git -C /repo worktree add -q --detach $WT HEAD || exit 1
D=$SRC/demo$K; ls $D/*_test.go >/dev/null 2>&1 || D=$(dirname $(ls $SRC/demo$K/*/*_test.go | head -1))
T=$(ls $D/*_test.go | head -1); PKG=$(grep -m1 "^package " $T | awk '{print $2}' | sed 's/_test$//')
[ -n "$WHERE" ] || WHERE=$PKG
NEW=0; [ -d $WT/$WHERE ] || NEW=1
# BUILD_VGW=1: the demonstration drives a gateway binary named by $VGW, built from the worktree in its current state
run_demo() { if [ -n "$BUILD_VGW" ]; then VGW=$(mktemp -d)/vgw; export VGW; (cd $WT && go build -o $VGW ./cmd/versitygw) || return 99; fi
             mkdir -p $WT/$WHERE && cp $D/*_test.go $WT/$WHERE/ && (cd $WT && go test -tags verif -mod=mod -vet=off -count=1 ./$WHERE/ >/tmp/vm-$1-$K.out 2>&1); rc=$?
             [ -n "$BUILD_VGW" ] && rm -rf $(dirname $VGW)
             if [ $NEW = 1 ]; then rm -rf $WT/$WHERE; else for f in $D/*_test.go; do rm -f $WT/$WHERE/$(basename $f); done; fi; return $rc; }
run_demo $1 $K; R0=$?
(cd $WT && git apply $SRC/patch$K.diff) || { echo "patch does not apply"; git -C /repo worktree remove --force $WT; exit 1; }
(cd $WT && go build ./...) || { echo "does not compile"; git -C /repo worktree remove --force $WT; exit 1; }
B=$(python3 /verif/tools/baseline.py $WT | head -1)
run_demo $1 $K; R1=$?
echo "$1-$K -> $3: demo without patch rc=$R0; with patch rc=$R1; $B"
if [ $R0 -eq 0 ] && [ $R1 -ne 0 ] && echo "$B" | grep -q "199/199"; then
  rm -rf $DST; mkdir -p $DST; cp $SRC/patch$K.diff $DST/patch.diff; cp -r $SRC/demo$K $DST/demo
  python3 - <<PY
import json
m=json.load(open("$SRC/meta$K.json")); m["property"]="$3".split("-")[0]
m["verified_by_us"]={"head":"$(git -C /repo rev-parse --short HEAD)","compiles":True,"baseline":"$B","demo_without_patch":"pass","demo_with_patch":"fail","demo_placement":"$WHERE"}
json.dump(m,open("$DST/meta.json","w"),indent=1)
PY
  echo "kept $DST"
fi
git -C /repo worktree remove --force $WT
