(* C06 — An upload commits only if every integrity assertion holds.
   Only statements; proofs are in Proofs/PipelineProof.v (and Proofs/ChunkAccept.v for the chunk readers). *)
From Coq Require Import NArith ZArith List Bool String.
From VGW Require Import Base.Bytes Crypto.Crc Model.SignedChunk Model.UnsignedChunk Model.Pipeline
  Proofs.ChunkAccept Proofs.PipelineProof.
Import ListNotations.

Section C06.
  (* digest functions and chunk readers are parameters: the statements hold for every instantiation *)
  Variables (sha256hex : bytes -> bytes) (md5b64 : bytes -> bytes) (cksum : calgo -> bytes -> bytes).
  Variable run_signed : option trailer_kind -> list (bytes * bool) -> bytes * rerr.
  Variable run_unsigned : trailer_kind -> bytes -> bytes * uerr.

  (* an upload commits EXACTLY when: the stream decodes, the number of decoded bytes is the declared length, and every
     declared value (payload SHA-256, Content-MD5, checksum header) equals the value computed over the bytes received;
     then the stored object is exactly the decoded bytes (never padded, truncated or extended) *)
  Theorem C06_commit_exact : forall u d,
    upload_outcome sha256hex md5b64 cksum run_signed run_unsigned u = Committed d <->
    all_verified sha256hex md5b64 cksum run_signed run_unsigned u d.
  Proof.
    intros u d. split; [apply commit_sound|apply commit_complete].
  Qed.

  (* a request that fails leaves the key exactly in its previous state (absent or old content) *)
  Theorem C06_failure_preserves : forall u e before,
    upload_outcome sha256hex md5b64 cksum run_signed run_unsigned u = Failed e ->
    key_after sha256hex md5b64 cksum run_signed run_unsigned before u = before.
  Proof. exact (failure_preserves sha256hex md5b64 cksum run_signed run_unsigned). Qed.
End C06.

(* with the signed chunk reader model plugged in: a committed signed upload passed the final chunk with the whole
   signature chain (and, with a trailer, the trailing checksum and trailer signature) verified *)
Theorem C06_signed_commit_chain : forall sha256 hmac256 hex key stsPayload stsTrailer seed sha256hex md5b64 cksum run_unsigned u d,
  upload_outcome sha256hex md5b64 cksum (run_signed_inst sha256 hmac256 hex key stsPayload stsTrailer seed) run_unsigned u = Committed d ->
  (u_mode u = Signed -> exists s', final_accepted sha256 hmac256 hex key stsPayload stsTrailer None s') /\
  (forall k, u_mode u = SignedTrailer k -> exists s', final_accepted sha256 hmac256 hex key stsPayload stsTrailer (Some k) s').
Proof. exact signed_commit_chain. Qed.

Print Assumptions C06_commit_exact.
Print Assumptions C06_failure_preserves.
Print Assumptions C06_signed_commit_chain.
