(* C05 — Per-key reads and writes are atomic and linearizable.
   Only statements; proofs are in Proofs/PublishProof.v.  Model/Publish.v is the step-level model of the repaired code;
   props/c05.py drives the real gateway through the same steps (verifhook yield points) and compares. *)
From Coq Require Import List Arith Bool.
From VGW Require Import Model.Publish Proofs.PublishProof Gen.LinkCalls Check.LinkOnceCheck.
Import ListNotations.

(* For every set of concurrent requests on one key and EVERY interleaving of their filesystem steps: *)

(* linearizability: each completed read returns the value the key's register had at the moment of the read's own open
   step, where the register is the replay of the log of renames and unlinks (each a step of the request it belongs to, in
   the order they happened); so the order of these steps explains every outcome and respects real time *)
Theorem C05_linearizable : forall sched st k r, Inv (fst st) -> nth_error (snd st) k = Some TR0 ->
  nth_error (snd (run st sched)) k = Some (TRdone r) ->
  exists p q, sched = p ++ k :: q /\ nth_error (snd (run st p)) k = Some TR0 /\ r = res_of (reg_of_log (log (fst (run st p)))).
Proof. exact read_is_linearized. Qed.
Print Assumptions C05_linearizable.
Theorem C05_log_events_are_requests : forall sched st e, In e (log (fst (run st sched))) ->
  In e (log (fst st)) \/ (exists b, e = Some b /\ In b (writes_of (snd st))) \/ (e = None /\ has_deleter (snd st) = true).
Proof. exact log_events_are_requests. Qed.
Print Assumptions C05_log_events_are_requests.

(* every successful read returns the complete state (body, length, ETag, metadata: one number in the model) of exactly one
   write: the initial one or one of the concurrent writers; never a mixture, since what a descriptor designates is immutable *)
Theorem C05_reads_return_one_write : forall sched ts k b f0, Inv f0 -> nth_error ts k = Some TR0 ->
  nth_error (snd (run (f0, ts) sched)) k = Some (TRdone (Got b)) -> In (Some b) (log f0) \/ In b (writes_of ts).
Proof. exact reads_return_one_write. Qed.
Print Assumptions C05_reads_return_one_write.

(* a key that exists and is only being overwritten (no concurrent delete) never appears missing *)
Theorem C05_overwritten_key_never_missing : forall sched ts k r b0, has_deleter ts = false -> nth_error ts k = Some TR0 ->
  nth_error (snd (run (fs_with b0, ts) sched)) k = Some (TRdone r) -> exists b, r = Got b.
Proof. exact overwritten_key_never_missing. Qed.
Print Assumptions C05_overwritten_key_never_missing.

(* a read that starts after a write was acknowledged never returns older data: the acknowledgement follows the rename, so
   the rename is in the log when the read opens, and the read returns the newest event of the log at that moment *)
Theorem C05_read_after_ack_is_fresh : forall sched st k r, Inv (fst st) -> nth_error (snd st) k = Some TR0 ->
  nth_error (snd (run st sched)) k = Some (TRdone r) ->
  exists p q, sched = p ++ k :: q /\ forall e l, log (fst (run st p)) = e :: l -> r = res_of e.
Proof.
  intros sched st k r I H D. destruct (read_is_linearized sched st k r I H D) as [p [q [E [_ Hr]]]].
  exists p, q. split; [exact E|]. intros e l L. rewrite L in Hr. exact Hr.
Qed.
Print Assumptions C05_read_after_ack_is_fresh.

(* non-vacuity: two writers, a deleter and two readers over an existing key, one interleaving *)
Example C05_example :
  snd (run (fs_with 7, [TW 1 false; TR0; TW 2 false; TD false; TR0]) [1; 0; 2; 1; 4; 3; 4]) =
  [TW 1 true; TRdone (Got 7); TW 2 true; TD true; TRdone (Got 2)].
Proof. vm_compute. reflexivity. Qed.

(* what the theorems exclude — the protocols before the repairs (publication by unlink-then-link; reader by stat,
   getxattr-by-path, open-by-path): a key that is only being overwritten reads as missing, and a read combines the ETag of
   one write with the body of another *)
Definition ofs1 : ofs := {| onext := 1; otbl := [(0, (7, Some 7))]; oentry := Some 0 |}.
Example C05_old_protocol_missing : nth_error (snd (orun (ofs1, [OW 1 0 0; OR 0 None None]) [0; 0; 1])) 1 = Some (OR 3 None (Some ONotFound)).
Proof. vm_compute. reflexivity. Qed.
Example C05_old_protocol_mixture : nth_error (snd (orun (ofs1, [OW 1 0 0; OR 0 None None]) [1; 1; 0; 0; 0; 1])) 1 = Some (OR 3 (Some 7) (Some (OGot (Some 7) 1))).
Proof. vm_compute. reflexivity. Qed.

(* the source fact behind "one publishing step per write" (table regenerated from backend/posix/posix.go on every run): every
   function that publishes a temporary file calls link() exactly once *)
Theorem C05_publishes_once : link_once posix_link_calls = true.
Proof. vm_compute. reflexivity. Qed.
Print Assumptions C05_publishes_once.
