(* C11 — A gateway crash never leaves a half-written or vanished object.
   Only statements; proofs are in Proofs/CrashProof.v.  Model/Crash.v is what is durable of a key between the filesystem
   steps of the repaired code; props/c11.py kills the real gateway at every verifhook site and compares. *)
From Coq Require Import List Arith Bool.
From VGW Require Import Model.Crash Proofs.CrashProof Model.CrashVersions Proofs.CrashVersionsProof Model.CrashDirObj Proofs.CrashDirObjProof Model.CrashPromote Proofs.CrashPromoteProof.
Import ListNotations.

(* a request killed after any number k of its steps leaves the key in its complete previous state or in the complete new
   state (data and attributes are one inode, published by one rename) *)
Theorem C11_crash_leaves_old_or_new : forall s r k, bucket_exists s = true ->
  visible (exec_killed s r k) = visible s \/ visible (exec_killed s r k) = spec (visible s) r.
Proof. exact crash_leaves_old_or_new. Qed.
Print Assumptions C11_crash_leaves_old_or_new.

(* any history of completed requests followed by a killed one: the key shows the result of the completed requests, with or
   without the killed one; every operation acknowledged before the crash is still in effect *)
Theorem C11_acknowledged_writes_survive : forall rs r k s, bucket_exists s = true ->
  let s1 := exec_killed (fold_left exec rs s) r k in
  visible s1 = spec_all (visible s) rs \/ visible s1 = spec_all (visible s) (rs ++ [r]).
Proof. exact acknowledged_writes_survive. Qed.
Print Assumptions C11_acknowledged_writes_survive.

(* leftover temporary data is not visible (visible reads the entry only) and never prevents later operations: from any
   state a kill produces, the next request has its effect, and the emptied bucket can be removed, leftovers included *)
Theorem C11_recovery_is_possible : forall s r k r2, bucket_exists s = true ->
  let s1 := exec_killed s r k in
  visible (exec s1 r2) = spec (visible s1) r2 /\
  bucket_exists (do_step (exec s1 Delete) S_rm_bucket) = false /\ leftovers (do_step (exec s1 Delete) S_rm_bucket) = [].
Proof. exact recovery_is_possible. Qed.
Print Assumptions C11_recovery_is_possible.

(* versioning-enabled bucket: DeleteObject turns the current object into the delete marker in place (archive the current version,
   write the marker's own version id, write the marker flag). Killed after any number of these steps, the version the marker
   hides is still shown with its data under its id, and the key reads as before the delete or as deleted *)
Theorem C11_versioned_delete_keeps_version : forall s fresh k,
  c_marker (current s) = false -> fresh <> c_vid (current s) ->
  let s' := run_killed (delete_steps fresh) s k in
  In (c_vid (current s), c_data (current s)) (shown s') /\
  (reads s' = Some (c_data (current s)) \/ reads s' = None).
Proof. exact delete_keeps_version. Qed.
Print Assumptions C11_versioned_delete_keeps_version.

(* and every other version shown before is shown afterwards *)
Theorem C11_versioned_delete_frame : forall s fresh k e,
  c_marker (current s) = false -> fresh <> c_vid (current s) -> fst e <> fresh ->
  In e (shown s) -> In e (shown (run_killed (delete_steps fresh) s k)).
Proof. exact delete_keeps_other_versions. Qed.
Print Assumptions C11_versioned_delete_frame.

(* while the current file was re-labelled in place the order of the two attribute writes mattered: with the marker flag first (the
   code before repair 80e96b2, and until 3001e11 still the order under suspended versioning, where the id attribute was removed
   last) a kill between them makes an acknowledged version vanish *)
Theorem C11_marker_first_order_refuted :
  let s := {| current := {| c_data := 7; c_vid := 1; c_marker := false |}; archive := [] |} in
  ~ In (1, 7) (shown (run_killed (delete_steps_old 2) s 2)) /\ reads (run_killed (delete_steps_old 2) s 2) = None.
Proof. exact old_order_loses_version. Qed.
Print Assumptions C11_marker_first_order_refuted.

(* since repair 3001e11 (the marker is a new file renamed over the current version) there is no state in between: the previous
   state exactly, or the new state exactly *)
Theorem C11_versioned_delete_atomic : forall s fresh k,
  c_marker (current s) = false -> fresh <> c_vid (current s) ->
  let s' := run_killed (delete_steps fresh) s k in
  (shown s' = shown s /\ reads s' = reads s) \/
  (shown s' = (c_vid (current s), c_data (current s)) :: filter (fun e => negb (Nat.eqb (fst e) fresh)) (archive s) /\ reads s' = None).
Proof. exact delete_atomic. Qed.
Print Assumptions C11_versioned_delete_atomic.

(* directory objects (keys ending in "/") are written onto the directory itself, attribute by attribute. A first upload is all or
   nothing: the ETag attribute, written after the user metadata, is what makes the directory an object *)
Theorem C11_directory_object_first_upload_atomic : forall new n,
  let s0 := {| is_object := false; umeta := [] |} in
  shows (killed_after s0 new n) = None \/ killed_after s0 new n = fold_left do_dwrite (upload_writes s0 new) s0.
Proof. exact first_upload_atomic. Qed.
Print Assumptions C11_directory_object_first_upload_atomic.

(* an upload over an existing directory object is not (known finding c11:state:dirobj-overwrite): the witness is a kill point after
   which the key is listed with neither the old nor the new user metadata *)
Theorem C11_directory_object_overwrite_refuted :
  let s0 := {| is_object := true; umeta := [(1, 10); (2, 20)] |} in
  let new := [(1, 11); (3, 30)] in
  exists n, match shows (killed_after s0 new n) with
            | Some m => same_meta m (umeta s0) = false /\ same_meta m new = false
            | None => False
            end.
Proof. exact overwrite_not_atomic. Qed.
Print Assumptions C11_directory_object_overwrite_refuted.

(* DeleteObject ?versionId=<the current version> in a versioned bucket (Model/CrashPromote.v): wherever it is killed, the key shows
   either exactly what it showed before or exactly its other versions with the newest of them current; run to its end it shows
   the latter *)
Theorem C11_delete_current_version_atomic : forall s c k,
  pcurrent s = Some c -> p_attrs c = true -> NoDup (map fst (parchive s)) ->
  let s' := prun_killed (promote_steps s) s k in
  (pshown s' = pshown s /\ preads s' = preads s) \/
  (pshown s' = remaining s c /\ preads s' = reads_after s c).
Proof. exact promote_atomic. Qed.
Print Assumptions C11_delete_current_version_atomic.

Theorem C11_delete_current_version_completes : forall s c,
  pcurrent s = Some c -> p_attrs c = true -> NoDup (map fst (parchive s)) ->
  let s' := prun_killed (promote_steps s) s (length (promote_steps s)) in
  pshown s' = remaining s c /\ preads s' = reads_after s c.
Proof. exact promote_completes. Qed.
Print Assumptions C11_delete_current_version_completes.

(* the order of the code before the repair (KNOWN_FINDINGS "fixed" C11 cccb06e): the current file removed first, the promoted
   version's attributes written last *)
Theorem C11_remove_first_order_refuted :
  let s := {| pcurrent := Some {| p_data := 8; p_vid := 2; p_attrs := true |}; parchive := [(1, 7)] |} in
  pshown s = [(2, 8); (1, 7)] /\
  pshown (prun_killed (promote_steps_old s) s 1) = [] /\ preads (prun_killed (promote_steps_old s) s 1) = None /\
  pshown (prun_killed (promote_steps_old s) s 3) = [(0, 7); (1, 7)].
Proof. exact old_order_not_atomic. Qed.
Print Assumptions C11_remove_first_order_refuted.

Example C11_example :
  let s := {| dentry := Some 1; leftovers := []; bucket_exists := true |} in
  map (fun k => (visible (exec_killed s (Write OTmpFile 2) k), leftovers (exec_killed s (Write OTmpFile 2) k))) [0; 1; 2; 3] =
  [(Some 1, []); (Some 1, []); (Some 1, [2]); (Some 2, [])].
Proof. vm_compute. reflexivity. Qed.
