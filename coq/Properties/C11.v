(* C11 — A gateway crash never leaves a half-written or vanished object.
   Only statements; proofs are in Proofs/CrashProof.v.  Model/Crash.v is what is durable of a key between the filesystem
   steps of the repaired code; props/c11.py kills the real gateway at every verifhook site and compares. *)
From Coq Require Import List Arith Bool.
From VGW Require Import Model.Crash Proofs.CrashProof.
Import ListNotations.

(* a request killed after any number k of its steps leaves the key in its complete previous state or in the complete new
   state (data and attributes are one inode, published by one rename) *)
Theorem C11_crash_leaves_old_or_new : forall s r k, bucket_exists s = true ->
  visible (exec_killed s r k) = visible s \/ visible (exec_killed s r k) = spec (visible s) r.
Proof. exact crash_leaves_old_or_new. Qed.
Print Assumptions C11_crash_leaves_old_or_new.

(* any history of completed requests followed by a killed one: the key shows the result of the completed requests, with or
   without the killed one; every operation acknowledged before the crash is still in effect *)
Theorem C11_acknowledged_writes_survive : forall rs r k s, bucket_exists s = true ->
  let s1 := exec_killed (fold_left exec rs s) r k in
  visible s1 = spec_all (visible s) rs \/ visible s1 = spec_all (visible s) (rs ++ [r]).
Proof. exact acknowledged_writes_survive. Qed.
Print Assumptions C11_acknowledged_writes_survive.

(* leftover temporary data is not visible (visible reads the entry only) and never prevents later operations: from any
   state a kill produces, the next request has its effect, and the emptied bucket can be removed, leftovers included *)
Theorem C11_recovery_is_possible : forall s r k r2, bucket_exists s = true ->
  let s1 := exec_killed s r k in
  visible (exec s1 r2) = spec (visible s1) r2 /\
  bucket_exists (do_step (exec s1 Delete) S_rm_bucket) = false /\ leftovers (do_step (exec s1 Delete) S_rm_bucket) = [].
Proof. exact recovery_is_possible. Qed.
Print Assumptions C11_recovery_is_possible.

Example C11_example :
  let s := {| dentry := Some 1; leftovers := []; bucket_exists := true |} in
  map (fun k => (visible (exec_killed s (Write OTmpFile 2) k), leftovers (exec_killed s (Write OTmpFile 2) k))) [0; 1; 2; 3] =
  [(Some 1, []); (Some 1, []); (Some 1, [2]); (Some 2, [])].
Proof. vm_compute. reflexivity. Qed.
