(* C12 — aws-chunked decoding is independent of stream fragmentation.
   Only statements; proofs are in Proofs/ChunkAccept.v.

   Full statements (kept visible; NOT yet proved — they are evaluated on every run by running the extracted
   models and the real readers on valid streams under every single cut, random multi-cuts, one-byte fragments and
   scripted destination-buffer sizes, and on every truncation and byte mutation of small streams):
     C12_signed_frag_indep : forall payload chunking sched, delivers sched (encode_signed chunking) ->
        run (init seed) sched [] = (payload, E_EOF)
     C12_unsigned_frag_indep : forall chunking bufs dflt (all sizes >= 1),
        urun (uinit (encode_unsigned chunking)) bufs dflt [] = (concat chunking, U_EOF)
   Proved below, for every state, fragment sequence and buffer-size sequence (no bound on sizes or steps):
   the rejection half in its structural form — the ONLY way either reader reports a clean end of stream is through
   the final zero-length chunk with every integrity value verified; a source that just ends is io.ErrUnexpectedEOF. *)
From Coq Require Import NArith ZArith List Bool String.
From VGW Require Import Base.Bytes Crypto.Crc Model.SignedChunk Model.UnsignedChunk Proofs.ChunkAccept.
Import ListNotations.

Section C12.
  (* hash functions are parameters: nothing below depends on cryptographic properties *)
  Variables (sha256 : bytes -> bytes) (hmac256 : bytes -> bytes -> bytes) (hex : bytes -> bytes).
  Variables (key stsPayload stsTrailer : bytes) (trailer : option trailer_kind).

  (* signed reader, any delivery schedule: success implies the final chunk header was parsed in full, the signature
     chain verified up to and including the final chunk, and (with a trailer) the declared checksum equals the
     checksum of all payload bytes and the trailer signature verifies *)
  Theorem C12_signed_accept_requires_final_chunk_partial : forall frags s acc out,
    run sha256 hmac256 hex key stsPayload stsTrailer trailer s frags acc = (out, E_EOF) ->
    exists s', final_accepted sha256 hmac256 hex key stsPayload stsTrailer trailer s'.
  Proof. exact (run_eof_inv sha256 hmac256 hex key stsPayload stsTrailer trailer). Qed.

  (* a source that ends (0 bytes, EOF) is never a clean end of stream, whatever the state *)
  Theorem C12_signed_truncation_rejected : forall s, (0 <=? left s)%Z = true ->
    exists s', read sha256 hmac256 hex key stsPayload stsTrailer trailer s [] true = ([], E_UnexpectedEOF, s').
  Proof. exact (read_truncated sha256 hmac256 hex key stsPayload stsTrailer trailer). Qed.
End C12.

(* unsigned reader, any destination-buffer schedule: success implies a zero chunk followed by a trailer that names
   this checksum and whose value is the checksum of all payload bytes read *)
Theorem C12_unsigned_accept_requires_trailer_partial : forall kind fuel s bufs dflt acc out,
  urun kind fuel s bufs dflt acc = (out, U_EOF) ->
  exists s', utrailer_ok kind s' /\
    exists buf r1, read_until 13 (rest s') [] = Some (buf, r1) /\
      read_until 58 (trim buf) [] = Some (trailer_name kind, trailer_sum kind (hashed s')).
Proof.
  intros kind fuel s bufs dflt acc out H. destruct (urun_eof_inv kind fuel s bufs dflt acc out H) as [s' Hs].
  exists s'. split; [exact Hs|]. apply utrailer_ok_checksum. exact Hs.
Qed.

Print Assumptions C12_signed_accept_requires_final_chunk_partial.
Print Assumptions C12_signed_truncation_rejected.
Print Assumptions C12_unsigned_accept_requires_trailer_partial.

(* non-vacuity: a concrete valid unsigned stream of two chunks read through 2-byte buffers decodes to its payload *)
Example C12_unsigned_example :
  urun TCrc32 100 (uinit [51;13;10;97;98;99;13;10;50;13;10;100;101;13;10;48;13;10;120;45;97;109;122;45;99;104;101;99;107;115;117;109;45;99;114;99;51;50;58;104;89;102;89;90;81;61;61;13;10;13;10]%N) [] 2 [] = (bytes_of_string "abcde", U_EOF).
Proof. vm_compute. reflexivity. Qed.
