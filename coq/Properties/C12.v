(* C12 — aws-chunked decoding is independent of stream fragmentation.
   Only statements; proofs are in Proofs/ChunkAccept.v and Proofs/ChunkFrag.v.

   Full statements (kept visible; both are evaluated on every run by running the extracted
   models and the real readers on valid streams under every single cut, random multi-cuts, one-byte fragments and
   scripted destination-buffer sizes, and on every truncation and byte mutation of small streams):
     C12_signed_frag_indep : forall payload chunking sched, delivers sched (encode_signed chunking) ->
        run (init seed) sched [] = (payload, E_EOF)
     C12_unsigned_frag_indep : forall chunking bufs dflt (all sizes >= 1),
        urun (uinit (encode_unsigned chunking)) bufs dflt [] = (concat chunking, U_EOF)
   C12_signed_frag_indep IS proved below (C12_signed_fragmentation_independent, with its one-delivery instance
   C12_signed_decodes_whole_stream): Proofs/ChunkFrag.v shows that the header parser is prefix-monotone, that an incomplete header resumes
   from the stash and left-over data from `left` exactly where a one-piece read would be (read_split, for ALL streams, valid or not), and
   that on a valid stream no pending header outgrows the stash. C12_unsigned_frag_indep is proved as C12_unsigned_any_buffers
   (Proofs/UChunkValid.v: invariant between Reads = the undelivered payload is the stash followed by the chunks still in the stream).
   Proved below, for every state, fragment sequence and buffer-size sequence (no bound on sizes or steps):
   the rejection half in its structural form — the ONLY way either reader reports a clean end of stream is through
   the final zero-length chunk with every integrity value verified; a source that just ends is io.ErrUnexpectedEOF. *)
From Coq Require Import NArith ZArith List Bool String.
From VGW Require Import Base.Bytes Crypto.Crc Model.SignedChunk Model.UnsignedChunk Proofs.ChunkAccept Proofs.ChunkFrag Proofs.UChunkValid.
Import ListNotations.

Section C12.
  (* hash functions are parameters: nothing below depends on cryptographic properties *)
  Variables (sha256 : bytes -> bytes) (hmac256 : bytes -> bytes -> bytes) (hex : bytes -> bytes).
  Variables (key stsPayload stsTrailer : bytes) (trailer : option trailer_kind).

  (* signed reader, any delivery schedule: success implies the final chunk header was parsed in full, the signature
     chain verified up to and including the final chunk, and (with a trailer) the declared checksum equals the
     checksum of all payload bytes and the trailer signature verifies *)
  Theorem C12_signed_accept_requires_final_chunk_partial : forall frags s acc out,
    run sha256 hmac256 hex key stsPayload stsTrailer trailer s frags acc = (out, E_EOF) ->
    exists s', final_accepted sha256 hmac256 hex key stsPayload stsTrailer trailer s'.
  Proof. exact (run_eof_inv sha256 hmac256 hex key stsPayload stsTrailer trailer). Qed.

  (* the positive half, for every payload and every legal chunking (no bound on the number or the sizes of the chunks): a stream
     built by the encoder the reader is the inverse of — chunk headers "<size>;chunk-signature=<sig>", the signature chain seeded
     by the request signature, the final zero-size chunk, and with a trailer the checksum line and the trailer signature — decodes,
     delivered in one piece, to exactly the concatenated chunk data and a clean end of stream. A chunk is (spelling of its size,
     data): every spelling strconv.ParseInt accepts for the length is allowed (leading zeros, upper case), data is non-empty.
     Premises on the parameters: the hex encoding of a digest contains no CR and is not empty; with a trailer, the base64 checksum
     contains no CR and has the length of its algorithm (facts about hex / base64 the proof does not redo). *)
  Theorem C12_signed_decodes_whole_stream :
    (forall x, ~ In 13%N (hex x)) -> (forall x, hex x <> []) ->
    forall a0 total, wf_final a0 ->
    (forall t, trailer = Some t -> ~ In 13%N (trailer_sum t total) /\ valid_checksum t (trailer_sum t total) = true) ->
    forall seed cs eof, Forall wf_chunk cs -> List.concat (map snd cs) = total ->
    run sha256 hmac256 hex key stsPayload stsTrailer trailer (init seed)
        [(enc sha256 hmac256 hex key stsPayload stsTrailer trailer true seed [] cs a0, eof)] [] = (total, E_EOF).
  Proof. exact (decode_whole sha256 hmac256 hex key stsPayload stsTrailer trailer). Qed.

  (* ... and in EVERY fragmentation: however the encoded bytes are split across the reads of the source (any number of fragments of
     any sizes, empty ones included; the source reports EOF after the last one), the reader returns exactly the payload and a clean end
     of stream. Further premises: size spellings, hex digests and the base64 checksum are at most 64 bytes long, so that no chunk header
     outgrows the reader's 1024-byte stash (a header longer than that IS rejected when it straddles two reads: the limit is part of the
     reader). This is C12_signed_frag_indep of the header comment. *)
  Theorem C12_signed_fragmentation_independent :
    (forall x, ~ In 13%N (hex x)) -> (forall x, hex x <> []) -> (forall x, (List.length (hex x) <= 64)%nat) ->
    forall a0 total, wf_final a0 -> (List.length a0 <= 64)%nat ->
    (forall t, trailer = Some t -> ~ In 13%N (trailer_sum t total) /\ valid_checksum t (trailer_sum t total) = true) ->
    (forall t, trailer = Some t -> (List.length (trailer_sum t total) <= 64)%nat) ->
    forall seed cs frags, Forall wf_chunk cs -> Forall short_chunk cs -> List.concat (map snd cs) = total ->
    List.concat frags = enc sha256 hmac256 hex key stsPayload stsTrailer trailer true seed [] cs a0 ->
    run sha256 hmac256 hex key stsPayload stsTrailer trailer (init seed) (map (fun f => (f, false)) frags) [] = (total, E_EOF).
  Proof.
    intros H13 Hne Hlen a0 total Hfin Ha0 Htr Htrlen.
    exact (decode_fragmented sha256 hmac256 hex key stsPayload stsTrailer trailer H13 Hne a0 total Hfin Htr Hlen Ha0 Htrlen).
  Qed.

  (* a source that ends (0 bytes, EOF) is never a clean end of stream, whatever the state *)
  Theorem C12_signed_truncation_rejected : forall s, (0 <=? left s)%Z = true ->
    exists s', read sha256 hmac256 hex key stsPayload stsTrailer trailer s [] true = ([], E_UnexpectedEOF, s').
  Proof. exact (read_truncated sha256 hmac256 hex key stsPayload stsTrailer trailer). Qed.

  (* in whatever state and on whatever bytes: a chunk header that the signed reader accepts for a data chunk (size not zero)
     declares a signature - the value the parse of the next header verifies. A header "N;chunk-signature=" with nothing
     behind the "=" is refused (the reader before repair 30f43f0 accepted it and never verified that chunk) *)
  Theorem C12_signed_data_chunk_declares_signature : forall s p s2 sz sg off,
    parse_header trailer s p = PH_ok s2 sz sg off -> sz <> 0%Z -> sg <> [].
  Proof. exact (parse_header_data_signed trailer). Qed.
End C12.

(* the positive half for the unsigned reader, for every payload and chunking: whatever sizes (each at least one byte) the caller's
   destination buffers have, and however many Reads that takes, the reader returns exactly the payload and a clean end of stream.
   A chunk is (spelling of its size, data) with non-empty data; the spelling is any line ParseInt accepts after TrimSpace. Premises on
   the base64 checksum string (no CR, no colon, no surrounding white space) are facts about base64 the proof does not redo.
   (The model reads from the bytes bufio delivers: how the network fragments them is not the reader's business and is not modelled.) *)
Theorem C12_unsigned_any_buffers : forall kind a0 total,
  (~ In 10%N a0 /\ parse_hex (trim (a0 ++ [13; 10]%N)) = Some 0%Z) ->
  ~ In 13%N (trailer_sum kind total) -> existsb (N.eqb 58) (trailer_sum kind total) = false ->
  trim (trailer_name kind ++ 58%N :: trailer_sum kind total) = trailer_name kind ++ 58%N :: trailer_sum kind total ->
  forall cs bufs dflt fuel, Forall uwf_chunk cs -> List.concat (map snd cs) = total ->
  Forall (fun b => (1 <= b)%nat) bufs -> (1 <= dflt)%nat -> (List.length total < fuel)%nat ->
  urun kind fuel (uinit (uenc kind a0 total cs)) bufs dflt [] = (total, U_EOF).
Proof. exact urun_valid_init. Qed.

(* unsigned reader, any destination-buffer schedule: success implies a zero chunk followed by a trailer that names
   this checksum and whose value is the checksum of all payload bytes read *)
Theorem C12_unsigned_accept_requires_trailer_partial : forall kind fuel s bufs dflt acc out,
  urun kind fuel s bufs dflt acc = (out, U_EOF) ->
  exists s', utrailer_ok kind s' /\
    exists buf r1, read_until 13 (rest s') [] = Some (buf, r1) /\
      read_until 58 (trim buf) [] = Some (trailer_name kind, trailer_sum kind (hashed s')).
Proof.
  intros kind fuel s bufs dflt acc out H. destruct (urun_eof_inv kind fuel s bufs dflt acc out H) as [s' Hs].
  exists s'. split; [exact Hs|]. apply utrailer_ok_checksum. exact Hs.
Qed.

Print Assumptions C12_signed_accept_requires_final_chunk_partial.
Print Assumptions C12_signed_truncation_rejected.
Print Assumptions C12_signed_decodes_whole_stream.
Print Assumptions C12_signed_fragmentation_independent.

(* non-vacuity of C12_signed_decodes_whole_stream: its premises hold for toy hash functions and a two-chunk payload with a CRC-32
   trailer, and the encoded stream is the familiar wire format *)
Example C12_signed_example :
  let hx := fun _ : bytes => bytes_of_string "ab" in
  let cs := [(bytes_of_string "3", bytes_of_string "abc"); (bytes_of_string "02", bytes_of_string "de")] in
  (forall x, ~ In 13%N (hx x)) /\ (forall x, hx x <> []) /\ wf_final (bytes_of_string "0") /\ Forall wf_chunk cs /\
  ~ In 13%N (trailer_sum TCrc32 (bytes_of_string "abcde")) /\ valid_checksum TCrc32 (trailer_sum TCrc32 (bytes_of_string "abcde")) = true /\
  enc (fun x => x) (fun _ m => m) hx [] [] [] (Some TCrc32) true (bytes_of_string "seed") [] cs (bytes_of_string "0") =
    let bs := bytes_of_string in let crlf := [13; 10]%N in
    (bs "3;chunk-signature=ab"%string ++ crlf ++ bs "abc"%string ++ crlf ++ bs "02;chunk-signature=ab"%string ++ crlf ++ bs "de"%string ++ crlf ++ bs "0;chunk-signature=ab"%string ++ crlf ++
     bs "x-amz-checksum-crc32:hYfYZQ=="%string ++ crlf ++ bs "x-amz-trailer-signature:ab"%string ++ crlf ++ crlf)%list.
Proof.
  cbv zeta. split; [|split; [|split; [|split; [|split; [|split]]]]].
  - intros x H. vm_compute in H. intuition discriminate.
  - intros x H. discriminate H.
  - split; [intros H; vm_compute in H; intuition discriminate|vm_compute; reflexivity].
  - constructor; [|constructor; [|constructor]]; (split; [intros H; vm_compute in H; intuition discriminate|split; [vm_compute; reflexivity|discriminate]]).
  - intros H. vm_compute in H. intuition discriminate.
  - vm_compute. reflexivity.
  - vm_compute. reflexivity.
Qed.
Print Assumptions C12_unsigned_accept_requires_trailer_partial.
Print Assumptions C12_unsigned_any_buffers.

(* non-vacuity of C12_signed_data_chunk_declares_signature: a first header "5;chunk-signature=ab" is accepted as a data chunk of
   five bytes carrying the signature "ab"; the same header with nothing behind the "=" is refused *)
Example C12_signed_data_chunk_example :
  let bs := bytes_of_string in let crlf := [13; 10]%N in
  (exists s2 off, parse_header None (init (bs "seed"%string)) (bs "5;chunk-signature=ab"%string ++ crlf ++ bs "hello"%string)%list = PH_ok s2 5 (bs "ab"%string) off) /\
  parse_header None (init (bs "seed"%string)) (bs "5;chunk-signature="%string ++ crlf ++ bs "hello"%string)%list = PH_err E_SigMismatch.
Proof. vm_compute. split; [eexists; eexists; reflexivity|reflexivity]. Qed.

(* non-vacuity: a concrete valid unsigned stream of two chunks read through 2-byte buffers decodes to its payload *)
Example C12_unsigned_example :
  urun TCrc32 100 (uinit [51;13;10;97;98;99;13;10;50;13;10;100;101;13;10;48;13;10;120;45;97;109;122;45;99;104;101;99;107;115;117;109;45;99;114;99;51;50;58;104;89;102;89;90;81;61;61;13;10;13;10]%N) [] 2 [] = (bytes_of_string "abcde", U_EOF).
Proof. vm_compute. reflexivity. Qed.

(* ... and of C12_signed_fragmentation_independent: the length premises hold there too, and a delivery that cuts the first header, the
   data of the second chunk and the trailer evaluates (vm_compute on the model) to the payload *)
Example C12_signed_frag_example :
  let hx := fun _ : bytes => bytes_of_string "ab" in
  let cs := [(bytes_of_string "3", bytes_of_string "abc"); (bytes_of_string "02", bytes_of_string "de")] in
  let str := enc (fun x => x) (fun _ m => m) hx [] [] [] (Some TCrc32) true (bytes_of_string "seed") [] cs (bytes_of_string "0") in
  let frags := [firstn 5 str; firstn 40 (skipn 5 str); []; firstn 60 (skipn 45 str); skipn 105 str] in
  (forall x, (List.length (hx x) <= 64)%nat) /\ Forall short_chunk cs /\ (List.length (trailer_sum TCrc32 (bytes_of_string "abcde")) <= 64)%nat /\
  List.concat frags = str /\
  run (fun x => x) (fun _ m => m) hx [] [] [] (Some TCrc32) (init (bytes_of_string "seed")) (map (fun f => (f, false)) frags) [] = (bytes_of_string "abcde", E_EOF).
Proof.
  cbv zeta. split; [|split; [|split; [|split]]].
  - intros x. vm_compute. repeat constructor.
  - repeat constructor; vm_compute; repeat constructor.
  - vm_compute. repeat constructor.
  - vm_compute. reflexivity.
  - vm_compute. reflexivity.
Qed.


(* non-vacuity of C12_unsigned_any_buffers: the premises hold for the stream of C12_unsigned_example, which is uenc of its two chunks *)
Example C12_unsigned_premises :
  let cs := [(bytes_of_string "3", bytes_of_string "abc"); (bytes_of_string "2", bytes_of_string "de")] in
  let total := bytes_of_string "abcde" in
  Forall uwf_chunk cs /\ (~ In 10%N (bytes_of_string "0") /\ parse_hex (trim (bytes_of_string "0" ++ [13; 10]%N)) = Some 0%Z) /\
  ~ In 13%N (trailer_sum TCrc32 total) /\ existsb (N.eqb 58) (trailer_sum TCrc32 total) = false /\
  trim (trailer_name TCrc32 ++ 58%N :: trailer_sum TCrc32 total) = trailer_name TCrc32 ++ 58%N :: trailer_sum TCrc32 total /\
  uenc TCrc32 (bytes_of_string "0") total cs =
    [51;13;10;97;98;99;13;10;50;13;10;100;101;13;10;48;13;10;120;45;97;109;122;45;99;104;101;99;107;115;117;109;45;99;114;99;51;50;58;104;89;102;89;90;81;61;61;13;10;13;10]%N.
Proof.
  cbv zeta. split; [|split; [|split; [|split; [|split]]]].
  - constructor; [|constructor; [|constructor]]; (split; [intros H; vm_compute in H; intuition discriminate|split; [vm_compute; reflexivity|discriminate]]).
  - split; [intros H; vm_compute in H; intuition discriminate|vm_compute; reflexivity].
  - intros H. vm_compute in H. intuition discriminate.
  - vm_compute. reflexivity.
  - vm_compute. reflexivity.
  - vm_compute. reflexivity.
Qed.
