(* C17 — Account changes take effect immediately and completely.
   Only statements; proofs are in Proofs/IamProof.v. *)
From Coq Require Import List ZArith String Bool Arith.
From VGW Require Import Model.IamCache Spec.IamSpec Proofs.IamProof.
Import ListNotations.
Open Scope string_scope.

(* for every history of create / update / delete / lookup with arbitrary time steps, every cache TTL and every root
   account: every operation through the cache answers exactly as the plain map of accounts does — a new account is
   served at once with all its attributes, a changed secret replaces the old one, a deleted account is unknown *)
Theorem C17_coherent : forall ttl root root_acct ops,
  run ttl root root_acct s0 ops = spec_run root root_acct [] ops.
Proof.
  intros. destruct (s0_ok root root_acct) as [H R]. exact (run_refines ttl root root_acct ops s0 H R).
Qed.
Print Assumptions C17_coherent.

(* every schedule of a lookup and a delete of the same account (any interleaving of their steps, the lookup's fetch-and-
   insert and the delete's store-and-cache change each under the cache mutex): once the delete has returned and the lookup
   is not mid-flight, the account is in neither the store nor the cache — every later lookup answers NoSuchUser *)
Theorem C17_concurrent_lookup : forall ttl k s sched,
  let c := fold_left (sched_step ttl k) sched {| c_st := s; c_l := L_start; c_d := D_start; c_lock := None |} in
  c_d c = D_done -> (forall a, c_l c <> L_fetched a) ->
  find (store (c_st c)) k = None /\ fresh (c_st c) k = None.
Proof. exact delete_is_final. Qed.
Print Assumptions C17_concurrent_lookup.

(* non-vacuity of the schedule theorem: the schedule that used to re-insert the account (fetch, delete, delete, insert)
   now makes the delete wait; completing both threads leaves nothing behind *)
Definition u1 := {| secret := "s1"; role := "user"; uid := 1234; gid := 2345 |}.
Definition c0 := {| c_st := {| store := [("u1", u1)]; cache := []; now := 0 |}; c_l := L_start; c_d := D_start; c_lock := None |}.
Example C17_schedule_example :
  let c := fold_left (sched_step 100 "u1") [StepLookup; StepDelete; StepDelete; StepLookup; StepDelete; StepDelete] c0 in
  c_l c = L_done (Found u1) /\ c_d c = D_done /\ fresh (c_st c) "u1" = None.
Proof. vm_compute. repeat split; reflexivity. Qed.

(* non-vacuity *)
Example C17_example : run 100 "root" u1 s0 [Create "a" u1; Lookup "a"; Update "a" {| p_secret := Some "s2"; p_uid := None; p_gid := None |};
                                            Lookup "a"; Delete "a"; Lookup "a"] =
  [OK; Found u1; OK; Found {| secret := "s2"; role := "user"; uid := 1234; gid := 2345 |}; OK; NoSuchUser].
Proof. reflexivity. Qed.
