(* C02 — No request takes effect without a valid signature.
   Only statements; proofs are in Proofs/AuthProof.v.
   What is proved: the header-authentication middleware chain lets a request through to a handler IF AND ONLY IF it carries
   a valid proof (well-formed authorization, existing account, scope date = X-Amz-Date day, date within +-900 s, configured
   region, signature accepted by the signer oracle with that account's secret, and — for buffered requests — declared
   payload hash = hash of the body). For streaming object PUTs the payload-hash comparison is deferred to the end of the
   body; C06_commit_exact shows nothing commits unless it matches. The signer's canonicalisation is an oracle.
   What is checked on every run rather than proved: that every route of the S3 and admin APIs sits behind this chain
   (every endpoint x 18 credential defects on the real gateway, with byte-exact snapshots of all storage directories). *)
From Coq Require Import String Ascii List ZArith Bool.
From VGW Require Import Base.GoStr Model.Auth Proofs.AuthProof.
Open Scope string_scope.

Theorem C02_gated : forall f, chain f = Pass -> valid_proof f.
Proof. exact chain_pass_valid. Qed.
Print Assumptions C02_gated.

Theorem C02_valid_proof_passes : forall f, valid_proof f -> chain f = Pass.
Proof. exact valid_passes. Qed.
Print Assumptions C02_valid_proof_passes.

Theorem C02_parse_authorization_total : forall s,
  (exists d, parse_authorization s = PA_ok_ d) \/ (exists e, parse_authorization s = PA_err_ e).
Proof. exact parse_total. Qed.
Print Assumptions C02_parse_authorization_total.

Example C02_example_parse :
  parse_authorization "AWS4-HMAC-SHA256 Credential=AKIA/20240102/us-east-1/s3/aws4_request, SignedHeaders=host;x-amz-date, Signature=abc" =
  PA_ok_ {| a_access := "AKIA"; a_region := "us-east-1"; a_signed := "host;x-amz-date"; a_sig := "abc"; a_date := "20240102" |}.
Proof. vm_compute. reflexivity. Qed.
