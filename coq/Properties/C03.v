(* C03 — Access decisions are enforced on every operation.
   Only statements; proofs are in Proofs/AclProof.v (decision) and by evaluation of the regenerated table (routes). *)
From Coq Require Import String List Bool.
From VGW Require Import Base.GoStr Model.Json Model.Policy Spec.PolicySpec Model.Acl Proofs.AclProof
  Gen.RouteTable Gen.AccessSpec Check.RouteCheck.
Import ListNotations.
Open Scope string_scope.

(* the decision: granted exactly when (not a write in read-only mode and) the caller is root or an admin, or a policy is
   set and allows (some Allow statement matches, no Deny matches: C14), or no policy is set and the ACL grants the
   permission. A policy that cannot be read or decoded denies. *)
Theorem C03_decision : forall pol o, verify_access pol o = true <->
  ~ (o_readonly o = true /\ is_write (o_perm o) = true) /\
  (o_is_root o = true \/ o_role o = "admin" \/
   (exists doc l, pol = PolicyDoc doc /\ parse_policy doc = Ok l /\
        allowed l (o_who o) (o_action o) (resource_of (o_bucket o) (o_object o))) \/
   (pol = NoPolicy /\ acl_grants (o_grants o) (o_who o) (o_perm o))).
Proof. exact verify_access_spec. Qed.
Print Assumptions C03_decision.

(* a copy needs the destination decision AND s3:GetObject/READ on the source bucket's own policy or ACL *)
Theorem C03_copy_needs_both : forall dp sp sg cs o, verify_copy_access dp sp sg cs o = true -> o_is_root o = false -> o_role o <> "admin" ->
  verify_access dp o = true /\
  exists sb so g, str_cut cs "/" = (sb, so, true) /\ sg = Some g /\
    verify_access sp {| o_readonly := false; o_is_root := false; o_role := o_role o; o_who := o_who o; o_grants := g;
                        o_perm := PRead; o_bucket := sb; o_object := so; o_action := "s3:GetObject" |} = true.
Proof. exact copy_needs_both. Qed.
Print Assumptions C03_copy_needs_both.

(* every backend call in every controller branch of the CURRENT source (table regenerated on every run) is preceded,
   on every path to it, by the check the access Spec demands for that operation: the right S3 action, the right ACL
   permission, the object key included for object-level operations, and the read-only flag passed for mutations *)
Theorem C03_routes : forall r, In r route_table -> row_ok route_table r = true.
Proof. apply forallb_forall. vm_compute. reflexivity. Qed.
Print Assumptions C03_routes.
