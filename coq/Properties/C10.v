(* C10 — Object Lock protections cannot be circumvented.
   Only statements; proofs are in Proofs/LockProof.v.  Model/Lock.v transcribes auth.CheckObjectAccess and the retention
   overwrite rule and is compared with the real functions on generated states on every run; that every destructive route
   reaches these decisions is an obligation over the route table regenerated from s3api/controllers/base.go and backend/posix/posix.go
   on every run (C10_destructive_routes_checked), and is explored end to end as well (props/c10.py). *)
From Coq Require Import List Bool.
From VGW Require Import Model.Lock Proofs.LockProof Gen.RouteTable Gen.LockCalls Check.LockRouteCheck.
Import ListNotations.

(* the lock check lets a request through only if none of the objects it names is protected against this caller: no legal
   hold, no unexpired COMPLIANCE (own or bucket default), and unexpired GOVERNANCE only with the bypass flag AND the policy grant *)
Theorem C10_allowed_means_unprotected : forall cfg_default objs bypass pg,
  check_object_access (C_enabled cfg_default) objs bypass pg = Allow -> Forall (obj_unprotected cfg_default bypass pg) objs.
Proof. exact allowed_means_unprotected. Qed.
Print Assumptions C10_allowed_means_unprotected.

(* a version under legal hold survives every sequence of requests (destructive ones by any caller with any flags, retention
   and configuration changes) that does not switch the hold off *)
Theorem C10_protected_version_survives : forall ops s, lock_enabled s = true -> present s = true -> hold s = true ->
  Forall (fun o => o <> SetHold false) ops -> present (druns s ops) = true /\ hold (druns s ops) = true.
Proof. exact hold_protects. Qed.
Print Assumptions C10_protected_version_survives.

(* COMPLIANCE: the version survives every sequence of requests and its retention is never removed, shortened or downgraded *)
Theorem C10_compliance_never_weakened : forall ops s, lock_enabled s = true -> present s = true -> ret s = Some (Compliance, true) ->
  present (druns s ops) = true /\ ret (druns s ops) = Some (Compliance, true).
Proof. exact compliance_protects. Qed.
Print Assumptions C10_compliance_never_weakened.

(* GOVERNANCE: the same, for every sequence in which no request carries the bypass flag together with the policy grant *)
Theorem C10_governance_needs_bypass_permission : forall ops s, lock_enabled s = true -> present s = true -> ret s = Some (Governance, true) ->
  Forall no_bypass ops -> present (druns s ops) = true /\ ret (druns s ops) = Some (Governance, true).
Proof. exact governance_protects. Qed.
Print Assumptions C10_governance_needs_bypass_permission.

(* a version uploaded (by any kind of upload) into a bucket with a default retention rule, without lock headers of its own, is held by
   that rule as if the request had asked for it: it survives every later sequence of requests, changes and removals of the
   bucket's rule included (GOVERNANCE: as long as no request carries the bypass flag together with the policy grant) *)
Theorem C10_default_rule_protects : forall ops m, Forall no_bypass ops ->
  present (druns (uploaded None (Some m) false) ops) = true /\ ret (druns (uploaded None (Some m) false) ops) = Some (m, true).
Proof. exact default_rule_protects. Qed.
Print Assumptions C10_default_rule_protects.

Theorem C10_retention_overwrite_rule : (forall b, put_retention_allowed (Some Compliance) b = false) /\ (forall b, put_retention_allowed (Some Governance) b = b).
Proof. split; [exact compliance_retention_rule|exact governance_retention_rule]. Qed.
Print Assumptions C10_retention_overwrite_rule.

(* on the current sources: PutObject, CopyObject, DeleteObject and DeleteObjects are each preceded, on every path of their handler,
   by a call of auth.CheckObjectAccess; CompleteMultipartUpload makes that call itself before it links the object *)
Theorem C10_destructive_routes_checked :
  lock_bad_rows route_table = [] /\ destructive_present route_table = true /\ cmu_checked posix_lock_calls = true.
Proof. vm_compute. repeat split; reflexivity. Qed.
Print Assumptions C10_destructive_routes_checked.

(* non-vacuity: a GOVERNANCE version is removed by a bypassing caller and by nobody else; a held version by nobody *)
Example C10_example :
  let s := {| present := true; hold := false; ret := Some (Governance, true); lock_enabled := true |} in
  present (druns s [Destroy true false; Destroy false true; SetRetention Governance false false; PutLockConfig]) = true /\
  present (druns s [Destroy true true]) = false /\
  present (druns {| present := true; hold := true; ret := None; lock_enabled := true |} [Destroy true true; SetRetention Governance false true; Destroy true true]) = true.
Proof. vm_compute. auto. Qed.
