(* C20 — No request can crash or wedge the gateway.
   What proof can and cannot do here: a panic is a runtime event of the Go program; a theorem can only say that a MODEL never
   reaches its explicit panic outcome, for the functions that are modelled with one. Stated below for the two paging loops
   that index slices from request parameters and for the parsers; the chunk readers' rejection of negative sizes is in C12.
   Everything else in the request path is exercised (grammar-based malformed requests on every endpoint with liveness,
   latency, well-formedness and gateway-log probes), not proved: the level claimed for C20 is "other". *)
From Coq Require Import String List ZArith Bool Arith.
From VGW Require Import Base.GoStr Model.Paging Proofs.PagingProof Model.Range Model.Auth Proofs.AuthProof.
Import ListNotations.
Open Scope string_scope.

(* ListBuckets with any max-buckets string, prefix, continuation token, caller and bucket population: either the request is
   refused (InvalidArgument) or the paging loop ends without indexing an empty slice, with at most 10000 names *)
Theorem C20_list_buckets_total : forall fis prefix token owner is_admin max_str r,
  list_buckets fis prefix token owner is_admin max_str = Some r ->
  exists names tok, r = Ok_ (names, tok) /\ (Z.of_nat (List.length names) <= 10000)%Z.
Proof. exact list_buckets_total. Qed.
Print Assumptions C20_list_buckets_total.

(* ListMultipartUploads page selection for any upload population, markers and max-uploads *)
Theorem C20_list_uploads_total : forall sorted km im found max,
  exists page tr nx, list_uploads sorted km im found max = Ok_ (page, tr, nx) /\ (List.length page <= max)%nat.
Proof. exact list_uploads_total. Qed.
Print Assumptions C20_list_uploads_total.

(* the parsers are total Gallina functions with an explicit result for every byte string *)
Theorem C20_parse_authorization_total : forall s,
  (exists d, parse_authorization s = PA_ok_ d) \/ (exists e, parse_authorization s = PA_err_ e).
Proof. exact parse_total. Qed.
Print Assumptions C20_parse_authorization_total.

(* the former crash witness of ListBuckets: max-buckets=0 is now refused before the loop *)
Example C20_max_buckets_zero : list_buckets [("bk1", Some "root")] "" "" "root" true "0" = None.
Proof. reflexivity. Qed.
(* and the loop itself would still panic if it were ever called with 0 — the guard is what protects it *)
Example C20_loop_needs_guard : lb_loop [("bk1", Some "root")] "" "" "root" true 0 [] = Panic_.
Proof. reflexivity. Qed.
