(* C16 — Bucket lifecycle and settings are faithful; deletion never loses data.
   Only statements; proofs are in Proofs/BucketProof.v.  Model/Bucket.v is tied to the gateway by props/c16.py. *)
From Coq Require Import String Ascii List Arith Bool.
From VGW Require Import Base.GoStr Model.Bucket Proofs.BucketProof.
Import ListNotations.
Open Scope string_scope.

(* the name test accepts exactly the names inside the naming rules: 3-63 characters, lowercase letters / digits / periods /
   hyphens, first and last a letter or digit, no two adjacent periods, not shaped like an IPv4 address *)
Theorem C16_name_rules : forall s, valid_bucket_name s = true <-> name_rules s.
Proof. exact valid_bucket_name_spec. Qed.
Print Assumptions C16_name_rules.
Theorem C16_bad_names_refused : forall s n c, valid_bucket_name n = false -> step s (Create n c) = (s, O_err InvalidBucketName).
Proof. exact create_refuses_bad_names. Qed.
Print Assumptions C16_bad_names_refused.

(* creating a bucket that already exists fails and leaves everything (owner, settings, contents, other buckets) untouched *)
Theorem C16_create_existing_changes_nothing : forall s n c b, bfind s n = Some b ->
  exists e, step s (Create n c) = (s, O_err e) /\ (e = InvalidBucketName \/ e = BucketAlreadyOwnedByYou \/ e = BucketAlreadyExists).
Proof. exact create_existing_changes_nothing. Qed.
Print Assumptions C16_create_existing_changes_nothing.
Theorem C16_create_new : forall s n c, valid_bucket_name n = true -> bfind s n = None ->
  let s' := fst (step s (Create n c)) in
  snd (step s (Create n c)) = O_ok /\ bfind s' n = Some {| b_owner := c; b_settings := []; b_objects := 0 |} /\
  forall n', n' <> n -> bfind s' n' = bfind s n'.
Proof. exact create_new. Qed.
Print Assumptions C16_create_new.

(* a non-admin's ListBuckets shows exactly the buckets it owns (every reachable table holds each name once) *)
Theorem C16_list_shows_exactly_owned : forall s caller n, names_unique s ->
  forall l, snd (step s (ListBuckets caller false)) = O_names l -> (In n l <-> exists b, bfind s n = Some b /\ b_owner b = caller).
Proof. exact list_shows_exactly_owned. Qed.
Print Assumptions C16_list_shows_exactly_owned.
Theorem C16_names_unique_reachable : forall ops, names_unique (fst (run [] ops)).
Proof. intros ops. apply names_unique_run. constructor. Qed.
Print Assumptions C16_names_unique_reachable.

(* a setting reads back exactly as last written after any sequence of operations that does not write or delete that
   setting or delete the bucket; it is gone once deleted, and gone with the bucket even when the name is created again *)
Theorem C16_setting_reads_back_last_written : forall ops s n k d b, bfind s n = Some b ->
  forallb (fun o => negb (touches n k o)) ops = true ->
  let s1 := fst (step s (PutSetting n k d)) in snd (step (fst (run s1 ops)) (GetSetting n k)) = O_doc d.
Proof. exact setting_reads_back_last_written. Qed.
Print Assumptions C16_setting_reads_back_last_written.
Theorem C16_setting_gone_after_delete : forall s n k b, bfind s n = Some b ->
  snd (step (fst (step s (DelSetting n k))) (GetSetting n k)) = O_err NoSuchSetting.
Proof. exact setting_gone_after_delete. Qed.
Print Assumptions C16_setting_gone_after_delete.
Theorem C16_bucket_delete_forgets_settings : forall s n c s1, names_unique s -> step s (Delete n) = (s1, O_ok) -> valid_bucket_name n = true ->
  bfind s1 n = None /\ forall k, snd (step (fst (step s1 (Create n c))) (GetSetting n k)) = O_err NoSuchSetting.
Proof. exact bucket_delete_forgets_settings. Qed.
Print Assumptions C16_bucket_delete_forgets_settings.

(* DeleteBucket succeeds only on a bucket without objects ... *)
Theorem C16_delete_only_when_empty : forall s n s1, step s (Delete n) = (s1, O_ok) -> exists b, bfind s n = Some b /\ b_objects b = 0.
Proof. exact delete_only_when_empty. Qed.
Print Assumptions C16_delete_only_when_empty.

(* ... and under every interleaving of the filesystem steps of any number of DeleteBucket, publication (PutObject,
   CompleteMultipartUpload) and DeleteObject requests, every acknowledged upload that was not deleted is still published,
   and a removed bucket holds nothing: either the delete fails (rmdir on a non-empty directory) or the upload fails *)
Theorem C16_no_acknowledged_upload_lost : forall sched,
  let s' := fold_left fs_step sched fs_init in acked s' = published s' /\ (exists_ s' = false -> published s' = 0).
Proof. intros sched. apply no_acknowledged_upload_lost; [reflexivity|discriminate]. Qed.
Print Assumptions C16_no_acknowledged_upload_lost.

(* non-vacuity, and what the theorem excludes: with a recursive removal in place of rmdir (the code before the repair) the
   schedule check / publish / remove loses an acknowledged upload *)
Example C16_example_names : map valid_bucket_name ["abc"; "my.bucket-1"; "ab"; "Abc"; "a..b"; "-abc"; "abc-"; "192.168.1.1"; "1.2.3"; "a_b"] =
  [true; true; false; false; false; false; false; false; true; false].
Proof. vm_compute. reflexivity. Qed.
Example C16_example_race : acked (fold_left fs_step [P_link; D_check_rmdir; P_unlink; D_check_rmdir; P_link] fs_init) = 0
  /\ deleted_ok (fold_left fs_step [P_link; D_check_rmdir; P_unlink; D_check_rmdir; P_link] fs_init) = 1.
Proof. vm_compute. auto. Qed.
