(* C13 — Range reads return exactly the requested bytes.
   Only statements; proofs are in Proofs/RangeProof.v. *)
From Coq Require Import String ZArith Bool.
From VGW Require Import Base.GoStr Model.Range Spec.RangeSpec Proofs.RangeProof.
Open Scope Z_scope.

(* For every object (file or directory object), every stat size and every byte string sent as Range:
   the response is one of the three forms the property admits (206 exact window with matching
   Content-Range/Content-Length, 416 when the first position is beyond the end, 200 whole object). *)
Theorem C13_range_exact : forall stat_size (is_dir : bool) hdr, 0 <= stat_size ->
  spec_ok (if is_dir then 0 else stat_size) hdr (get_resp stat_size is_dir hdr).
Proof. exact range_exact. Qed.
Print Assumptions C13_range_exact.

(* the body never contains bytes from outside the object and agrees with Content-Length *)
Theorem C13_window_inside : forall stat_size (is_dir : bool) hdr, 0 <= stat_size ->
  let r := get_resp stat_size is_dir hdr in
  let size := if is_dir then 0 else stat_size in
  0 <= boff r /\ 0 <= blen r /\ boff r + blen r <= size /\ clen r = blen r.
Proof. exact window_inside. Qed.
Print Assumptions C13_window_inside.

(* a header denoting a range that starts inside the object is honoured with 206 *)
Theorem C13_denoting_is_206 : forall size hdr a ob, 0 <= size -> denotes hdr a ob -> a < size ->
  status (get_resp_obj size hdr) = 206.
Proof. exact denoting_is_206. Qed.
Print Assumptions C13_denoting_is_206.

(* the executable Spec evaluator applied to the implementation's observations is sound for the Spec *)
Theorem C13_spec_evaluator_sound : forall size hdr r, spec_okb size hdr r = true -> spec_ok size hdr r.
Proof. exact spec_okb_sound. Qed.
Print Assumptions C13_spec_evaluator_sound.

(* non-vacuity: a concrete header on a concrete object exercises the 206 branch with clipping *)
Example C13_example : get_resp 10 false "bytes=4-20" =
  {| status := 206; crange := Some (4, 9, 10); clen := 6; boff := 4; blen := 6 |}.
Proof. reflexivity. Qed.
