(* C07 — Listings are complete, ordered, correctly grouped and paginate without loss.
   Only statements; proofs are in Proofs/Walk*.v.
   Proved for every tree and argument: the page bound. Proved for every tree (any depth, any number of keys,
   files and directory objects): the unpaginated listing is exactly the tree's keys, each once, in directory
   order; for order-compatible trees that is the S3 listing rule (ascending key order).
   Proved as well, for every order-compatible tree, EVERY marker and EVERY page size (no prefix, no delimiter): one page of the real walk
   is exactly the page the S3 rule demands (C07_paginated_refines: the first max keys strictly after the marker, truncated iff keys
   remain, next marker = last key of the page), and following the markers from the empty one visits every key exactly once, in order
   (C07_pagination_complete).
   Not proved (stated here so it stays visible): the refinement with prefix and delimiter as well,
     forall t pre dl mk mx, names_ok t -> order_compatible t ->
       walk t pre dl mk mx skipdirs fl = Some (s3_list (sorted keys t) pre dl mk mx)
   which is checked on every run by evaluation (Check/WalkCheck.v page_spec_ok / pages_spec_ok) on generated
   trees and on the implementation's pages, and is false for trees whose directory order is not key order
   (known finding c07:order-incompatible-tree, witness below). *)
From Coq Require Import String Ascii List Arith Bool.
From VGW Require Import Base.GoStr Model.Walk Spec.ListSpec Proofs.WalkProof Proofs.WalkFlat Proofs.WalkRefine Proofs.WalkPage Proofs.WalkDelim Proofs.WalkFolder Proofs.WalkSubtree Proofs.WalkInvalid.
Import ListNotations.
Open Scope string_scope.

Theorem C07_page_bound : forall t prefix delim marker max skipdirs flag r,
  walk t prefix delim marker max skipdirs flag = Some r ->
  List.length (r_objs r) + List.length (r_cps r) <= max.
Proof. exact page_bound. Qed.
Print Assumptions C07_page_bound.

Theorem C07_unpaginated_complete : forall b kids max, names_ok (D b kids) ->
  List.length (keys_at "." (D b kids)) + 1 < max ->
  walk (D b kids) "" "" "" max [] true =
    Some {| r_objs := keys_at "." (D b kids); r_cps := []; r_trunc := false; r_next := "" |}.
Proof. exact walk_all_flat. Qed.
Print Assumptions C07_unpaginated_complete.

Theorem C07_unpaginated_refines_partial : forall b kids max, names_ok (D b kids) ->
  sorted_b (keys_at "." (D b kids)) = true ->
  List.length (keys_at "." (D b kids)) + 1 < max ->
  walk (D b kids) "" "" "" max [] true = Some (s3_list (sort_strs (keys_at "." (D b kids))) "" "" "" max).
Proof. exact unpaginated_refines. Qed.
Print Assumptions C07_unpaginated_refines_partial.

(* pagination. Order compatibility is asked of all nodes of the tree (files and directories, a directory compared as "path/"),
   which is how the walk compares them with the marker. *)
Theorem C07_paginated_refines : forall b kids marker max, names_ok (D b kids) ->
  sorted_b (map fst (nodes_at "." (D b kids))) = true ->
  walk (D b kids) "" "" marker max [] true = Some (s3_list (sort_strs (keys_at "." (D b kids))) "" "" marker max).
Proof. exact paginated_refines. Qed.
Print Assumptions C07_paginated_refines.

Theorem C07_pagination_complete : forall b kids max fuel, names_ok (D b kids) ->
  sorted_b (map fst (nodes_at "." (D b kids))) = true -> 0 < max -> List.length (keys_at "." (D b kids)) < fuel ->
  wpages (D b kids) "" max fuel = keys_at "." (D b kids).
Proof. exact walk_pages_all. Qed.
Print Assumptions C07_pagination_complete.

(* grouping. With the delimiter "/" (and no prefix) every top-level object is listed as a key and every top-level directory exactly
   once as a common prefix, in order, paged exactly as the S3 rule pages the entries: for every order-compatible tree whose
   top-level names are path segments and whose top-level directories each hold at least one key, every marker and every page size. *)
Theorem C07_delimited_refines : forall b kids marker max,
  names_ok (D b kids) -> (forall n t, In (n, t) kids -> noslash n) -> dirs_keyed kids ->
  sorted_b (map fst (nodes_at "." (D b kids))) = true ->
  walk (D b kids) "" "/" marker max [] true = Some (s3_list (sort_strs (keys_at "." (D b kids))) "" "/" marker max).
Proof. exact delimited_refines. Qed.
Print Assumptions C07_delimited_refines.

(* following the markers of delimited pages visits every entry of the S3 rule (objects and common prefixes) exactly once, in order *)
Theorem C07_delimited_pagination_complete : forall b kids max fuel,
  names_ok (D b kids) -> (forall n t, In (n, t) kids -> noslash n) -> dirs_keyed kids ->
  sorted_b (map fst (nodes_at "." (D b kids))) = true -> 0 < max -> List.length kids < fuel ->
  let E := entries_after (sort_strs (keys_at "." (D b kids))) "" "/" "" in
  dwpages (D b kids) "" max fuel = (objs_of E, cps_of E).
Proof. exact walk_delimited_pages_all. Qed.
Print Assumptions C07_delimited_pagination_complete.

(* listing one folder: with prefix "q/" and delimiter "/", where q names a directory that is not itself an object, the page is the
   S3 rule's page over the keys stored below q — each object directly in the folder a key, each sub-directory one common prefix
   "q/name/" — for every marker and page size. (A directory object with children is the known finding
   c07:nonempty-directory-object-with-delimiter, hence [D false].) *)
Theorem C07_folder_refines : forall t q kids marker max,
  q <> "." -> q <> "" ->
  forallb valid_seg (split_slash q "") = true -> resolve t (split_slash q "") = Some (D false kids) ->
  kids <> [] -> kids_ok kids -> folder_keyed q kids -> sorted_b (map fst (nodes_at q (D false kids))) = true ->
  walk t (q ++ "/") "/" marker max [] true = Some (s3_list (keys_at q (D false kids)) (q ++ "/") "/" marker max).
Proof. exact folder_walk. Qed.
Print Assumptions C07_folder_refines.

(* the same over the bucket's whole key set: in a tree whose names are path segments and whose siblings have distinct names, the keys
   with the prefix "q/" are exactly the keys below the directory q (Proofs/WalkSubtree.v), so the folder page is the page the S3
   rule demands of ALL the bucket's keys *)
Theorem C07_folder_refines_bucket : forall t q kids marker max,
  names_ok t -> segs_ok_tree t -> sorted_b (keys_at "." t) = true ->
  q <> "." -> q <> "" ->
  forallb valid_seg (split_slash q "") = true -> resolve t (split_slash q "") = Some (D false kids) ->
  kids <> [] -> folder_keyed q kids -> sorted_b (map fst (nodes_at q (D false kids))) = true ->
  walk t (q ++ "/") "/" marker max [] true = Some (s3_list (sort_strs (keys_at "." t)) (q ++ "/") "/" marker max).
Proof. exact folder_walk_bucket. Qed.
Print Assumptions C07_folder_refines_bucket.

(* following the markers of a folder listing yields every entry of the folder exactly once, objects and common prefixes *)
Theorem C07_folder_pagination_complete : forall t q kids max fuel,
  q <> "." -> q <> "" ->
  forallb valid_seg (split_slash q "") = true -> resolve t (split_slash q "") = Some (D false kids) ->
  kids <> [] -> kids_ok kids -> folder_keyed q kids -> sorted_b (map fst (nodes_at q (D false kids))) = true ->
  0 < max -> List.length kids < fuel ->
  let E := entries_after (keys_at q (D false kids)) (q ++ "/") "/" "" in
  fwpages t (q ++ "/") "" max fuel = (objs_of E, cps_of E).
Proof. exact folder_pages_all. Qed.
Print Assumptions C07_folder_pagination_complete.

(* internal bookkeeping names never appear: a prefix that leads into (or below) a bookkeeping directory lists nothing, whatever
   the tree, delimiter, marker and page size; at the top level such a directory is skipped by the walk itself (Model.Walk.cb) *)
Theorem C07_bookkeeping_prefix_empty : forall t sd r delim marker max skip flag,
  In sd skip -> r <> "" -> (r = sd \/ has_prefix r (sd ++ "/") = true) ->
  walk t (r ++ "/") delim marker max skip flag = Some empty_result.
Proof. exact bookkeeping_prefix_empty. Qed.
Print Assumptions C07_bookkeeping_prefix_empty.

(* a prefix r/w whose directory part r is no path - an element that is empty, "." or ".." ("a//b", "../x", "a/./b") - is the prefix of
   no key of a tree whose names are path elements, and the walk answers the empty page for it, which is the page of the S3 rule:
   whatever the tree, delimiter, marker and page size (before repair 24e8de4 the gateway answered an internal error there) *)
Theorem C07_invalid_prefix_refines : forall b kids r w delim marker max skip flag,
  strict_names (D b kids) -> r <> "" -> r <> "." -> has_char "/" w = false -> forallb valid_seg (split_slash r "") = false -> max <> 0 ->
  walk (D b kids) (r ++ "/" ++ w) delim marker max skip flag =
  Some (s3_list (sort_strs (keys_at "." (D b kids))) (r ++ "/" ++ w) delim marker max).
Proof. exact invalid_prefix_refines. Qed.
Print Assumptions C07_invalid_prefix_refines.

Theorem C07_invalid_prefix_names_no_key : forall b kids k r w, strict_names (D b kids) -> In k (keys_at "." (D b kids)) ->
  forallb valid_seg (split_slash r "") = false -> has_prefix k (r ++ "/" ++ w) = false.
Proof. exact invalid_root_no_key. Qed.
Print Assumptions C07_invalid_prefix_names_no_key.

Example C07_invalid_prefix_example :
  let t := D false [("a", D false [("b", F true); ("c", D true [])])] in
  strict_names t /\ keys_at "." t = ["a/b"; "a/c/"] /\
  forallb valid_seg (split_slash "a/" "") = false /\ forallb valid_seg (split_slash "a/../a" "") = false /\
  walk t "a//b" "" "" 10 [".sgwtmp"] false = Some empty_result.
Proof. vm_compute. repeat split; reflexivity. Qed.

(* without the last hypothesis the statement is false of the faithful model (known finding c07:keyless-directory-with-delimiter):
   a directory that holds no key is still reported as a common prefix *)
Theorem C07_keyless_directory_refuted :
  let t := D false [("a", F true); ("e", D false [])] in
  walk t "" "/" "" 10 [] true <> Some (s3_list (sort_strs (keys_at "." t)) "" "/" "" 10).
Proof. vm_compute. discriminate. Qed.
Print Assumptions C07_keyless_directory_refuted.

(* the full statement is false of the faithful model on trees whose directory order is not key order:
   keys a/b, a-, ab ("-" sorts before "/"); the first page of size 1 names a/b, the S3 rule names a- *)
Definition witness_tree : tree := D false [("a", D false [("b", F true)]); ("a-", F true); ("ab", F true)].
Theorem C07_order_refuted :
  walk witness_tree "" "" "" 1 [] true <> Some (s3_list (sort_strs (keys_at "." witness_tree)) "" "" "" 1).
Proof. vm_compute. discriminate. Qed.
Print Assumptions C07_order_refuted.

(* and following the markers from there never terminates: page after a/b is a-, page after a- is a/b again *)
Theorem C07_pagination_cycle_refuted :
  (exists r1, walk witness_tree "" "" "" 1 [] true = Some r1 /\ r_next r1 = "a/b") /\
  (exists r2, walk witness_tree "" "" "a/b" 1 [] true = Some r2 /\ r_next r2 = "a-") /\
  (exists r3, walk witness_tree "" "" "a-" 1 [] true = Some r3 /\ r_next r3 = "a/b").
Proof. repeat split; eexists; split; vm_compute; reflexivity. Qed.
Print Assumptions C07_pagination_cycle_refuted.

(* non-vacuity of the hypotheses of the pagination theorems: the example tree below is order compatible node by node, and its
   pages of size 2 are a/, a/b then a/c, b.txt *)
Example C07_example_pages :
  let t := D false [("a", D true [("b", F true); ("c", F true)]); ("b.txt", F true)] in
  sorted_b (map fst (nodes_at "." t)) = true /\
  walk t "" "" "" 2 [] true = Some {| r_objs := ["a/"; "a/b"]; r_cps := []; r_trunc := true; r_next := "a/b" |} /\
  walk t "" "" "a/b" 2 [] true = Some {| r_objs := ["a/c"; "b.txt"]; r_cps := []; r_trunc := false; r_next := "" |}.
Proof. vm_compute. repeat split; reflexivity. Qed.

(* non-vacuity of the hypotheses of the partial theorem *)
Example C07_example_tree_ok :
  let t := D false [("a", D true [("b", F true); ("c", F true)]); ("b.txt", F true)] in
  sorted_b (keys_at "." t) = true /\ keys_at "." t = ["a/"; "a/b"; "a/c"; "b.txt"].
Proof. vm_compute. split; reflexivity. Qed.

(* non-vacuity of the hypotheses of the grouping theorem, and what it yields on this tree: pages of size 2 *)
Example C07_example_delimited :
  let kids := [("a", D true [("b", F true); ("c", F true)]); ("b.txt", F true); ("d", D false [("x", D false [("y", F true)])]); ("e", F true)] in
  let t := D false kids in
  names_ok t /\ (forall n t', In (n, t') kids -> noslash n) /\ dirs_keyed kids /\ sorted_b (map fst (nodes_at "." t)) = true /\
  walk t "" "/" "" 2 [] true = Some {| r_objs := ["b.txt"]; r_cps := ["a/"]; r_trunc := true; r_next := "b.txt" |} /\
  walk t "" "/" "b.txt" 2 [] true = Some {| r_objs := ["e"]; r_cps := ["d/"]; r_trunc := false; r_next := "" |}.
Proof.
  cbv zeta. split; [cbn; repeat split; discriminate|].
  split; [intros n t' H; cbn [In] in H; repeat (destruct H as [H|H]; [inversion H; subst; reflexivity|]); destruct H|].
  split; [intros n t' H Hd; cbn [In] in H; repeat (destruct H as [H|H]; [inversion H; subst; try discriminate Hd; vm_compute; discriminate|]); destruct H|].
  vm_compute. repeat split; reflexivity.
Qed.

(* non-vacuity of the folder theorem: the folder p/d of a three-level tree, pages of size 2 *)
Example C07_example_folder :
  let kids := [("a", F true); ("s", D false [("x", F true); ("y", F true)]); ("z", F true)] in
  let t := D false [("p", D false [("d", D false kids)]); ("r", F true)] in
  resolve t (split_slash "p/d" "") = Some (D false kids) /\ forallb valid_seg (split_slash "p/d" "") = true /\
  kids_ok kids /\ folder_keyed "p/d" kids /\ sorted_b (map fst (nodes_at "p/d" (D false kids))) = true /\
  walk t "p/d/" "/" "" 2 [] true = Some {| r_objs := ["p/d/a"]; r_cps := ["p/d/s/"]; r_trunc := true; r_next := "p/d/s/" |} /\
  walk t "p/d/" "/" "p/d/s/" 2 [] true = Some {| r_objs := ["p/d/z"]; r_cps := []; r_trunc := false; r_next := "" |}.
Proof.
  cbv zeta. split; [reflexivity|]. split; [reflexivity|].
  split; [intros n t' H; cbn [In] in H; repeat (destruct H as [H|H]; [inversion H; subst; repeat split; try discriminate; exact I|]); destruct H|].
  split; [intros n t' H Hd; cbn [In] in H; repeat (destruct H as [H|H]; [inversion H; subst; try discriminate Hd; vm_compute; discriminate|]); destruct H|].
  vm_compute. repeat split; reflexivity.
Qed.

(* non-vacuity: the staging area of an upload in flight, listed through its own prefix *)
Example C07_example_bookkeeping :
  let t := D false [(".sgwtmp", D false [("multipart", D false [("h", D false [("u", D false [("1", F true)])])])]); ("a", F true)] in
  walk t ".sgwtmp/multipart/" "" "" 10 [".sgwtmp"] false = Some empty_result /\
  walk t ".sgwtmp/" "/" "" 10 [".sgwtmp"] false = Some empty_result /\
  walk t "" "" "" 10 [".sgwtmp"] false = Some {| r_objs := ["a"]; r_cps := []; r_trunc := false; r_next := "" |} /\
  walk t ".sgwtmp/multipart/" "" "" 10 [] false = Some {| r_objs := [".sgwtmp/multipart/h/u/1"]; r_cps := []; r_trunc := false; r_next := "" |}.
Proof. vm_compute. repeat split; reflexivity. Qed.

(* non-vacuity of the bucket-level folder theorem on the tree of C07_example_folder *)
Example C07_example_folder_bucket :
  let kids := [("a", F true); ("s", D false [("x", F true); ("y", F true)]); ("z", F true)] in
  let t := D false [("p", D false [("d", D false kids)]); ("r", F true)] in
  names_ok t /\ segs_ok_tree t /\ sorted_b (keys_at "." t) = true /\
  keys_at "." t = ["p/d/a"; "p/d/s/x"; "p/d/s/y"; "p/d/z"; "r"] /\
  s3_list (sort_strs (keys_at "." t)) "p/d/" "/" "" 2 = {| r_objs := ["p/d/a"]; r_cps := ["p/d/s/"]; r_trunc := true; r_next := "p/d/s/" |}.
Proof.
  cbv zeta. split; [cbn; repeat split; discriminate|]. split; [|vm_compute; repeat split; reflexivity].
  cbn. repeat split; try reflexivity; intros m c' H; repeat (destruct H as [H|H]; [inversion H; subst; discriminate|]); destruct H.
Qed.
