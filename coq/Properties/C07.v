(* C07 — Listings are complete, ordered, correctly grouped and paginate without loss.
   Only statements; proofs are in Proofs/Walk*.v.
   Proved for every tree and argument: the page bound. Proved for every tree (any depth, any number of keys,
   files and directory objects): the unpaginated listing is exactly the tree's keys, each once, in directory
   order; for order-compatible trees that is the S3 listing rule (ascending key order).
   Not proved (stated here so it stays visible): the refinement with prefix, delimiter, marker and truncation,
     forall t pre dl mk mx, names_ok t -> order_compatible t ->
       walk t pre dl mk mx skipdirs fl = Some (s3_list (sorted keys t) pre dl mk mx)
   which is checked on every run by evaluation (Check/WalkCheck.v page_spec_ok / pages_spec_ok) on generated
   trees and on the implementation's pages, and is false for trees whose directory order is not key order
   (known finding c07:order-incompatible-tree, witness below). *)
From Coq Require Import String Ascii List Arith Bool.
From VGW Require Import Base.GoStr Model.Walk Spec.ListSpec Proofs.WalkProof Proofs.WalkFlat Proofs.WalkRefine.
Import ListNotations.
Open Scope string_scope.

Theorem C07_page_bound : forall t prefix delim marker max skipdirs flag r,
  walk t prefix delim marker max skipdirs flag = Some r ->
  List.length (r_objs r) + List.length (r_cps r) <= max.
Proof. exact page_bound. Qed.
Print Assumptions C07_page_bound.

Theorem C07_unpaginated_complete : forall b kids max, names_ok (D b kids) ->
  List.length (keys_at "." (D b kids)) + 1 < max ->
  walk (D b kids) "" "" "" max [] true =
    Some {| r_objs := keys_at "." (D b kids); r_cps := []; r_trunc := false; r_next := "" |}.
Proof. exact walk_all_flat. Qed.
Print Assumptions C07_unpaginated_complete.

Theorem C07_unpaginated_refines_partial : forall b kids max, names_ok (D b kids) ->
  sorted_b (keys_at "." (D b kids)) = true ->
  List.length (keys_at "." (D b kids)) + 1 < max ->
  walk (D b kids) "" "" "" max [] true = Some (s3_list (sort_strs (keys_at "." (D b kids))) "" "" "" max).
Proof. exact unpaginated_refines. Qed.
Print Assumptions C07_unpaginated_refines_partial.

(* the full statement is false of the faithful model on trees whose directory order is not key order:
   keys a/b, a-, ab ("-" sorts before "/"); the first page of size 1 names a/b, the S3 rule names a- *)
Definition witness_tree : tree := D false [("a", D false [("b", F true)]); ("a-", F true); ("ab", F true)].
Theorem C07_order_refuted :
  walk witness_tree "" "" "" 1 [] true <> Some (s3_list (sort_strs (keys_at "." witness_tree)) "" "" "" 1).
Proof. vm_compute. discriminate. Qed.
Print Assumptions C07_order_refuted.

(* and following the markers from there never terminates: page after a/b is a-, page after a- is a/b again *)
Theorem C07_pagination_cycle_refuted :
  (exists r1, walk witness_tree "" "" "" 1 [] true = Some r1 /\ r_next r1 = "a/b") /\
  (exists r2, walk witness_tree "" "" "a/b" 1 [] true = Some r2 /\ r_next r2 = "a-") /\
  (exists r3, walk witness_tree "" "" "a-" 1 [] true = Some r3 /\ r_next r3 = "a/b").
Proof. repeat split; eexists; split; vm_compute; reflexivity. Qed.
Print Assumptions C07_pagination_cycle_refuted.

(* non-vacuity of the hypotheses of the partial theorem *)
Example C07_example_tree_ok :
  let t := D false [("a", D true [("b", F true); ("c", F true)]); ("b.txt", F true)] in
  sorted_b (keys_at "." t) = true /\ keys_at "." t = ["a/"; "a/b"; "a/c"; "b.txt"].
Proof. vm_compute. split; reflexivity. Qed.
