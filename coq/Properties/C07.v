(* C07 — Listings are complete, ordered, correctly grouped and paginate without loss.
   Only statements; proofs are in Proofs/Walk*.v.
   Proved for every tree and argument: the page bound. Proved for every tree (any depth, any number of keys,
   files and directory objects): the unpaginated listing is exactly the tree's keys, each once, in directory
   order; for order-compatible trees that is the S3 listing rule (ascending key order).
   Proved as well, for every order-compatible tree, EVERY marker and EVERY page size (no prefix, no delimiter): one page of the real walk
   is exactly the page the S3 rule demands (C07_paginated_refines: the first max keys strictly after the marker, truncated iff keys
   remain, next marker = last key of the page), and following the markers from the empty one visits every key exactly once, in order
   (C07_pagination_complete).
   Not proved (stated here so it stays visible): the refinement with prefix and delimiter as well,
     forall t pre dl mk mx, names_ok t -> order_compatible t ->
       walk t pre dl mk mx skipdirs fl = Some (s3_list (sorted keys t) pre dl mk mx)
   which is checked on every run by evaluation (Check/WalkCheck.v page_spec_ok / pages_spec_ok) on generated
   trees and on the implementation's pages, and is false for trees whose directory order is not key order
   (known finding c07:order-incompatible-tree, witness below). *)
From Coq Require Import String Ascii List Arith Bool.
From VGW Require Import Base.GoStr Model.Walk Spec.ListSpec Proofs.WalkProof Proofs.WalkFlat Proofs.WalkRefine Proofs.WalkPage.
Import ListNotations.
Open Scope string_scope.

Theorem C07_page_bound : forall t prefix delim marker max skipdirs flag r,
  walk t prefix delim marker max skipdirs flag = Some r ->
  List.length (r_objs r) + List.length (r_cps r) <= max.
Proof. exact page_bound. Qed.
Print Assumptions C07_page_bound.

Theorem C07_unpaginated_complete : forall b kids max, names_ok (D b kids) ->
  List.length (keys_at "." (D b kids)) + 1 < max ->
  walk (D b kids) "" "" "" max [] true =
    Some {| r_objs := keys_at "." (D b kids); r_cps := []; r_trunc := false; r_next := "" |}.
Proof. exact walk_all_flat. Qed.
Print Assumptions C07_unpaginated_complete.

Theorem C07_unpaginated_refines_partial : forall b kids max, names_ok (D b kids) ->
  sorted_b (keys_at "." (D b kids)) = true ->
  List.length (keys_at "." (D b kids)) + 1 < max ->
  walk (D b kids) "" "" "" max [] true = Some (s3_list (sort_strs (keys_at "." (D b kids))) "" "" "" max).
Proof. exact unpaginated_refines. Qed.
Print Assumptions C07_unpaginated_refines_partial.

(* pagination. Order compatibility is asked of all nodes of the tree (files and directories, a directory compared as "path/"),
   which is how the walk compares them with the marker. *)
Theorem C07_paginated_refines : forall b kids marker max, names_ok (D b kids) ->
  sorted_b (map fst (nodes_at "." (D b kids))) = true ->
  walk (D b kids) "" "" marker max [] true = Some (s3_list (sort_strs (keys_at "." (D b kids))) "" "" marker max).
Proof. exact paginated_refines. Qed.
Print Assumptions C07_paginated_refines.

Theorem C07_pagination_complete : forall b kids max fuel, names_ok (D b kids) ->
  sorted_b (map fst (nodes_at "." (D b kids))) = true -> 0 < max -> List.length (keys_at "." (D b kids)) < fuel ->
  wpages (D b kids) "" max fuel = keys_at "." (D b kids).
Proof. exact walk_pages_all. Qed.
Print Assumptions C07_pagination_complete.

(* the full statement is false of the faithful model on trees whose directory order is not key order:
   keys a/b, a-, ab ("-" sorts before "/"); the first page of size 1 names a/b, the S3 rule names a- *)
Definition witness_tree : tree := D false [("a", D false [("b", F true)]); ("a-", F true); ("ab", F true)].
Theorem C07_order_refuted :
  walk witness_tree "" "" "" 1 [] true <> Some (s3_list (sort_strs (keys_at "." witness_tree)) "" "" "" 1).
Proof. vm_compute. discriminate. Qed.
Print Assumptions C07_order_refuted.

(* and following the markers from there never terminates: page after a/b is a-, page after a- is a/b again *)
Theorem C07_pagination_cycle_refuted :
  (exists r1, walk witness_tree "" "" "" 1 [] true = Some r1 /\ r_next r1 = "a/b") /\
  (exists r2, walk witness_tree "" "" "a/b" 1 [] true = Some r2 /\ r_next r2 = "a-") /\
  (exists r3, walk witness_tree "" "" "a-" 1 [] true = Some r3 /\ r_next r3 = "a/b").
Proof. repeat split; eexists; split; vm_compute; reflexivity. Qed.
Print Assumptions C07_pagination_cycle_refuted.

(* non-vacuity of the hypotheses of the pagination theorems: the example tree below is order compatible node by node, and its
   pages of size 2 are a/, a/b then a/c, b.txt *)
Example C07_example_pages :
  let t := D false [("a", D true [("b", F true); ("c", F true)]); ("b.txt", F true)] in
  sorted_b (map fst (nodes_at "." t)) = true /\
  walk t "" "" "" 2 [] true = Some {| r_objs := ["a/"; "a/b"]; r_cps := []; r_trunc := true; r_next := "a/b" |} /\
  walk t "" "" "a/b" 2 [] true = Some {| r_objs := ["a/c"; "b.txt"]; r_cps := []; r_trunc := false; r_next := "" |}.
Proof. vm_compute. repeat split; reflexivity. Qed.

(* non-vacuity of the hypotheses of the partial theorem *)
Example C07_example_tree_ok :
  let t := D false [("a", D true [("b", F true); ("c", F true)]); ("b.txt", F true)] in
  sorted_b (keys_at "." t) = true /\ keys_at "." t = ["a/"; "a/b"; "a/c"; "b.txt"].
Proof. vm_compute. split; reflexivity. Qed.
