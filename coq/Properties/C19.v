(* C19 — Event notifications match committed changes.  Only statements; proofs are in Proofs/EventsProof.v.
   Model/Events.v says which notifications a request stands for; props/c19.py compares the notifications a webhook
   receives from the real gateway under concurrent load, for six filter configurations, with it. *)
From Coq Require Import String List Bool Arith Permutation.
From VGW Require Import Model.Events Proofs.EventsProof.
Import ListNotations.
Open Scope string_scope.

Theorem C19_one_event_per_affected_key : forall f t keys, filter_allows f (type_name t) = true ->
  events_of f (true, map (fun k => (t, k)) keys) = map (fun k => (t, k)) keys.
Proof. exact one_event_per_affected_key. Qed.
Print Assumptions C19_one_event_per_affected_key.
Theorem C19_no_event_when_filtered : forall f t keys, filter_allows f (type_name t) = false ->
  events_of f (true, map (fun k => (t, k)) keys) = [].
Proof. exact no_event_when_filtered. Qed.
Print Assumptions C19_no_event_when_filtered.
Theorem C19_failed_requests_emit_nothing : forall f evs, events_of f (false, evs) = [].
Proof. exact failed_requests_emit_nothing. Qed.
Print Assumptions C19_failed_requests_emit_nothing.
Theorem C19_events_independent_of_interleaving : forall f rs rs', Permutation rs rs' -> Permutation (all_events f rs) (all_events f rs').
Proof. exact events_independent_of_interleaving. Qed.
Print Assumptions C19_events_independent_of_interleaving.
Theorem C19_filter_semantics : forall l ev,
  filter_allows None ev = true /\
  (forall b, ffind l ev = Some b -> filter_allows (Some l) ev = b) /\
  (ffind l ev = None -> forall b, ffind l (family ev) = Some b -> filter_allows (Some l) ev = b) /\
  (ffind l ev = None -> ffind l (family ev) = None -> filter_allows (Some l) ev = false).
Proof. exact filter_semantics. Qed.
Print Assumptions C19_filter_semantics.
Example C19_example :
  all_events (Some [("s3:ObjectCreated:*", true); ("s3:ObjectCreated:Copy", false); ("s3:ObjectRemoved:DeleteObjects", true)])
             [(true, [(0, 1)]); (true, [(1, 2)]); (false, [(0, 3)]); (true, [(4, 4); (4, 5)]); (true, [(3, 6)])] = [(0, 1); (4, 4); (4, 5)].
Proof. vm_compute. reflexivity. Qed.
