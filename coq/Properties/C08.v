(* C08 — Multipart uploads assemble exactly the chosen parts and stay isolated.
   Only statements; proofs are in Proofs/MultipartProof.v.  The model (Model/Multipart.v) is tied to the gateway by
   props/c08.py on every run. *)
From Coq Require Import String List ZArith Bool.
From VGW Require Import Base.GoStr Model.Range Spec.RangeSpec Model.Multipart Proofs.MultipartProof Model.Paging Proofs.UploadsPaging.
Import ListNotations.
Open Scope string_scope.
Open Scope Z_scope.

(* A completion that succeeds: the upload exists under that key; the listed numbers are strictly ascending and >= 1; each
   listed part is stored, the presented ETag is the ETag of the stored content, every part but the last has at least
   5 MiB; the key now holds the concatenation in list order with the multipart ETag over exactly those parts and the
   metadata given at initiation; no other key changes; the upload id is gone and no other upload changes. *)
Theorem C08_complete_assembles_listed_parts : forall s k uid parts osz s' ds,
  step s (Complete k uid parts osz) = (s', O_complete ds) ->
  exists u, nfind (ups s) uid = Some u /\ u_key u = k /\
    ascending 0 (map fst parts) /\ Forall2 (part_matches (u_parts u)) parts ds /\ all_but_last_big ds /\
    nfind (objs s') k = Some {| o_data := concat ds; o_etag := EM ds; o_meta := u_meta u |} /\
    (forall k', k' <> k -> nfind (objs s') k' = nfind (objs s) k') /\
    nfind (ups s') uid = None /\ (forall uid', uid' <> uid -> nfind (ups s') uid' = nfind (ups s) uid').
Proof. exact complete_assembles. Qed.
Print Assumptions C08_complete_assembles_listed_parts.

(* ... and over whole histories (upload ids never handed out twice): the content assembled for each listed number is the
   most recent acknowledged upload-part / upload-part-copy of that number *)
Theorem C08_complete_uses_latest_uploads : forall ops k uid parts osz s' ds, NoDup (creates ops) ->
  step (fst (exec init [] ops)) (Complete k uid parts osz) = (s', O_complete ds) ->
  Forall2 (fun p d => latest (snd (exec init [] ops)) uid (fst p) = Some d) parts ds /\
  (exists ob, nfind (objs s') k = Some ob /\ o_data ob = concat ds /\ o_etag ob = EM ds).
Proof. exact complete_uses_latest_uploads. Qed.
Print Assumptions C08_complete_uses_latest_uploads.

Theorem C08_part_is_latest_upload : forall ops, NoDup (creates ops) ->
  let '(s, h) := exec init [] ops in
  forall uid u, nfind (ups s) uid = Some u -> forall n, zfind (u_parts u) n = latest h uid n.
Proof. exact parts_are_latest_uploads. Qed.
Print Assumptions C08_part_is_latest_upload.

(* otherwise no object is created or replaced (nor anything else changed) *)
Theorem C08_failed_complete_changes_nothing : forall s k uid parts osz s' e,
  step s (Complete k uid parts osz) = (s', O_err e) -> s' = s.
Proof. exact failed_complete_changes_nothing. Qed.
Print Assumptions C08_failed_complete_changes_nothing.

(* parts and in-progress uploads never show up as objects: the object table (all that GET and ListObjects read) is only
   changed by a plain PUT and by a successful completion *)
Theorem C08_only_put_and_complete_touch_objects : forall s o,
  (forall k d m, o <> Put k d m) -> (forall ds, snd (step s o) <> O_complete ds) -> objs (fst (step s o)) = objs s.
Proof. exact objects_only_by_put_and_complete. Qed.
Print Assumptions C08_only_put_and_complete_touch_objects.

(* uploads with different ids never affect one another *)
Theorem C08_uploads_are_isolated : forall s o uid', op_uid o <> Some uid' -> nfind (ups (fst (step s o))) uid' = nfind (ups s) uid'.
Proof. exact uploads_isolated. Qed.
Print Assumptions C08_uploads_are_isolated.

(* after completion or abort the upload id and its parts are gone, and stay gone: every later request naming it fails *)
Theorem C08_abort_removes : forall s k uid s', step s (Abort k uid) = (s', O_ok) -> nfind (ups s') uid = None /\ objs s' = objs s.
Proof. exact abort_removes. Qed.
Print Assumptions C08_abort_removes.
Theorem C08_finished_upload_is_gone : forall ops s uid, nfind (ups s) uid = None -> ~ In uid (creates ops) ->
  nfind (ups (fst (run s ops))) uid = None /\
  Forall2 (fun o x => op_uid o = Some uid -> exists e, x = O_err e) ops (snd (run s ops)).
Proof. exact finished_upload_stays_gone. Qed.
Print Assumptions C08_finished_upload_is_gone.

(* upload-part-copy with any source range: an accepted range is the empty header (whole source) or denotes first-last /
   first- inside the source, and the window is exactly that; a header denoting bytes of the source is never refused *)
Theorem C08_copy_range_exact : forall size hdr a l, 0 <= size -> parse_copy_source_range size hdr = CR a l ->
  (hdr = "" /\ a = 0 /\ l = size) \/
  (exists ob, denotes hdr a ob /\ 0 <= a < size /\ match ob with Some b => b < size /\ l = b - a + 1 | None => l = size - a end).
Proof. exact copy_range_exact. Qed.
Print Assumptions C08_copy_range_exact.
Theorem C08_copy_range_window : forall size hdr a l, 0 <= size -> parse_copy_source_range size hdr = CR a l -> 0 <= a /\ 0 <= l /\ a + l <= size.
Proof. exact copy_range_window. Qed.
Print Assumptions C08_copy_range_window.
Theorem C08_copy_range_complete : forall size hdr a ob, 0 <= size -> denotes hdr a ob -> a < size -> (forall b, ob = Some b -> b < size) ->
  parse_copy_source_range size hdr = CR a (match ob with Some b => b - a + 1 | None => size - a end).
Proof. exact copy_range_complete. Qed.
Print Assumptions C08_copy_range_complete.
Theorem C08_slice_length : forall d off len, wf_data d -> 0 <= off -> 0 <= len -> off + len <= dlen d -> dlen (dslice d off len) = len.
Proof. exact dslice_len. Qed.
Print Assumptions C08_slice_length.

(* ListMultipartUploads, page by page (Model/Paging.v = the page selection of posix.ListMultipartUploads after repair of its marker
   handling; the uploads in (key, upload id) order, every key and id non-empty). One page, when the markers are empty or name an upload
   of the list: the next max uploads behind it, truncated iff more remain, the next markers naming the page's last upload.
   Following the markers from the start: every upload exactly once, in order, whatever the page size - also with several uploads of
   one key (where the page selection before the repair repeated or skipped uploads, and with max-uploads=1 never ended) *)
Theorem C08_list_uploads_page : forall A R km im max, usorted (A ++ R) -> Forall named (A ++ R) -> (1 <= max)%nat ->
  ((A = [] /\ km = "") \/ exists A', A = A' ++ [(km, im)])%list ->
  list_uploads (A ++ R) km im true max =
  if Nat.leb (List.length R) max then Ok_ (R, false, ("", "")) else Ok_ (firstn max R, true, lastu (firstn max R)).
Proof. exact one_page. Qed.
Print Assumptions C08_list_uploads_page.

Theorem C08_list_uploads_pages_complete : forall sorted max, usorted sorted -> Forall named sorted -> (1 <= max)%nat ->
  lmu_pages sorted "" "" max (S (List.length sorted)) = sorted.
Proof. exact uploads_pages_complete. Qed.
Print Assumptions C08_list_uploads_pages_complete.

(* the page selection before repair 2fe630b is refuted by three uploads of one key listed one per page *)
Theorem C08_old_page_selection_refuted :
  let ups := [("a", "u1"); ("a", "u2"); ("a", "u3")] in
  usorted ups /\
  list_uploads_old ups "" "" 1 = Ok_ ([("a", "u1")], true, ("a", "u1")) /\
  list_uploads_old ups "a" "u1" 1 = Ok_ ([("a", "u2")], true, ("a", "u2")) /\
  list_uploads_old ups "a" "u2" 1 = Ok_ ([("a", "u2")], true, ("a", "u2")).
Proof. exact old_page_selection_cycles. Qed.
Print Assumptions C08_old_page_selection_refuted.

Example C08_list_uploads_example :
  let ups := [("a", "u1"); ("a", "u2"); ("a", "u3"); ("b", "u0"); ("c/d", "u5")] in
  usorted ups /\ lmu_pages ups "" "" 1 6 = ups /\ lmu_pages ups "" "" 2 6 = ups /\
  list_uploads ups "a" "u1" true 2 = Ok_ ([("a", "u2"); ("a", "u3")], true, ("a", "u3")).
Proof. vm_compute. repeat split; reflexivity. Qed.

(* non-vacuity: two uploads for one key; a re-uploaded part; a copied open-ended range; the completion of one of them
   assembles the latest parts and leaves the other upload alone *)
Example C08_example :
  let big := [(1%nat, 0, 5242880)] in
  let ops := [Put 0 [(2%nat, 0, 100)] 0; Create 1 7 10; Create 1 8 11; UploadPart 1 10 1 [(3%nat, 0, 5242880)]; UploadPart 1 10 1 big;
              UploadPartCopy 1 10 2 0 "bytes=90-"; UploadPart 1 11 1 [(4%nat, 0, 16)];
              Complete 1 10 [(1, Some big); (2, Some [(2%nat, 90, 10)])] (Some 5242890); Get 1; ListParts 1 11 0 1000; ListParts 1 10 0 1000] in
  skipn 7 (snd (run init ops)) =
    [O_complete [big; [(2%nat, 90, 10)]]; O_get (big ++ [(2%nat, 90, 10)])%list (EM [big; [(2%nat, 90, 10)]]) 7;
     O_parts [(1, [(4%nat, 0, 16)])] false 1; O_err NoSuchUpload].
Proof. vm_compute. reflexivity. Qed.
