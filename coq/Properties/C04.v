(* C04 — Requests stay confined to the bucket and object they name.
   Only statements; proofs are in Proofs/PathsProof.v.
   Proved: the lexical half — for every bucket element and every key (all strings): the key is refused by the validation,
   or filepath.Join(bucket, key) is exactly the bucket followed by the key's own elements (nothing resolved, never above
   the directory it is relative to). That every client-controlled path element of every route goes through this
   validation, and symlinks / the OS's own resolution, are exercised end to end (canaries outside the root and in a second
   bucket, every parameter x spelling), not proved. *)
From Coq Require Import String Ascii List Bool.
From VGW Require Import Base.GoStr Model.Paths Proofs.PathsProof.
Import ListNotations.
Open Scope string_scope.

Theorem C04_clean_names_confined : forall bucket key, plain bucket -> valid_object_name key = true ->
  join_bucket_key bucket key = (bucket :: key_elems key, O).
Proof. exact valid_name_confined. Qed.
Print Assumptions C04_clean_names_confined.

Theorem C04_dot_segments_refused : forall key, existsb is_dot_seg (split_char "/" key) = true -> valid_object_name key = false.
Proof. exact dot_segments_refused. Qed.
Print Assumptions C04_dot_segments_refused.

Theorem C04_refused_or_confined : forall bucket key, plain bucket ->
  valid_object_name key = false \/ join_bucket_key bucket key = (bucket :: key_elems key, O).
Proof.
  intros bucket key Hb. destruct (valid_object_name key) eqn:V; [right; apply valid_name_confined; assumption|left; reflexivity].
Qed.
Print Assumptions C04_refused_or_confined.

(* what the validation prevents: without it the join resolves the name to another location *)
Example C04_unvalidated_escapes : join_bucket_key "bk1" "../../outside/canary.txt" = (["outside"; "canary.txt"], 1).
Proof. vm_compute. reflexivity. Qed.
(* the bookkeeping namespace of the storing backends is outside the key space: a key naming it is refused (an object stored
   there would be served but never listed, and removed by DeleteBucket), and a valid name never starts with it *)
Theorem C04_reserved_namespace_refused : forall r,
  valid_object_name ".sgwtmp" = false /\ valid_object_name (".sgwtmp/" ++ r) = false.
Proof. exact reserved_namespace_refused. Qed.
Print Assumptions C04_reserved_namespace_refused.

Theorem C04_valid_name_not_reserved : forall key, valid_object_name key = true -> first_reserved (split_char "/" key) = false.
Proof. exact valid_name_not_reserved. Qed.
Print Assumptions C04_valid_name_not_reserved.

Example C04_valid_example : valid_object_name "a/b.c/..d/" = true /\ join_bucket_key "bk1" "a/b.c/..d/" = (["bk1"; "a"; "b.c"; "..d"], 0).
Proof. vm_compute. split; reflexivity. Qed.
