(* C15 — Read-only mode admits no mutation.
   Only statements; proofs in Proofs/AclProof.v and by evaluation of the regenerated route table. *)
From Coq Require Import String List Bool.
From VGW Require Import Base.GoStr Model.Acl Proofs.AclProof Gen.RouteTable Gen.AccessSpec Check.RouteCheck.
Import ListNotations.
Open Scope string_scope.

(* in read-only mode no caller — root and admins included — is granted a write permission *)
Theorem C15_readonly_denies_writes : forall pol o, o_readonly o = true -> is_write (o_perm o) = true -> verify_access pol o = false.
Proof. exact readonly_denies_writes. Qed.
Print Assumptions C15_readonly_denies_writes.

Theorem C15_readonly_denies_copy : forall dp sp sg cs o, o_readonly o = true -> verify_copy_access dp sp sg cs o = false.
Proof. exact readonly_denies_copy. Qed.
Print Assumptions C15_readonly_denies_copy.

(* every mutating backend call of the CURRENT source is governed by a check that is handed the read-only flag and asks
   for a write permission (so the two theorems above apply to it) *)
Definition mutating_guarded (t : list row) (r : row) : bool :=
  if negb (has_prefix (r_kind r) "be.") then true else
  match find_spec access_spec (drop 3 (r_kind r)) with
  | Some sp => if s_mutating sp && negb (String.eqb (s_check sp) "none")      (* bucket creation is gated in the ACL-parser middleware: exercised end to end *)
               then existsb (fun c => r_readonly c && (String.eqb (r_perm c) "Write" || String.eqb (r_perm c) "WriteAcp")) (governing t r)
               else true
  | None => false
  end.
Theorem C15_routes : forall r, In r route_table -> mutating_guarded route_table r = true.
Proof. apply forallb_forall. vm_compute. reflexivity. Qed.
Print Assumptions C15_routes.
