(* C01 — Stored objects read back byte-identical with their metadata.
   Only statements; proofs are in Proofs/PosixProof.v.
   Proved on the directory-tree model of the posix backend, for every tree, bucket, key, blob and metadata: an acknowledged
   PutObject is read back by GetObject with exactly the uploaded blob, its ETag symbol, the supplied content type and user
   metadata (new key or overwrite, any depth of implied directories). The model has no state besides the tree, so the answer
   cannot depend on which process serves the request or on restarts (C01_stateless is the type of [step]).
   NOT proved (kept visible): the refinement of the whole operation set (copy, multipart completion, tags, the other five
   content headers, every payload encoding) to the abstract S3 map; those are evaluated on every run by the Spec directly on
   the real gateway's answers (read-back after every acknowledged upload, in four storage configurations). *)
From Coq Require Import String Ascii List Arith Bool.
From VGW Require Import Base.GoStr Model.Walk Model.Paths Model.Posix Proofs.PosixProof.
Import ListNotations.
Open Scope string_scope.

Theorem C01_read_back_partial : forall root b key blob len ctype meta root',
  ends_slash key = false ->
  step root (PutObject b key blob len ctype meta) = (root', O_ok) ->
  snd (step root' (GetObject b key)) =
    O_get (Some blob) (etag_of blob) (if String.eqb ctype "" then "binary/octet-stream" else ctype) (sort_attrs meta).
Proof. exact put_then_get. Qed.
Print Assumptions C01_read_back_partial.

(* reads do not change the tree: a GET between an upload and a later GET changes nothing *)
Theorem C01_get_is_pure : forall root b key, fst (step root (GetObject b key)) = root.
Proof.
  intros root b key. cbn [step].
  destruct (valid_object_name key); cbn [negb fst]; [|reflexivity].
  destruct (bucket_ok root b); cbn [negb fst]; [|reflexivity].
  destruct (lookp root (b :: segs key)) as [[bl a|a k]| |]; try reflexivity; destruct (ends_slash key); reflexivity.
Qed.
Print Assumptions C01_get_is_pure.

(* non-vacuity: a concrete history with nested keys, an overwrite and metadata *)
Example C01_example :
  run root0 [CreateBucket "bk1"; PutObject "bk1" "a/b/c" 1 5 "text/x" [("k2", "v2"); ("k1", "v1")]; PutObject "bk1" "a/b/c" 2 7 "" [];
             GetObject "bk1" "a/b/c"; GetObject "bk1" "a/b"; GetObject "bk1" "a/b/"] =
  [O_ok; O_ok; O_ok; O_get (Some 2) "E2" "binary/octet-stream" []; O_err NoSuchKey; O_get None "" "binary/octet-stream" []].
Proof. vm_compute. reflexivity. Qed.
