(* C01 — Stored objects read back byte-identical with their metadata.
   Only statements; proofs are in Proofs/PosixProof.v.
   Proved on the directory-tree model of the posix backend, for every tree, bucket, key, blob and metadata: an acknowledged
   PutObject is read back by GetObject with exactly the uploaded blob, its ETag symbol, the supplied content type and user
   metadata (new key or overwrite, any depth of implied directories). The model has no state besides the tree, so the answer
   cannot depend on which process serves the request or on restarts (C01_stateless is the type of [step]).
   Also proved: the frame of an upload, and the refinement of the model's whole operation set (CreateBucket, PutObject of file and
   directory keys, GetObject, DeleteObject, ListObjectsV2) to the abstract map from file keys to what is stored, for every history.
   NOT proved (kept visible): copy, multipart completion, tags, the other five content headers and the payload encodings are not
   operations of this model; those are evaluated on every run by the Spec directly on the real gateway's answers (read-back after
   every acknowledged upload, in four storage configurations). *)
From Coq Require Import String Ascii List Arith Bool.
From VGW Require Import Base.GoStr Model.Walk Model.Paths Model.Posix Proofs.PosixProof Proofs.PosixFrame Proofs.PosixWF.
Import ListNotations.
Open Scope string_scope.

Theorem C01_read_back_partial : forall root b key blob len ctype meta root',
  ends_slash key = false ->
  step root (PutObject b key blob len ctype meta) = (root', O_ok) ->
  snd (step root' (GetObject b key)) =
    O_get (Some blob) (etag_of blob) (if String.eqb ctype "" then "binary/octet-stream" else ctype) (sort_attrs meta).
Proof. exact put_then_get. Qed.
Print Assumptions C01_read_back_partial.

(* directory objects (keys ending in "/"): read back as the empty object with exactly the supplied user metadata, also when the
   upload replaces an earlier upload of the same directory object (the directory and its attributes outlive a request, so the
   old user metadata has to be removed: that was missing, see KNOWN_FINDINGS "fixed" C01) *)
Theorem C01_directory_object_read_back : forall root b key blob len ctype meta root',
  ends_slash key = true -> segs key <> [] ->
  step root (PutObject b key blob len ctype meta) = (root', O_ok) ->
  snd (step root' (GetObject b key)) = O_get None emptyMD5 "application/x-directory" (sort_attrs meta).
Proof. exact put_dir_then_get. Qed.
Print Assumptions C01_directory_object_read_back.

(* the frame of an upload: an acknowledged PutObject of a file key changes what GetObject answers for THAT key only; every other
   file key, in every bucket, reads exactly as before (for every tree: keys that are prefixes or extensions of the uploaded key, keys in
   the directories the upload creates on its way, keys of other buckets) *)
Theorem C01_put_changes_only_its_key : forall root b key blob len ctype meta root' b' key',
  ends_slash key = false -> step root (PutObject b key blob len ctype meta) = (root', O_ok) ->
  ends_slash key' = false -> b' :: segs key' <> b :: segs key ->
  snd (step root' (GetObject b' key')) = snd (step root (GetObject b' key')).
Proof. exact put_frame. Qed.
Print Assumptions C01_put_changes_only_its_key.

(* refinement to the abstract map, over histories: from the empty store, after ANY sequence of operations of the model, the tree and the
   map (updated only by acknowledged uploads and acknowledged deletes of file keys) agree on every file key; hence a GetObject answers
   with the last acknowledged upload of its key that no acknowledged delete followed, or with NoSuchKey *)
Theorem C01_history_refines_map : forall ops root m, WF root -> (forall q, m q = getf root q) ->
  forall q, snd (run_abs_all root m ops) q = getf (fst (run_abs_all root m ops)) q.
Proof. exact history_refines_map_all. Qed.
Print Assumptions C01_history_refines_map.

Theorem C01_read_after_any_history : forall ops b key, ends_slash key = false ->
  let st := run_abs_all root0 (fun _ => None) ops in
  snd (step (fst st) (GetObject b key)) =
    if negb (valid_object_name key) then O_err InvalidURI else if negb (bucket_ok (fst st) b) then O_err NoSuchBucket
    else get_answer (snd st (b :: segs key)).
Proof. exact read_after_any_history. Qed.
Print Assumptions C01_read_after_any_history.

(* reads do not change the tree: a GET between an upload and a later GET changes nothing *)
Theorem C01_get_is_pure : forall root b key, fst (step root (GetObject b key)) = root.
Proof.
  intros root b key. cbn [step].
  destruct (valid_object_name key); cbn [negb fst]; [|reflexivity].
  destruct (bucket_ok root b); cbn [negb fst]; [|reflexivity].
  destruct (lookp root (b :: segs key)) as [[bl a|a k]| |]; try reflexivity; destruct (ends_slash key); reflexivity.
Qed.
Print Assumptions C01_get_is_pure.

(* non-vacuity: a concrete history with nested keys, an overwrite and metadata *)
Example C01_example :
  run root0 [CreateBucket "bk1"; PutObject "bk1" "a/b/c" 1 5 "text/x" [("k2", "v2"); ("k1", "v1")]; PutObject "bk1" "a/b/c" 2 7 "" [];
             GetObject "bk1" "a/b/c"; GetObject "bk1" "a/b"; GetObject "bk1" "a/b/"] =
  [O_ok; O_ok; O_ok; O_get (Some 2) "E2" "binary/octet-stream" []; O_err NoSuchKey; O_get None "" "binary/octet-stream" []].
Proof. vm_compute. reflexivity. Qed.

(* non-vacuity for directory objects: the second upload replaces the metadata of the first *)
Example C01_example_directory_object :
  run root0 [CreateBucket "bk1"; PutObject "bk1" "d/e/" 0 0 "" [("old", "1"); ("both", "x")]; PutObject "bk1" "d/e/" 0 0 "" [("new", "2"); ("both", "y")];
             GetObject "bk1" "d/e/"; PutObject "bk1" "d/e/" 0 0 "" []; GetObject "bk1" "d/e/"] =
  [O_ok; O_ok; O_ok; O_get None "EMPTY" "application/x-directory" [("both", "y"); ("new", "2")]; O_ok; O_get None "EMPTY" "application/x-directory" []].
Proof. vm_compute. reflexivity. Qed.

(* non-vacuity of the frame theorem: uploads below, beside and into new directories leave the other keys as they were *)
Example C01_example_frame :
  run root0 [CreateBucket "bk1"; CreateBucket "bk2"; PutObject "bk1" "a/b" 1 3 "t/1" [("m", "1")]; PutObject "bk2" "a/b" 2 3 "" [];
             PutObject "bk1" "a/c/d" 3 1 "" []; PutObject "bk1" "a/bb" 4 1 "" []; GetObject "bk1" "a/b"; GetObject "bk2" "a/b"; GetObject "bk1" "a/c"; GetObject "bk1" "a/b/x"] =
  [O_ok; O_ok; O_ok; O_ok; O_ok; O_ok; O_get (Some 1) "E1" "t/1" [("m", "1")]; O_get (Some 2) "E2" "binary/octet-stream" []; O_err NoSuchKey; O_err NoSuchKey].
Proof. vm_compute. reflexivity. Qed.

(* non-vacuity of the history theorem: the abstract map after a history with overwrites, a refused upload, deletes and directory objects *)
Example C01_example_history :
  let ops := [CreateBucket "bk1"; PutObject "bk1" "a/b" 1 3 "" []; PutObject "bk1" "a/b" 2 4 "t/2" [("m", "2")]; PutObject "bk1" "a" 3 1 "" [];
              PutObject "bk1" "c" 4 1 "" []; DeleteObject "bk1" "c"; PutObject "bk1" "d/" 0 0 "" []; DeleteObject "bk1" "zz"] in
  let st := run_abs_all root0 (fun _ => None) ops in
  map (snd st) [["bk1"; "a"; "b"]; ["bk1"; "a"]; ["bk1"; "c"]; ["bk1"; "d"]] = [Some (2, put_attrs 2 "t/2" [("m", "2")]); None; None; None] /\
  snd (step (fst st) (GetObject "bk1" "a/b")) = O_get (Some 2) "E2" "t/2" [("m", "2")].
Proof. vm_compute. split; reflexivity. Qed.
