(* C14 — Bucket policy evaluation follows the policy language exactly.
   Only statements; proofs are in Proofs/GlobProof.v and Proofs/PolicyProof.v. *)
From Coq Require Import String Ascii List Bool.
From VGW Require Import Base.GoStr Model.Json Model.Glob Spec.GlobSpec Model.Policy Spec.PolicySpec
  Proofs.GlobProof Proofs.PolicyProof.
Import ListNotations.
Open Scope string_scope.

(* the resource matcher is exactly the glob relation, for every pattern and subject (no length bound):
   '*' any run of bytes, '?' exactly one byte *)
Theorem C14_glob_correct : forall p s, go_match p s = true <-> glob p s.
Proof. exact glob_correct. Qed.
Print Assumptions C14_glob_correct.

(* principals: exact id or "*"; actions: exact name, "s3:*" or trailing-"*" prefix; resources: glob *)
Theorem C14_principal_match : forall ps who, principal_match ps who = true <-> principal_matches ps who.
Proof. exact principal_match_spec. Qed.
Print Assumptions C14_principal_match.

Theorem C14_action_match : forall acts a, action_match acts a = true <-> action_matches acts a.
Proof. exact action_match_spec. Qed.
Print Assumptions C14_action_match.

Theorem C14_resource_match : forall rs r, resource_match rs r = true <-> resource_matches rs r.
Proof. exact resource_match_spec. Qed.
Print Assumptions C14_resource_match.

(* allowed exactly when at least one Allow statement matches and no Deny statement matches,
   for every number and order of statements *)
Theorem C14_deny_overrides : forall l who act r, is_allowed l who act r = true <-> allowed l who act r.
Proof. exact deny_overrides. Qed.
Print Assumptions C14_deny_overrides.

(* a document is accepted exactly when it decodes to a non-empty list of statements that are all well-formed
   for this bucket (known effect; principals non-empty and all "*" or all existing accounts; every resource
   names this bucket; every action known — enforced by the decoder — and paired with a resource of its kind) *)
Theorem C14_validate_exact : forall accounts j bucket,
  validate accounts true j bucket = None <->
  exists l, parse_policy j = Ok l /\ l <> [] /\ Forall (wf_stmt accounts bucket) l.
Proof. exact validate_spec. Qed.
Print Assumptions C14_validate_exact.

Theorem C14_validate_first_byte : forall accounts j bucket, validate accounts false j bucket = Some InvalidJson.
Proof. exact validate_first_byte. Qed.
Print Assumptions C14_validate_first_byte.

(* PutBucketPolicy keeps the previous policy when the document is refused (controller: the backend is
   only called after ValidatePolicyDocument returned nil) *)
Definition put_policy (accounts : list string) (bucket : string) (stored : option json) (brace : bool) (doc : json) : option json :=
  match validate accounts brace doc bucket with None => Some doc | Some _ => stored end.

Theorem C14_put_keeps_previous : forall accounts bucket stored brace doc e,
  validate accounts brace doc bucket = Some e -> put_policy accounts bucket stored brace doc = stored.
Proof. intros accounts bucket stored brace doc e H. unfold put_policy. rewrite H. reflexivity. Qed.
Print Assumptions C14_put_keeps_previous.

(* non-vacuity: the former defect witness and a Deny that overrides an Allow *)
Example C14_star_in_subject : glob_match "*a" "*ba" = true.
Proof. reflexivity. Qed.
Example C14_deny_example :
  is_allowed [ {| effect := "Allow"; princ := ["*"]; acts := ["s3:*"]; ress := ["bk/*"] |};
               {| effect := "Deny"; princ := ["u1"]; acts := ["s3:Get*"]; ress := ["bk/*secret"] |} ]
             "u1" "s3:GetObject" "bk/*xsecret" = false.
Proof. reflexivity. Qed.
