(* C18 — The S3-proxy backend is transparent.
   The theorems below are about the table Gen/ProxyFields.v, which harness/cmd/gentab regenerates from
   backend/s3proxy/s3.go on every run: for every operation the property names, every client-visible request field reaches
   the SDK call (passed whole, or entry by entry, and neither cleared unconditionally nor dropped when it is zero), and every
   client-visible field of the answer reaches the caller.  The domain is finite (the methods and fields of the table), so the
   proof is by evaluation, lifted with forallb_forall.  What the SDK and the endpoint then do with the fields is compared
   end to end by props/c18.py (paired programs against an endpoint and against a gateway proxying to an identical one). *)
From Coq Require Import String List Bool.
From VGW Require Import Base.GoStr Gen.ProxyFields Model.ProxySpec.
Import ListNotations.
Open Scope string_scope.

Theorem C18_request_fields_forwarded : forall m fs f, In (m, fs) required_forward -> In f fs -> forwards proxy_methods m f = true.
Proof.
  assert (H : all_forwarded proxy_methods = true) by (vm_compute; reflexivity).
  intros m fs f Hm Hf. unfold all_forwarded in H. rewrite forallb_forall in H.
  specialize (H (m, fs) Hm). cbn [fst snd] in H. rewrite forallb_forall in H. exact (H f Hf).
Qed.
Print Assumptions C18_request_fields_forwarded.

Theorem C18_response_fields_returned : forall m fs f, In (m, fs) required_return -> In f fs -> returns proxy_methods m f = true.
Proof.
  assert (H : all_returned proxy_methods = true) by (vm_compute; reflexivity).
  intros m fs f Hm Hf. unfold all_returned in H. rewrite forallb_forall in H.
  specialize (H (m, fs) Hm). cbn [fst snd] in H. rewrite forallb_forall in H. exact (H f Hf).
Qed.
Print Assumptions C18_response_fields_returned.
