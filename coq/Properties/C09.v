(* C09 — Version history is preserved exactly in versioned buckets.
   Only statements; proofs are in Proofs/VersionsProof.v.  Model/Versions.v is the reference version machine; the gateway's
   answers are compared with it on every run by props/c09.py (every answer of every random program). *)
From Coq Require Import List Arith Bool.
From VGW Require Import Model.Versions Proofs.VersionsProof.
Import ListNotations.

(* every successful write in an enabled bucket yields a new id: one that no key holds, and the ids handed out along any
   history (by writes and by delete markers) are strictly increasing, hence pairwise distinct *)
Theorem C09_new_ids_are_fresh : forall s k b me s' i, Inv s -> vstat s = Enabled ->
  step s (Put k b me) = (s', O_put (Some (Some i))) ->
  (forall k', ~ In (Some i) (map v_id (kget (keys s) k'))) /\ i = next s /\ next s' = S (next s) /\
  find_id (kget (keys s') k) (Some i) = Some (mk (Some i) false b me).
Proof. exact new_id_is_fresh. Qed.
Print Assumptions C09_new_ids_are_fresh.
Theorem C09_handed_out_ids_distinct : forall ops, NoDup (flat_map out_id (snd (run init ops))).
Proof. exact handed_out_ids_distinct. Qed.
Print Assumptions C09_handed_out_ids_distinct.
Theorem C09_reachable_states_satisfy_inv : forall ops, Inv (fst (run init ops)).
Proof. intros ops. exact (inv_run ops init inv_init). Qed.
Print Assumptions C09_reachable_states_satisfy_inv.
Theorem C09_ids_unique_per_key : forall ops k, NoDup (map v_id (kget (keys (fst (run init ops))) k)).
Proof. exact ids_unique_per_key. Qed.
Print Assumptions C09_ids_unique_per_key.

(* every version stays retrievable with its own content and metadata under its id until it is deleted by id: after any
   sequence of operations that does not delete that id of that key (for the null version: while versioning is enabled —
   a write or delete on a suspended bucket replaces the null version, as in S3) *)
Theorem C09_versions_stay_until_deleted_by_id : forall ops s k i v, Inv s -> vstat s <> Off -> (i = None -> vstat s = Enabled) ->
  Forall (harmless k i) ops -> find_id (kget (keys s) k) i = Some v -> v_marker v = false ->
  snd (step (fst (run s ops)) (GetVersion k i)) = O_obj (v_blob v) (v_meta v) i.
Proof. exact version_retrievable_after_history. Qed.
Print Assumptions C09_versions_stay_until_deleted_by_id.

(* a delete without an id only adds a delete marker with a new id on top; everything below is unchanged, other keys are
   unchanged, and the key then reads as missing *)
Theorem C09_delete_adds_marker_and_hides_key : forall s k top rest, vstat s = Enabled -> kget (keys s) k = top :: rest ->
  let s' := fst (step s (Delete k)) in
  snd (step s (Delete k)) = O_deleted (Some (Some (next s))) /\
  (exists m, kget (keys s') k = m :: top :: rest /\ v_id m = Some (next s) /\ v_marker m = true) /\
  snd (step s' (Get k)) = O_err NoSuchKey true /\
  (forall k', k' <> k -> kget (keys s') k' = kget (keys s) k').
Proof. exact delete_adds_marker. Qed.
Print Assumptions C09_delete_adds_marker_and_hides_key.

(* deleting the newest version or marker re-exposes the previous one *)
Theorem C09_deleting_newest_reexposes_previous : forall s k v w rest, Inv s -> kget (keys s) k = v :: w :: rest ->
  let s' := fst (step s (DeleteVersion k (v_id v))) in
  snd (step s (DeleteVersion k (v_id v))) = O_delver (v_marker v) /\
  kget (keys s') k = w :: rest /\
  snd (step s' (Get k)) = (if v_marker w then O_err NoSuchKey true else O_obj (v_blob w) (v_meta w) (v_id w)).
Proof. exact deleting_newest_reexposes_previous. Qed.
Print Assumptions C09_deleting_newest_reexposes_previous.

(* ListObjectVersions reports, per key, exactly the existing versions and markers, newest first, with exactly one
   flagged latest (when the key has any), one group per key *)
Theorem C09_listing_is_exact : forall s, snd (step s ListVersions) = O_list (map (fun ks => (fst ks, listing_of (snd ks))) (keys s)).
Proof. exact listing_is_exact. Qed.
Print Assumptions C09_listing_is_exact.
Theorem C09_listing_shape : forall stack,
  map (fun e => match e with (i, m, b, _) => (i, m, b) end) (listing_of stack) = map (fun v => (v_id v, v_marker v, v_blob v)) stack /\
  length (filter (fun e => snd e) (listing_of stack)) = (match stack with [] => 0 | _ => 1 end).
Proof. exact listing_shape. Qed.
Print Assumptions C09_listing_shape.
Theorem C09_listing_one_group_per_key : forall ops, NoDup (map fst (keys (fst (run init ops)))).
Proof. exact listing_one_group_per_key. Qed.
Print Assumptions C09_listing_one_group_per_key.

(* non-vacuity: an object that predates versioning, two versions, a marker, deletion of the marker and of the newest version *)
Example C09_example :
  snd (run init [Put 0 10 0; SetStatus Enabled; Put 0 11 1; Put 0 12 2; Delete 0; Get 0; DeleteVersion 0 (Some 2); Get 0;
                 DeleteVersion 0 (Some 1); Get 0; GetVersion 0 None; ListVersions]) =
  [O_put None; O_ok; O_put (Some (Some 0)); O_put (Some (Some 1)); O_deleted (Some (Some 2)); O_err NoSuchKey true; O_delver true;
   O_obj 12 2 (Some 1); O_delver false; O_obj 11 1 (Some 0); O_obj 10 0 None;
   O_list [(0, [(Some 0, false, 11, true); (None, false, 10, false)])]].
Proof. vm_compute. reflexivity. Qed.
