(* numeric rendering of the multipart model's answers, printed by the generated case files and compared with the
   gateway's answers by the harness (which materialises symbolic contents and digests) *)
From Coq Require Import String List ZArith Bool.
From VGW Require Import Base.GoStr Model.Multipart.
Import ListNotations.
Open Scope Z_scope.

Definition enc_data (d : data) : list Z :=
  let n := dnorm d in Z.of_nat (length n) :: flat_map (fun p => match p with (c, o, l) => [Z.of_nat c; o; l] end) n.
Definition enc_err (e : err) : Z :=
  match e with NoSuchUpload => 1 | InvalidPart => 2 | InvalidPartOrder => 3 | EntityTooSmall => 4 | InvalidArgument => 5 | InvalidRequest => 6 | NoSuchKey => 7 end.
Definition enc_etag (e : etag) : list Z :=
  match e with
  | ES _ => [0]
  | EM ds => 1 :: Z.of_nat (length ds) :: flat_map enc_data ds
  end.
Definition enc_out (o : out) : list Z :=
  match o with
  | O_ok => [1]
  | O_err e => [0; enc_err e]
  | O_part d => 2 :: enc_data d
  | O_parts l trunc next => 5 :: (if trunc then 1 else 0) :: next :: Z.of_nat (length l) :: flat_map (fun p => fst p :: enc_data (snd p)) l
  | O_uploads l => 6 :: Z.of_nat (length l) :: flat_map (fun p => [Z.of_nat (fst p); Z.of_nat (snd p)]) l
  | O_complete ds => 3 :: Z.of_nat (length ds) :: flat_map enc_data ds
  | O_get d e m => 4 :: Z.of_nat m :: enc_data d ++ enc_etag e
  | O_keys l => 7 :: map Z.of_nat l
  end.
Definition run_enc (ops : list op) : list (list Z) := map enc_out (snd (run init ops)).
