(* Table obligations for C03 / C15 over the regenerated route table (Gen/RouteTable.v) and the access Spec
   (Gen/AccessSpec.v, rendered from spec/access_spec.json). *)
From Coq Require Import String List Bool Arith.
From VGW Require Import Base.GoStr Gen.RouteTable Gen.AccessSpec.
Import ListNotations.
Open Scope string_scope.

Definition is_check (r : row) : bool :=
  existsb (String.eqb (r_kind r)) ["VerifyAccess"; "VerifyObjectCopyAccess"; "IsAdminOrOwner"; "MayCreateBucket"].

Definition subset (a b : list string) : bool := forallb (fun x => existsb (String.eqb x) b) a.

Fixpoint find_spec (l : list aspec) (be : string) : option aspec :=
  match l with [] => None | s :: r => if String.eqb (s_backend s) be then Some s else find_spec r be end.

(* the checks that lie on every path to row r: same handler, earlier in the source, conditions all among r's *)
Definition governing (t : list row) (r : row) : list row :=
  filter (fun c => is_check c && String.eqb (r_handler c) (r_handler r) && Nat.ltb (r_line c) (r_line r)
                   && subset (r_conds c) (r_conds r)) t.

Definition check_matches (sp : aspec) (c : row) : bool :=
  String.eqb (r_kind c) (s_check sp) &&
  (if String.eqb (s_check sp) "MayCreateBucket" then true else
   existsb (String.eqb (r_action c)) (s_actions sp) && String.eqb (r_perm c) (s_perm sp)
   && (if s_object sp then negb (String.eqb (r_object c) "") else String.eqb (r_object c) "")
   && (if s_mutating sp then r_readonly c else true)).

(* backend calls made on behalf of another operation's branch (reads used to build that operation's input) *)
Definition internal_calls : list (string * string) :=
  [("PutBucketActions", "GetBucketOwnershipControls"); ("PutActions", "GetBucketPolicy");
   (* after an authorised CopyObject / CompleteMultipartUpload: the size of the object just written, for its notification *)
   ("PutActions", "HeadObject"); ("CreateActions", "HeadObject")].
Definition is_internal (r : row) : bool :=
  existsb (fun hc => String.eqb (fst hc) (r_handler r) && String.eqb ("be." ++ snd hc) (r_kind r)) internal_calls.

Definition row_ok (t : list row) (r : row) : bool :=
  if negb (has_prefix (r_kind r) "be.") then true else
  match find_spec access_spec (drop 3 (r_kind r)) with
  | None => false                                   (* a backend operation the Spec does not know: not shown to be guarded *)
  | Some sp =>
      if String.eqb (s_check sp) "none" then true
      else if is_internal r then true
      else existsb (check_matches sp) (governing t r)
  end.

Definition bad_rows (t : list row) : list (string * nat) :=
  map (fun r => (r_kind r, r_line r)) (filter (fun r => negb (row_ok t r)) t).
