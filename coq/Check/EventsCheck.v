From Coq Require Import String List Bool Arith.
From VGW Require Import Base.GoStr Model.Events.
Import ListNotations.
Open Scope string_scope.

Definition filter_ok (c : list (string * bool) * string * bool) : bool :=
  match c with (f, ev, real) => Bool.eqb (filter_allows (Some f) ev) real end.
(* a round: the filter, the requests (succeeded?, event type of each affected key), the number of notifications received *)
Definition round_ok (c : option (list (string * bool)) * list (bool * list nat) * nat) : bool :=
  match c with (f, rs, n) => Nat.eqb (length (all_events f (map (fun r => (fst r, map (fun t => (t, 0)) (snd r))) rs))) n end.
