(* Correspondence for C17 on case files written by the harness. *)
From Coq Require Import List ZArith String Bool Arith.
From VGW Require Import Model.IamCache Spec.IamSpec Check.Common.
Import ListNotations.
Open Scope string_scope.

Definition acct_eqb (a b : account) : bool :=
  String.eqb (secret a) (secret b) && String.eqb (role a) (role b) && Z.eqb (uid a) (uid b) && Z.eqb (gid a) (gid b).
Definition out_eqb (a b : out) : bool :=
  match a, b with
  | OK, OK | Exists, Exists | NoSuchUser, NoSuchUser => true
  | Found x, Found y => acct_eqb x y
  | _, _ => false
  end.
Fixpoint outs_eqb (a b : list out) : bool :=
  match a, b with [], [] => true | x :: a', y :: b' => out_eqb x y && outs_eqb a' b' | _, _ => false end.

Definition root_acct := {| secret := "rootsecret"; role := "admin"; uid := 0; gid := 0 |}.

(* a sequential history against the real IAMCache over the real internal store *)
Record hcase := { h_ttl : nat; h_ops : list op; h_obs : list out }.
Definition hist_ok (c : hcase) : bool := outs_eqb (run (h_ttl c) "root" root_acct s0 (h_ops c)) (h_obs c).
(* R3: the observation against the plain map (no cache in the Spec) *)
Definition hist_spec_ok (c : hcase) : bool := outs_eqb (spec_run "root" root_acct [] (h_ops c)) (h_obs c).

(* a schedule of one lookup and one delete of "u1" (present in the store, absent from the cache), both run to completion,
   then a final lookup *)
Record scase := { s_sched : list who; s_final : out }.
Definition sched_ok (c : scase) : bool :=
  let cf := fold_left (sched_step 1000 "u1") (s_sched c ++ [StepLookup; StepLookup; StepDelete; StepDelete; StepLookup; StepLookup])
              {| c_st := {| store := [("u1", {| secret := "s1"; role := "user"; uid := 1234; gid := 2345 |})]; cache := []; now := 0 |};
                 c_l := L_start; c_d := D_start; c_lock := None |} in
  out_eqb (snd (step 1000 "root" root_acct (c_st cf) (Lookup "u1"))) (s_final c).
Definition sched_spec_ok (c : scase) : bool := out_eqb NoSuchUser (s_final c).
