(* Correspondence for C14 on case files written by the harness. *)
From Coq Require Import String Ascii List Bool.
From VGW Require Import Base.GoStr Model.Json Model.Glob Model.Policy Check.Common.
Import ListNotations.
Open Scope string_scope.

Definition glob_ok (c : string * string * bool) : bool :=
  let '(p, s, o) := c in Bool.eqb (glob_match p s) o.

(* observed verdict: None = accepted *)
Definition operr_eqb (a b : option perr) : bool :=
  match a, b with None, None => true | Some x, Some y => perr_eqb x y | _, _ => false end.

Record vcase := { v_brace : bool; v_doc : json; v_bucket : string; v_accounts : list string; v_obs : list (option perr) }.
(* the real validator was called several times on the same document: every verdict seen must be the model's *)
Definition validate_ok (c : vcase) : bool :=
  let m := validate (v_accounts c) (v_brace c) (v_doc c) (v_bucket c) in
  match v_obs c with [] => false | l => forallb (operr_eqb m) l end.

Inductive everdict := EAllow | EDeny | EJsonErr.
Record ecase := { e_doc : json; e_who : string; e_bucket : string; e_object : string; e_action : string; e_obs : everdict }.
Definition verify_ok (c : ecase) : bool :=
  match verify (e_doc c) (e_who c) (e_bucket c) (e_object c) (e_action c), e_obs c with
  | None, EJsonErr => true
  | Some true, EAllow => true
  | Some false, EDeny => true
  | _, _ => false
  end.
