(* numeric rendering of the bucket-table model's answers and the name cases (props/c16.py) *)
From Coq Require Import String List ZArith Bool.
From VGW Require Import Base.GoStr Model.Bucket.
Import ListNotations.
Open Scope Z_scope.

Definition enc_err (e : err) : Z :=
  match e with InvalidBucketName => 1 | BucketAlreadyOwnedByYou => 2 | BucketAlreadyExists => 3 | NoSuchBucket => 4 | BucketNotEmpty => 5 | NoSuchSetting => 6 end.
(* names are rendered as their index in the name table of the case *)
Fixpoint index_of (names : list string) (n : string) (i : Z) : Z :=
  match names with [] => -1 | m :: r => if String.eqb m n then i else index_of r n (i + 1) end.
Definition enc_out (names : list string) (o : out) : list Z :=
  match o with
  | O_ok => [1]
  | O_err e => [0; enc_err e]
  | O_doc d => [2; Z.of_nat d]
  | O_names l => 3 :: map (fun n => index_of names n 0) l
  end.
Definition run_enc (names : list string) (ops : list op) : list (list Z) := map (enc_out names) (snd (run [] ops)).
Definition name_ok (c : string * bool) : bool := Bool.eqb (valid_bucket_name (fst c)) (snd c).
