From Coq Require Import String List Bool.
From VGW Require Import Base.GoStr Model.Json Model.Policy Model.Acl Check.Common.
Import ListNotations.
Definition access_ok (c : pol_state * access_opts * bool) : bool :=
  let '(pol, o, obs) := c in Bool.eqb (verify_access pol o) obs.
