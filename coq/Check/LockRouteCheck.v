(* Table obligation for C10 over the regenerated route table (Gen/RouteTable.v) and Gen/LockCalls.v: every route that replaces or
   removes object data consults the lock decision (auth.CheckObjectAccess) first, on every path to the backend call; the one operation
   whose check lives in the backend (CompleteMultipartUpload: the controller does not know the key's state when the upload was started)
   makes it before it publishes. *)
From Coq Require Import String List Bool Arith.
From VGW Require Import Base.GoStr Gen.RouteTable Gen.LockCalls Check.RouteCheck.
Import ListNotations.
Open Scope string_scope.

Definition destructive : list string := ["be.PutObject"; "be.CopyObject"; "be.DeleteObject"; "be.DeleteObjects"].

(* the lock checks that lie on every path to row r: same handler, earlier in the source, conditions all among r's *)
Definition lock_governing (t : list row) (r : row) : list row :=
  filter (fun c => String.eqb (r_kind c) "CheckObjectAccess" && String.eqb (r_handler c) (r_handler r) && Nat.ltb (r_line c) (r_line r)
                   && subset (r_conds c) (r_conds r)) t.

Definition lock_row_ok (t : list row) (r : row) : bool :=
  if existsb (String.eqb (r_kind r)) destructive then negb (Nat.eqb (List.length (lock_governing t r)) 0) else true.

Definition lock_bad_rows (t : list row) : list (string * nat) :=
  map (fun r => (r_kind r, r_line r)) (filter (fun r => negb (lock_row_ok t r)) t).

(* every destructive operation of the Spec does occur in the table (the obligation is not vacuous) *)
Definition destructive_present (t : list row) : bool :=
  forallb (fun d => existsb (fun r => String.eqb (r_kind r) d) t) destructive.

Definition backend_checks_before_publishing (e : string * list nat * list nat) : bool :=
  let '(_, checks, links) := e in
  negb (Nat.eqb (List.length links) 0) && forallb (fun l => existsb (fun c => Nat.ltb c l) checks) links.

Definition cmu_checked (l : list (string * list nat * list nat)) : bool :=
  existsb (fun e => String.eqb (fst (fst e)) "CompleteMultipartUpload" && backend_checks_before_publishing e) l.
