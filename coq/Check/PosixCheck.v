From Coq Require Import String Ascii List Arith Bool.
From VGW Require Import Base.GoStr Model.Walk Model.Paths Model.Posix Check.Common.
Import ListNotations.
Open Scope string_scope.

Fixpoint aeq (a b : attrs) : bool :=
  match a, b with
  | [], [] => true
  | (k, v) :: a', (k', v') :: b' => String.eqb k k' && String.eqb v v' && aeq a' b'
  | _, _ => false
  end.
Definition erreq (a b : err) : bool :=
  match a, b with
  | NoSuchBucket, NoSuchBucket | NoSuchKey, NoSuchKey | ExistingObjectIsDirectory, ExistingObjectIsDirectory
  | ObjectParentIsFile, ObjectParentIsFile | DirectoryObjectContainsData, DirectoryObjectContainsData
  | DirectoryNotEmpty, DirectoryNotEmpty | BucketAlreadyOwnedByYou, BucketAlreadyOwnedByYou | BucketNotEmpty, BucketNotEmpty
  | InvalidURI, InvalidURI => true
  | _, _ => false
  end.
Definition obeq (a b : obs) : bool :=
  match a, b with
  | O_ok, O_ok => true
  | O_err x, O_err y => erreq x y
  | O_get b1 e1 c1 m1, O_get b2 e2 c2 m2 =>
      (match b1, b2 with Some x, Some y => Nat.eqb x y | None, None => true | _, _ => false end)
      && String.eqb e1 e2 && String.eqb c1 c2 && aeq m1 m2
  | O_list l1 t1, O_list l2 t2 => aeq l1 l2 && Bool.eqb t1 t2
  | _, _ => false
  end.
Fixpoint firstbad (i : nat) (a b : list obs) : option nat :=
  match a, b with
  | x :: a', y :: b' => if obeq x y then firstbad (S i) a' b' else Some i
  | [], [] => None
  | _, _ => Some i
  end.
(* a history: operations and the gateway's observations; the answer is the index of the first disagreement *)
Definition hist_ok (c : list op * list obs) : bool := match firstbad 0 (run root0 (fst c)) (snd c) with None => true | Some _ => false end.
Definition hist_first_bad (c : list op * list obs) : nat := match firstbad 0 (run root0 (fst c)) (snd c) with None => 0 | Some i => i end.
