(* Correspondence and Spec evaluation for C13, run on case files written by the harness. *)
From Coq Require Import String Ascii List ZArith Bool.
From VGW Require Import Base.GoStr Model.Range Spec.RangeSpec Check.Common.
Import ListNotations.
Open Scope Z_scope.

(* T2: backend.ParseGetObjectRange(size, hdr) observed as (start, len, valid) / InvalidRange / panic *)
Inductive uobs := UO (s l : Z) (v : bool) | UErr | UPanic.
Definition unit_ok (c : Z * string * uobs) : bool :=
  let '(size, hdr, o) := c in
  match parse_get_object_range size hdr, o with
  | PR s l v, UO s' l' v' => (s =? s') && (l =? l') && Bool.eqb v v'
  | PErr416, UErr => true
  | _, _ => false
  end.

(* T3: one GET on the real gateway: stat size, directory?, Range header, then the observation:
   status, Content-Range text ("" when absent), Content-Length, body length, and the offsets of the
   stored object at which the returned body occurs (all offsets when the body is empty) *)
Record hcase := { h_stat : Z; h_dir : bool; h_hdr : string;
                  o_status : Z; o_crange : string; o_clen : Z; o_blen : Z; o_offs : list Z }.

Definition http_ok (c : hcase) : bool :=
  let r := get_resp (h_stat c) (h_dir c) (h_hdr c) in
  (status r =? o_status c) &&
  (if status r =? 416 then true else
   String.eqb (crange_text (crange r)) (o_crange c) && (clen r =? o_clen c) && (blen r =? o_blen c)
   && ((blen r =? 0) || zlist_mem (boff r) (o_offs c))).

(* R3: the Spec evaluated on the observation alone (no model involved): rebuild a resp from what was seen *)
Definition parse_crange_text (t : string) : option (option (Z * Z * Z)) :=
  if String.eqb t "" then Some None else
  if has_prefix t "bytes " then
    match split_char "/" (drop 6 t) with
    | [ae; tot] =>
        match str_cut ae "-" with
        | (a, e, true) =>
            match parse_int10 a, parse_int10 e, parse_int10 tot with
            | Some a', Some e', Some t' => Some (Some (a', e', t'))
            | _, _, _ => None
            end
        | _ => None
        end
    | _ => None
    end
  else None.

Definition http_spec_ok (c : hcase) : bool :=
  let size := if h_dir c then 0 else h_stat c in
  match parse_crange_text (o_crange c) with
  | None => false
  | Some cr =>
      (* any offset at which the body occurs may be the window start *)
      let try_off (off : Z) :=
        spec_okb size (h_hdr c) {| status := o_status c; crange := cr; clen := o_clen c; boff := off; blen := o_blen c |} in
      if o_status c =? 416 then try_off 0
      else if o_blen c =? 0 then
        (* empty body: a 200 of an empty object; never a legal 206 *)
        try_off 0
      else existsb try_off (o_offs c)
  end.
