(* predicted outcomes of the hook-driven schedules (props/c05.py): the first request is parked before / after its
   linearization step while the second runs to completion *)
From Coq Require Import List Arith Bool ZArith.
From VGW Require Import Model.Publish.
Import ListNotations.

(* kinds: 0 = writer parked, a reader runs (after_publish?) ; 1 = reader parked (after_open?), a writer runs; 2 = reader parked, a deleter runs;
   3 = deleter parked (after_unlink?), a reader runs.  The key holds write 1, the new write is 2.  Result: 1 / 2 / 0 (missing) *)
Definition enc (r : option thread) : Z :=
  match r with Some (TRdone (Got b)) => Z.of_nat b | Some (TRdone NotFound) => 0 | _ => -1 end.
Definition predict (kind : nat) (after : bool) : Z :=
  match kind with
  | 0 => enc (nth_error (snd (run (fs_with 1, [TW 2 false; TR0]) (if after then [0; 1; 1] else [1; 1; 0]))) 1)
  | 1 => enc (nth_error (snd (run (fs_with 1, [TR0; TW 2 false]) (if after then [0; 1; 0] else [1; 0; 0]))) 0)
  | 2 => enc (nth_error (snd (run (fs_with 1, [TR0; TD false]) (if after then [0; 1; 0] else [1; 0; 0]))) 0)
  | _ => enc (nth_error (snd (run (fs_with 1, [TD false; TR0]) (if after then [0; 1; 1] else [1; 1; 0]))) 1)
  end.
Definition case_ok (c : nat * bool * Z) : bool := match c with (k, a, z) => Z.eqb (predict k a) z end.
