From Coq Require Import String List Bool.
From VGW Require Import Base.GoStr Model.Paths Check.Common.
Definition name_ok (c : string * bool) : bool := Bool.eqb (valid_object_name (fst c)) (snd c).
