From Coq Require Import String Ascii List ZArith Bool.
From VGW Require Import Base.GoStr Model.Auth Check.Common.
Import ListNotations.
Open Scope string_scope.

(* observed: access region signedHeaders signature date, or the error name *)
Inductive pa_obs := PA_ok (access region signed sig date : string) | PA_err (name : string).
Definition pa_err_name (e : pa_err) : string :=
  match e with
  | PE_MissingFields => "MissingFields" | PE_SigVersion => "SigVersion" | PE_CredMalformed => "CredMalformed"
  | PE_InvalidQueryParams => "InvalidQueryParams" | PE_IncorrService => "IncorrService" | PE_TerminationStr => "TerminationStr"
  | PE_DateMismatch => "DateMismatch"
  end.
Definition parse_auth_ok (c : string * pa_obs) : bool :=
  match parse_authorization (fst c), snd c with
  | PA_ok_ d, PA_ok a r sh sg dt =>
      String.eqb (a_access d) a && String.eqb (a_region d) r && String.eqb (a_signed d) sh && String.eqb (a_sig d) sg && String.eqb (a_date d) dt
  | PA_err_ e, PA_err n => String.eqb (pa_err_name e) n
  | _, _ => false
  end.

(* T3: one request on the real gateway: the facts the harness knows about what it sent, and the observed refusal code
   ("" when the request was not refused by the authentication chain) *)
Record ccase := { c_facts : facts; c_method : string; c_path : string; c_qkeys : list string; c_copysrc : string; c_code : string }.
Definition chain_ok (c : ccase) : bool :=
  let f := c_facts c in
  let f' := {| f_auth := f_auth f; f_cfg_region := f_cfg_region f; f_account_exists := f_account_exists f;
               f_xdate_present := f_xdate_present f; f_xdate_wellformed := f_xdate_wellformed f; f_xdate_day := f_xdate_day f;
               f_skew := f_skew f; f_bigdata := is_big_data (c_method c) (c_path c) (c_qkeys c) (c_copysrc c);
               f_special_payload := f_special_payload f; f_hash_matches := f_hash_matches f; f_sig_ok := f_sig_ok f |} in
  match chain f' with
  | Pass => String.eqb (c_code c) ""
            (* a streaming PUT that passed the chain is still refused at the end of its body when the payload hash differs (C06) *)
            || (f_bigdata f' && negb (f_hash_matches f') && negb (f_special_payload f') && String.eqb (c_code c) "XAmzContentSHA256Mismatch")
  | Refuse code => String.eqb (c_code c) code
  end.
