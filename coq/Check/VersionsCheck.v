(* numeric rendering of the version machine's answers (compared with the gateway's by props/c09.py) *)
From Coq Require Import List ZArith Bool.
From VGW Require Import Model.Versions.
Import ListNotations.
Open Scope Z_scope.

Definition enc_vid (i : vid) : Z := match i with None => -1 | Some n => Z.of_nat n end.
Definition enc_b (b : bool) : Z := if b then 1 else 0.
Definition enc_err (e : err) : Z := match e with NoSuchKey => 1 | NoSuchVersion => 2 | MethodNotAllowed => 3 end.
Definition enc_out (o : out) : list Z :=
  match o with
  | O_ok => [1]
  | O_put None => [2; 0]
  | O_put (Some i) => [2; 1; enc_vid i]
  | O_deleted None => [3; 0]
  | O_deleted (Some i) => [3; 1; enc_vid i]
  | O_delver m => [4; enc_b m]
  | O_err e m => [0; enc_err e; enc_b m]
  | O_obj b me i => [5; Z.of_nat b; Z.of_nat me; enc_vid i]
  | O_list l => 6 :: flat_map (fun kv => match snd kv with [] => [] | _ =>
                   Z.of_nat (fst kv) :: Z.of_nat (length (snd kv)) ::
                   flat_map (fun e => match e with (i, m, b, lt) => [enc_vid i; enc_b m; Z.of_nat b; enc_b lt] end) (snd kv) end) l
  end.
Definition run_enc (ops : list op) : list (list Z) := map enc_out (snd (run init ops)).
