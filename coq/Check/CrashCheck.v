(* predicted state after a kill (props/c11.py): kind 0 = DeleteObject, 1 = a write; the key held write 1 (existing) or
   nothing; the new write is 2; k = number of filesystem steps completed.  Result: 1 / 2 / 0 (missing) *)
From Coq Require Import List Arith Bool ZArith.
From VGW Require Import Model.Crash.
Import ListNotations.

Definition enc (v : option nat) : Z := match v with Some b => Z.of_nat b | None => 0 end.
Definition start (existing : bool) : dstate := {| dentry := if existing then Some 1 else None; leftovers := []; bucket_exists := true |}.
Definition predict (kind : nat) (existing : bool) (k : nat) : Z :=
  enc (visible (exec_killed (start existing) (match kind with 0 => Delete | _ => Write OTmpFile 2 end) k)).
Definition case_ok (c : nat * bool * nat * Z) : bool := match c with (kind, ex, k, z) => Z.eqb (predict kind ex k) z end.
