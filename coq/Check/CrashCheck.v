(* predicted state after a kill (props/c11.py): kind 0 = DeleteObject, 1 = a write; the key held write 1 (existing) or
   nothing; the new write is 2; k = number of filesystem steps completed.  Result: 1 / 2 / 0 (missing) *)
From Coq Require Import List Arith Bool ZArith.
From VGW Require Import Model.Crash.
Import ListNotations.

Definition enc (v : option nat) : Z := match v with Some b => Z.of_nat b | None => 0 end.
Definition start (existing : bool) : dstate := {| dentry := if existing then Some 1 else None; leftovers := []; bucket_exists := true |}.
Definition predict (kind : nat) (existing : bool) (k : nat) : Z :=
  enc (visible (exec_killed (start existing) (match kind with 0 => Delete | _ => Write OTmpFile 2 end) k)).
Definition case_ok (c : nat * bool * nat * Z) : bool := match c with (kind, ex, k, z) => Z.eqb (predict kind ex k) z end.

(* DeleteObject in a versioning-enabled bucket (Model/CrashVersions.v): the key held version 1 with data 7, the marker's id is 2;
   k = number of steps completed; observed: does the key still read the old data, is version 1 still shown with its data *)
From VGW Require Import Model.CrashVersions.
Definition vstart : vstate := {| current := {| c_data := 7; c_vid := 1; c_marker := false |}; archive := [] |}.
Definition vcase_ok (c : nat * bool * bool) : bool :=
  match c with (k, reads_old, listed) =>
    let s' := run_killed (delete_steps 2) vstart k in
    Bool.eqb reads_old (match reads s' with Some 7 => true | _ => false end) &&
    Bool.eqb listed (existsb (fun e => Nat.eqb (fst e) 1 && Nat.eqb (snd e) 7) (shown s'))
  end.

(* a directory-object upload killed after its n-th attribute write (Model/CrashDirObj.v): the directory held the user metadata
   {1:10, 2:20, 3:30} (existing) or was no object; the upload carries {1:11, 4:40, 3:31}. Class: 0 nothing listed, 1 the old state,
   2 the new state, 9 neither *)
From VGW Require Import Model.CrashDirObj.
Definition d_old : list (nat * nat) := [(1, 10); (2, 20); (3, 30)].
Definition d_new : list (nat * nat) := [(1, 11); (4, 40); (3, 31)].
Definition dclass (existing : bool) (n : nat) : nat :=
  let s0 := if existing then {| is_object := true; umeta := d_old |} else {| is_object := false; umeta := [] |} in
  match shows (killed_after s0 d_new n) with
  | None => 0
  | Some m => if same_meta m d_new then 2 else if same_meta m d_old then 1 else 9
  end.
Definition dcase_ok (c : bool * nat * nat) : bool := match c with (ex, n, cl) => Nat.eqb (dclass ex n) cl end.

(* DeleteObject ?versionId=<current> killed after k steps (Model/CrashPromote.v): the key held version 2 (data 8, current) and
   version 1 (data 7); observed: what a GET of the key reads (2 = the data of version 2, 1 = that of version 1, 0 = nothing, 9 = anything else) and how many entries
   ListObjectVersions shows for the key *)
From VGW Require Import Model.CrashPromote.
Definition pstart : pstate := {| pcurrent := Some {| p_data := 8; p_vid := 2; p_attrs := true |}; parchive := [(1, 7)] |}.
Definition pcase_ok (c : nat * nat * nat) : bool :=
  match c with (k, rd, nlisted) =>
    let s' := prun_killed (promote_steps pstart) pstart k in
    Nat.eqb rd (match preads s' with Some 8 => 2 | Some 7 => 1 | None => 0 | _ => 9 end) &&
    Nat.eqb nlisted (length (pshown s'))
  end.
