(* Table obligation for C05 / C11 over Gen/LinkCalls.v (regenerated from backend/posix/posix.go on every run): a temporary file is
   published by one call of link(), which also closes its descriptor (with_otmpfile.go). A function that called it a second time
   on the same file would publish through a descriptor number that may by then belong to another request's file (the table is keyed
   "function:variable": one function may publish two different files on two of its paths, as DeleteObject does). The model
   (Model/Publish.v, Model/Crash.v) has exactly one publishing step per write; this is the corresponding fact about the source. *)
From Coq Require Import String List Bool Arith.
From VGW Require Import Base.GoStr Gen.LinkCalls.
Import ListNotations.
Open Scope string_scope.

Definition publishers : list string := ["PutObject"; "CompleteMultipartUpload"; "UploadPart"; "UploadPartCopy"; "createObjVersion"].

Definition link_once (t : list (string * list nat)) : bool :=
  forallb (fun e => Nat.eqb (List.length (snd e)) 1) t &&
  forallb (fun p => existsb (fun e => has_prefix (fst e) (p ++ ":")) t) publishers.

Definition link_bad (t : list (string * list nat)) : list (string * list nat) :=
  filter (fun e => negb (Nat.eqb (List.length (snd e)) 1)) t.
