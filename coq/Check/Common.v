(* helpers shared by the generated case files *)
From Coq Require Import String List ZArith Bool.
Import ListNotations.

Fixpoint bad_from {A} (f : A -> bool) (l : list A) (i : nat) : list nat :=
  match l with
  | [] => []
  | x :: r => if f x then bad_from f r (S i) else i :: bad_from f r (S i)
  end.
(* indices of the cases on which the boolean check fails *)
Definition bad {A} (f : A -> bool) (l : list A) : list nat := bad_from f l 0.

Definition zlist_mem (x : Z) (l : list Z) : bool := existsb (Z.eqb x) l.
