From Coq Require Import String List ZArith Bool Arith.
From VGW Require Import Base.GoStr Model.Paging Check.Common.
Import ListNotations.
Open Scope string_scope.

Fixpoint strs_eqb (a b : list string) : bool :=
  match a, b with [], [] => true | x :: a', y :: b' => String.eqb x y && strs_eqb a' b' | _, _ => false end.

(* ListBuckets on the real gateway: observed None = refused (400), Some (names, token) *)
Record lbcase := { lb_fis : list (string * option string); lb_prefix : string; lb_token : string; lb_owner : string; lb_admin : bool;
                   lb_max : string; lb_obs : option (list string * string) }.
Definition lb_ok (c : lbcase) : bool :=
  match list_buckets (lb_fis c) (lb_prefix c) (lb_token c) (lb_owner c) (lb_admin c) (lb_max c), lb_obs c with
  | None, None => true
  | Some (Ok_ (names, tok)), Some (onames, otok) => strs_eqb names onames && String.eqb tok otok
  | _, _ => false
  end.

Fixpoint pairs_eqb (a b : list (string * string)) : bool :=
  match a, b with
  | [], [] => true
  | (x1, x2) :: a', (y1, y2) :: b' => String.eqb x1 y1 && String.eqb x2 y2 && pairs_eqb a' b'
  | _, _ => false
  end.
Record lucase := { lu_sorted : list (string * string); lu_km : string; lu_im : string; lu_found : bool; lu_max : nat;
                   lu_obs : list (string * string) * bool * (string * string) }.
Definition lu_ok (c : lucase) : bool :=
  match list_uploads (lu_sorted c) (lu_km c) (lu_im c) (lu_found c) (lu_max c), lu_obs c with
  | Ok_ (page, tr, (nk, ni)), (opage, otr, (onk, oni)) =>
      pairs_eqb page opage && Bool.eqb tr otr && String.eqb nk onk && String.eqb ni oni
  | Panic_, _ => false
  end.
