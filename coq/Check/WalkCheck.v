(* Correspondence and Spec evaluation for C07 on case files written by the harness. *)
From Coq Require Import String Ascii List Arith Bool.
From VGW Require Import Base.GoStr Model.Walk Model.ListApi Spec.ListSpec Check.Common.
Import ListNotations.
Open Scope string_scope.

Definition skipdirs := [".sgwtmp"].

Fixpoint strs_eqb (a b : list string) : bool :=
  match a, b with
  | [], [] => true
  | x :: a', y :: b' => String.eqb x y && strs_eqb a' b'
  | _, _ => false
  end.

Definition result_eqb (x y : result) : bool :=
  strs_eqb (r_objs x) (r_objs y) && strs_eqb (r_cps x) (r_cps y) && Bool.eqb (r_trunc x) (r_trunc y)
  && String.eqb (r_next x) (r_next y).

(* one call of backend.Walk: observed None = error *)
Record wcase := { w_tree : tree; w_prefix : string; w_delim : string; w_marker : string; w_max : nat;
                  w_obs : option result }.

Definition walk_ok (c : wcase) : bool :=
  match walk (w_tree c) (w_prefix c) (w_delim c) (w_marker c) (w_max c) skipdirs true, w_obs c with
  | Some m, Some o => result_eqb m o
  | None, None => true
  | _, _ => false
  end.

Definition sorted_keys (t : tree) : list string := sort_strs (bucket_keys t skipdirs).

(* R3: the page itself against the S3 listing rule. Entries must be exactly the rule's; when entries remain the
   page must be flagged truncated with its last entry as next marker; when none remain, a page that is full may
   still be flagged truncated (S3 itself may answer with a final empty page) as long as the marker is its last entry *)
Definition page_ok (t : tree) (prefix delim marker : string) (max : nat) (o : result) : bool :=
  let sp := s3_list (sorted_keys t) prefix delim marker max in
  let es := firstn max (entries_after (sorted_keys t) prefix delim marker) in
  strs_eqb (r_objs o) (r_objs sp) && strs_eqb (r_cps o) (r_cps sp) &&
  (if r_trunc sp then r_trunc o && String.eqb (r_next o) (r_next sp)
   else (negb (r_trunc o) && String.eqb (r_next o) "")
        || (r_trunc o && Nat.eqb (List.length es) max && String.eqb (r_next o) (etext (last es (EObj "")))
            && negb (Nat.eqb max 0))).

Definition page_spec_ok (c : wcase) : bool :=
  match w_obs c with
  | Some o => page_ok (w_tree c) (w_prefix c) (w_delim c) (w_marker c) (w_max c) o
  | None => false
  end.

(* R3: following the markers from the start: terminates, every entry exactly once, in order *)
Record pcase := { p_tree : tree; p_prefix : string; p_delim : string; p_max : nat;
                  p_pages : list result; p_finished : bool }.

Definition pages_spec_ok (c : pcase) : bool :=
  let all := entries_after (sorted_keys (p_tree c)) (p_prefix c) (p_delim c) "" in
  p_finished c
  && strs_eqb (flat_map r_objs (p_pages c)) (objs_of all)
  && strs_eqb (flat_map r_cps (p_pages c)) (cps_of all)
  && forallb (fun r => Nat.leb (List.length (r_objs r) + List.length (r_cps r)) (p_max c)) (p_pages c).

(* classifier support: is the tree's walk order the key order? *)
Definition order_compatible (t : tree) : bool := sorted_b (bucket_keys t skipdirs).

(* T3: a ListObjects (V1) / ListObjectsV2 request against the real gateway *)
Inductive lobs := LBadMax | LErr | LOk (r : result).
Record lcase := { l_tree : tree; l_v2 : bool; l_prefix : string; l_delim : string; l_marker : string;
                  l_start_after : string; l_maxkeys : string; l_obs : lobs }.

Definition list_ok (c : lcase) : bool :=
  let m := if l_v2 c then list_v2 (l_tree c) (l_prefix c) (l_delim c) (l_marker c) (l_start_after c) (l_maxkeys c)
           else list_v1 (l_tree c) (l_prefix c) (l_delim c) (l_marker c) (l_maxkeys c) in
  match m, l_obs c with
  | None, LBadMax => true
  | Some None, LErr => true
  | Some (Some r), LOk o => result_eqb r o
  | _, _ => false
  end.

(* R3 on the HTTP observation: max-keys must be a non-negative integer (clamped to 1000), the listing starts after
   the later of continuation token and start-after, and the page obeys the S3 rule *)
Definition list_spec_ok (c : lcase) : bool :=
  match parse_uint (l_maxkeys c), l_obs c with
  | None, LBadMax => true
  | Some mx, LOk o =>
      let mk := if l_v2 c then (if str_ltb (l_marker c) (l_start_after c) then l_start_after c else l_marker c)
                else l_marker c in
      page_ok (l_tree c) (l_prefix c) (l_delim c) mk mx o
  | _, _ => false
  end.
