(* unit correspondence cases for Model.Lock: states are named as the harness generates them *)
From Coq Require Import String List Bool.
From VGW Require Import Base.GoStr Model.Lock.
Import ListNotations.
Open Scope string_scope.

Definition cfg_of (s : string) : bucket_cfg :=
  if String.eqb s "none" then C_none else if String.eqb s "disabled" then C_disabled else
  if String.eqb s "enabled" then C_enabled None else
  if String.eqb s "default-gov-active" then C_enabled (Some (Governance, true)) else
  if String.eqb s "default-comp-active" then C_enabled (Some (Compliance, true)) else
  if String.eqb s "default-gov-expired" then C_enabled (Some (Governance, false)) else C_enabled (Some (Compliance, false)).
Definition ret_of (s : string) : ret_lookup :=
  if String.eqb s "nokey" then R_nokey else if String.eqb s "none" then R_none else
  if String.eqb s "gov-active" then R_some (Some Governance) true else if String.eqb s "gov-expired" then R_some (Some Governance) false else
  if String.eqb s "comp-active" then R_some (Some Compliance) true else if String.eqb s "comp-expired" then R_some (Some Compliance) false else R_some None false.
Definition hold_of (s : string) : hold_lookup :=
  if String.eqb s "nokey" then H_nokey else if String.eqb s "none" then H_none else H_some (String.eqb s "on").
Definition existing_of (s : string) : option mode :=
  if String.eqb s "none" then None else if has_prefix s "gov" then Some Governance else Some Compliance.

Inductive ucase :=
| LC (cfg : string) (objs : list (string * string)) (bypass : bool) (policy : string) (result : string)
| PR (existing : string) (bypass : bool) (result : string).

Definition ucase_ok (c : ucase) : bool :=
  match c with
  | LC cfg objs bypass pol res =>
      let v := check_object_access (cfg_of cfg) (map (fun o => (ret_of (fst o), hold_of (snd o))) objs) bypass (String.eqb pol "grants") in
      String.eqb res (match v with Allow => "allow" | Locked => "locked" end)
  | PR ex bypass res => String.eqb res (if put_retention_allowed (existing_of ex) bypass then "stored" else "refused")
  end.
