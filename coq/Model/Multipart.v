(* Model of the multipart upload machinery of the posix backend (backend/posix/posix.go CreateMultipartUpload, UploadPart,
   UploadPartCopy, ListParts, ListMultipartUploads, CompleteMultipartUpload, AbortMultipartUpload; backend/common.go
   ParseCopySourceRange, GetMultipartMD5) together with the controller's part-number guard, run sequentially on one bucket.

   Keys, upload ids and metadata sets are numbers (the harness maps them to strings / header sets; upload ids are the ones the
   implementation handed out).  Object and part contents are symbolic: a list of pieces (base blob, offset, length) of
   harness-chosen base blobs, so that a copied range is a slice and a completed object is a concatenation.  An ETag is the
   digest "of" a symbolic content: ES d for a plain MD5, EM [d1..dn] for the S3 multipart ETag (md5 of the part md5s, "-n");
   two plain ETags are equal iff the contents have the same canonical form (the harness uses random base blobs and parts of at
   least 16 bytes, so equal digests mean equal bytes). *)
From Coq Require Import String Ascii List ZArith Bool Lia.
From VGW Require Import Base.GoStr.
Import ListNotations.
Open Scope string_scope.
Open Scope Z_scope.

Definition piece := (nat * Z * Z)%type.
Definition data := list piece.

Definition plen (p : piece) : Z := snd p.
Fixpoint dlen (d : data) : Z := match d with [] => 0 | p :: r => plen p + dlen r end.

(* bytes [off, off+len) of d *)
Fixpoint dslice (d : data) (off len : Z) : data :=
  match d with
  | [] => []
  | (c, o, l) :: r =>
      if len <=? 0 then [] else
      if l <=? off then dslice r (off - l) len
      else let take := Z.min (l - off) len in (c, o + off, take) :: dslice r 0 (len - take)
  end.

(* canonical form: empty pieces dropped, adjacent pieces of one base blob merged *)
Fixpoint dnorm (d : data) : data :=
  match d with
  | [] => []
  | (c, o, l) :: r =>
      if l <=? 0 then dnorm r else
      match dnorm r with
      | (c', o', l') :: r' => if (Nat.eqb c c' && (o + l =? o'))%bool then (c, o, l + l') :: r' else (c, o, l) :: (c', o', l') :: r'
      | [] => [(c, o, l)]
      end
  end.
Definition piece_eqb (a b : piece) : bool :=
  match a, b with (c, o, l), (c', o', l') => (Nat.eqb c c' && (o =? o') && (l =? l'))%bool end.
Fixpoint pieces_eqb (a b : data) : bool :=
  match a, b with
  | [], [] => true
  | x :: r, y :: s => (piece_eqb x y && pieces_eqb r s)%bool
  | _, _ => false
  end.
Definition data_eqb (a b : data) : bool := pieces_eqb (dnorm a) (dnorm b).

(* backend.ParseCopySourceRange *)
Inductive crange := CR (start len : Z) | CR_invalid | CR_exceeds.
Definition parse_copy_source_range (size : Z) (hdr : string) : crange :=
  if String.eqb hdr "" then CR 0 size else
  match split_char "=" hdr with
  | [u; r] =>
      if negb (String.eqb u "bytes") then CR_invalid else
      match split_char "-" r with
      | [a; b] =>
          match parse_int10 a with
          | None => CR_invalid
          | Some s =>
              if size <=? s then CR_exceeds else
              if String.eqb b "" then CR s (size - s) else
              match parse_int10 b with
              | None => CR_invalid
              | Some e => if e <? s then CR_invalid else if size <=? e then CR_exceeds else CR s (e - s + 1)
              end
          end
      | _ => CR_invalid
      end
  | _ => CR_invalid
  end.

Inductive etag := ES (d : data) | EM (ds : list data).
Record upload := { u_key : nat; u_meta : nat; u_parts : list (Z * data) }.   (* parts kept in part-number order *)
Record obj := { o_data : data; o_etag : etag; o_meta : nat }.
Record st := { objs : list (nat * obj); ups : list (nat * upload) }.
Definition init : st := {| objs := []; ups := [] |}.

Fixpoint nfind {A} (l : list (nat * A)) (k : nat) : option A :=
  match l with [] => None | (j, v) :: r => if Nat.eqb j k then Some v else nfind r k end.
Fixpoint ndel {A} (l : list (nat * A)) (k : nat) : list (nat * A) :=
  match l with [] => [] | (j, v) :: r => if Nat.eqb j k then ndel r k else (j, v) :: ndel r k end.
Definition nput {A} (l : list (nat * A)) (k : nat) (v : A) : list (nat * A) := (k, v) :: ndel l k.

Fixpoint zfind {A} (l : list (Z * A)) (k : Z) : option A :=
  match l with [] => None | (j, v) :: r => if j =? k then Some v else zfind r k end.
(* insert or replace, keeping the list ordered by part number *)
Fixpoint zput {A} (l : list (Z * A)) (k : Z) (v : A) : list (Z * A) :=
  match l with
  | [] => [(k, v)]
  | (j, w) :: r => if j =? k then (k, v) :: r else if k <? j then (k, v) :: (j, w) :: r else (j, w) :: zput r k v
  end.

Inductive err := NoSuchUpload | InvalidPart | InvalidPartOrder | EntityTooSmall | InvalidArgument | InvalidRequest | NoSuchKey.

Inductive op :=
| Put (k : nat) (d : data) (m : nat)
| Create (k m uid : nat)
| UploadPart (k uid : nat) (n : Z) (d : data)
| UploadPartCopy (k uid : nat) (n : Z) (src : nat) (range : string)
| ListParts (k uid : nat) (marker max : Z)
| ListUploads
| Complete (k uid : nat) (parts : list (Z * option data)) (osz : option Z)
| Abort (k uid : nat)
| Get (k : nat)
| ListObjects.

Inductive out :=
| O_ok
| O_err (e : err)
| O_part (d : data)
| O_parts (l : list (Z * data)) (trunc : bool) (next : Z)
| O_uploads (l : list (nat * nat))
| O_complete (ds : list data)
| O_get (d : data) (e : etag) (m : nat)
| O_keys (l : list nat).

Definition min_part_size : Z := 5242880.

(* the upload <uid> of key <k>: the parts directory is <sha256(key)>/<uid>, so an id presented with another key is unknown *)
Definition find_up (s : st) (k uid : nat) : option upload :=
  match nfind (ups s) uid with
  | Some u => if Nat.eqb (u_key u) k then Some u else None
  | None => None
  end.

Definition set_parts (u : upload) (ps : list (Z * data)) : upload := {| u_key := u_key u; u_meta := u_meta u; u_parts := ps |}.

(* the validation loop of CompleteMultipartUpload: Some data list, or the error it stops with *)
Fixpoint check_parts (stored : list (Z * data)) (listed : list (Z * option data)) (prev : Z) : err + list data :=
  match listed with
  | [] => inr []
  | (n, claim) :: rest =>
      if n <? 1 then inl InvalidArgument else
      if n <=? prev then inl InvalidPartOrder else
      match zfind stored n with
      | None => inl InvalidPart
      | Some d =>
          if (match rest with [] => false | _ => dlen d <? min_part_size end) then inl EntityTooSmall else
          if negb (match claim with Some c => data_eqb c d | None => false end) then inl InvalidPart else
          match check_parts stored rest n with
          | inl e => inl e
          | inr ds => inr (d :: ds)
          end
      end
  end.

Fixpoint take_parts (n : nat) (l : list (Z * data)) : list (Z * data) :=
  match n, l with S m, x :: r => x :: take_parts m r | _, _ => [] end.

Definition step (s : st) (o : op) : st * out :=
  match o with
  | Put k d m => ({| objs := nput (objs s) k {| o_data := d; o_etag := ES d; o_meta := m |}; ups := ups s |}, O_ok)
  | Create k m uid =>
      ({| objs := objs s; ups := nput (ups s) uid {| u_key := k; u_meta := m; u_parts := [] |} |}, O_ok)
  | UploadPart k uid n d =>
      if ((n <? 1) || (10000 <? n))%bool then (s, O_err InvalidArgument) else
      match find_up s k uid with
      | None => (s, O_err NoSuchUpload)
      | Some u => ({| objs := objs s; ups := nput (ups s) uid (set_parts u (zput (u_parts u) n d)) |}, O_part d)
      end
  | UploadPartCopy k uid n src range =>
      if ((n <? 1) || (10000 <? n))%bool then (s, O_err InvalidArgument) else
      match find_up s k uid with
      | None => (s, O_err NoSuchUpload)
      | Some u =>
          match nfind (objs s) src with
          | None => (s, O_err NoSuchKey)
          | Some so =>
              match parse_copy_source_range (dlen (o_data so)) range with
              | CR a l => let d := dslice (o_data so) a l in
                          ({| objs := objs s; ups := nput (ups s) uid (set_parts u (zput (u_parts u) n d)) |}, O_part d)
              | _ => (s, O_err InvalidArgument)
              end
          end
      end
  | ListParts k uid marker max =>
      match find_up s k uid with
      | None => (s, O_err NoSuchUpload)
      | Some u =>
          let after := filter (fun p => marker <? fst p) (u_parts u) in
          let page := if (0 <? max) then take_parts (Z.to_nat max) after else after in
          (s, O_parts page (negb (Nat.eqb (length page) (length after))) (match rev page with (n, _) :: _ => n | [] => 0 end))
      end
  | ListUploads => (s, O_uploads (map (fun x => (u_key (snd x), fst x)) (ups s)))
  | Complete k uid parts osz =>
      match parts with [] => (s, O_err InvalidRequest) | _ =>      (* the controller refuses an empty part list first *)
      match find_up s k uid with
      | None => (s, O_err NoSuchUpload)
      | Some u =>
          match check_parts (u_parts u) parts 0 with
          | inl e => (s, O_err e)
          | inr ds =>
              if (match osz with Some z => negb (z =? dlen (concat ds)) | None => false end) then (s, O_err InvalidRequest) else
              ({| objs := nput (objs s) k {| o_data := concat ds; o_etag := EM ds; o_meta := u_meta u |}; ups := ndel (ups s) uid |},
               O_complete ds)
          end
      end
      end
  | Abort k uid =>
      match find_up s k uid with
      | None => (s, O_err NoSuchUpload)
      | Some _ => ({| objs := objs s; ups := ndel (ups s) uid |}, O_ok)
      end
  | Get k =>
      match nfind (objs s) k with
      | None => (s, O_err NoSuchKey)
      | Some ob => (s, O_get (o_data ob) (o_etag ob) (o_meta ob))
      end
  | ListObjects => (s, O_keys (map fst (objs s)))
  end.

Fixpoint run (s : st) (ops : list op) : st * list out :=
  match ops with
  | [] => (s, [])
  | o :: r => let '(s1, x) := step s o in let '(s2, xs) := run s1 r in (s2, x :: xs)
  end.
