(* Model of the authentication middlewares (s3api/middlewares/authentication.go, presign-auth.go) and of
   utils.ParseAuthorization (s3api/utils/auth-reader.go). The SigV4 canonicalisation and HMAC comparison of the vendored
   signer is an oracle (sig_ok), validated by the harness's independent signer, not modelled.
   Transcribes the code after the fix: commit recorded in KNOWN_FINDINGS.txt (the signature is verified before dispatch
   for streaming PUTs too; only the payload-hash comparison waits for the end of the body). *)
From Coq Require Import String Ascii List ZArith Bool Arith.
From VGW Require Import Base.GoStr.
Import ListNotations.
Open Scope string_scope.

(* ---------- utils.ParseAuthorization ---------- *)
Inductive pa_err := PE_MissingFields | PE_SigVersion | PE_CredMalformed | PE_InvalidQueryParams | PE_IncorrService
                  | PE_TerminationStr | PE_DateMismatch.
Record auth_data := { a_access : string; a_region : string; a_signed : string; a_sig : string; a_date : string }.
Inductive pa_res := PA_ok_ (d : auth_data) | PA_err_ (e : pa_err).

Definition is_space_ascii (c : ascii) : bool :=
  let n := nat_of_ascii c in Nat.eqb n 32 || (Nat.leb 9 n && Nat.leb n 13).
Fixpoint remove_space (s : string) : string :=
  match s with EmptyString => EmptyString | String c r => if is_space_ascii c then remove_space r else String c (remove_space r) end.
Fixpoint trim_left (s : string) : string :=
  match s with String c r => if is_space_ascii c then trim_left r else s | EmptyString => EmptyString end.
Fixpoint rev_string (s acc : string) : string := match s with EmptyString => acc | String c r => rev_string r (String c acc) end.
Definition trim_space (s : string) : string := rev_string (trim_left (rev_string (trim_left s) "")) "".

(* strings.SplitN(s, " ", 2) *)
Definition splitn2_space (s : string) : list string :=
  match str_cut s " " with (a, b, true) => [a; b] | _ => [s] end.

Definition is_digit (c : ascii) : bool := let n := nat_of_ascii c in Nat.leb 48 n && Nat.leb n 57.
Definition dval (c : ascii) : nat := nat_of_ascii c - 48.
(* time.Parse("20060102", s) succeeds *)
Definition valid_yyyymmdd (s : string) : bool :=
  match s with
  | String y1 (String y2 (String y3 (String y4 (String m1 (String m2 (String d1 (String d2 EmptyString))))))) =>
      forallb is_digit [y1; y2; y3; y4; m1; m2; d1; d2] &&
      (let y := dval y1 * 1000 + dval y2 * 100 + dval y3 * 10 + dval y4 in
       let m := dval m1 * 10 + dval m2 in
       let d := dval d1 * 10 + dval d2 in
       let leap := (Nat.eqb (y mod 4) 0 && negb (Nat.eqb (y mod 100) 0)) || Nat.eqb (y mod 400) 0 in
       let dim := match m with 1 | 3 | 5 | 7 | 8 | 10 | 12 => 31 | 4 | 6 | 9 | 11 => 30 | 2 => if leap then 29 else 28 | _ => 0 end in
       Nat.leb 1 m && Nat.leb m 12 && Nat.leb 1 d && Nat.leb d dim)
  | _ => false
  end.

Fixpoint kv_loop (kvs : list string) (d : auth_data) : pa_res :=
  match kvs with
  | [] => PA_ok_ d
  | kv :: rest =>
      match split_char "=" kv with
      | [k; v] =>
          let key := trim_space k in
          let value := trim_space v in
          if String.eqb key "Credential" then
            match split_char "/" value with
            | [c0; c1; c2; c3; c4] =>
                if negb (String.eqb c3 "s3") then PA_err_ PE_IncorrService
                else if negb (String.eqb c4 "aws4_request") then PA_err_ PE_TerminationStr
                else if negb (valid_yyyymmdd c1) then PA_err_ PE_DateMismatch
                else kv_loop rest {| a_access := c0; a_region := c2; a_signed := a_signed d; a_sig := a_sig d; a_date := c1 |}
            | _ => PA_err_ PE_CredMalformed
            end
          else if String.eqb key "SignedHeaders" then
            kv_loop rest {| a_access := a_access d; a_region := a_region d; a_signed := value; a_sig := a_sig d; a_date := a_date d |}
          else if String.eqb key "Signature" then
            kv_loop rest {| a_access := a_access d; a_region := a_region d; a_signed := a_signed d; a_sig := value; a_date := a_date d |}
          else kv_loop rest d
      | _ =>
          if has_prefix kv "Credential" then PA_err_ PE_CredMalformed
          else if has_prefix kv "SignedHeaders" then PA_err_ PE_InvalidQueryParams
          else PA_err_ PE_MissingFields
      end
  end.

Definition parse_authorization (authorization : string) : pa_res :=
  match map (fun el => if str_contains el " " then remove_space el else el) (splitn2_space authorization) with
  | [algo; kvdata] =>
      if negb (String.eqb algo "AWS4-HMAC-SHA256") then PA_err_ PE_SigVersion else
      let kvs := split_char "," kvdata in
      if Nat.ltb (List.length kvs) 3 then PA_err_ PE_MissingFields else
      kv_loop kvs {| a_access := ""; a_region := ""; a_signed := ""; a_sig := ""; a_date := "" |}
  | _ => PA_err_ PE_MissingFields
  end.

(* utils.IsBigDataAction: an object-level PUT (non-empty key) that carries object data *)
Definition is_big_data (method path : string) (query_keys : list string) (copy_source : string) : bool :=
  let parts := split_char "/" path in
  String.eqb method "PUT" && Nat.leb 3 (List.length parts) && negb (String.eqb (nth 2 parts "") "")
  && negb (existsb (String.eqb "tagging") query_keys) && String.eqb copy_source ""
  && negb (existsb (String.eqb "acl") query_keys) && negb (existsb (String.eqb "retention") query_keys)
  && negb (existsb (String.eqb "legal-hold") query_keys).

(* ---------- the middleware chain (header authentication) ---------- *)
Inductive verdict := Pass | Refuse (code : string).

Record facts := {
  f_auth : string;                 (* Authorization header, "" when absent *)
  f_cfg_region : string;
  f_account_exists : bool;         (* for the access key of the parsed credential *)
  f_xdate_present : bool; f_xdate_wellformed : bool;
  f_xdate_day : string;            (* first 8 characters of X-Amz-Date *)
  f_skew : Z;                      (* X-Amz-Date minus now, seconds *)
  f_bigdata : bool;                (* utils.IsBigDataAction: object-level PUT carrying data *)
  f_special_payload : bool;        (* x-amz-content-sha256 is UNSIGNED-PAYLOAD or a STREAMING-* value *)
  f_hash_matches : bool;           (* declared payload hash = SHA-256 of the body (evaluated at once for buffered requests) *)
  f_sig_ok : bool                  (* oracle: CheckValidSignature with the account's secret *)
}.

(* the S3 error codes of s3err for these errors *)
Definition pa_code (e : pa_err) : string :=
  match e with
  | PE_MissingFields => "MissingFields" | PE_SigVersion => "InvalidRequest"
  | PE_CredMalformed => "AuthorizationQueryParametersError" | PE_InvalidQueryParams => "AuthorizationQueryParametersError"
  | PE_IncorrService => "SignatureDoesNotMatch" | PE_TerminationStr => "SignatureDoesNotMatch"
  | PE_DateMismatch => "SignatureDoesNotMatch"
  end.

Definition chain (f : facts) : verdict :=
  if String.eqb (f_auth f) "" then Refuse "InvalidArgument" else
  match parse_authorization (f_auth f) with
  | PA_err_ e => Refuse (pa_code e)
  | PA_ok_ d =>
      if negb (String.eqb (a_region d) (f_cfg_region f)) then Refuse "SignatureDoesNotMatch" else
      if negb (f_account_exists f) then Refuse "InvalidAccessKeyId" else
      if negb (f_xdate_present f) then Refuse "AccessDenied" else
      if negb (f_xdate_wellformed f) then Refuse "MalformedDate" else
      if negb (String.eqb (f_xdate_day f) (a_date d)) then Refuse "SignatureDoesNotMatch" else
      if (900 <? f_skew f)%Z || (f_skew f <? -900)%Z then Refuse "RequestTimeTooSkewed" else
      if f_bigdata f then
        (* the signature does not depend on the body: verified before dispatch; the payload hash waits for EOF (C06) *)
        if negb (f_sig_ok f) then Refuse "SignatureDoesNotMatch" else Pass
      else
        if negb (f_special_payload f) && negb (f_hash_matches f) then Refuse "XAmzContentSHA256Mismatch" else
        if negb (f_sig_ok f) then Refuse "SignatureDoesNotMatch" else Pass
  end.

(* what "a correct SigV4 proof for an existing account" means for a header-authenticated request *)
Definition valid_proof (f : facts) : Prop :=
  exists d, parse_authorization (f_auth f) = PA_ok_ d /\ f_auth f <> "" /\
    a_region d = f_cfg_region f /\ f_account_exists f = true /\
    f_xdate_present f = true /\ f_xdate_wellformed f = true /\ f_xdate_day f = a_date d /\
    (-900 <= f_skew f <= 900)%Z /\
    f_sig_ok f = true /\
    (f_bigdata f = true \/ f_special_payload f = true \/ f_hash_matches f = true).
