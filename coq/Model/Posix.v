(* A directory-tree model of the posix backend run sequentially (backend/posix/posix.go: CreateBucket, PutObject incl.
   directory objects, MkdirAll / ObjectParentIsFile / ExistingObjectIsDirectory, GetObject incl. implicit directories,
   DeleteObject with removeParents and the etag-attribute rule for non-empty directory objects, ListObjectsV2 through the
   Walk model), with the URL-decoder's name validation in front. Data are symbolic blob ids; ETags are symbols the harness
   resolves to MD5 digests. *)
From Coq Require Import String Ascii List Arith Bool ZArith.
From VGW Require Import Base.GoStr Model.Walk Model.Paths.
Import ListNotations.
Open Scope string_scope.

Definition attrs := list (string * string).
Inductive node := NF (blob : nat) (a : attrs) | ND (a : attrs) (kids : list (string * node)).

Fixpoint aget (a : attrs) (k : string) : option string :=
  match a with [] => None | (j, v) :: r => if String.eqb j k then Some v else aget r k end.
Fixpoint adel (a : attrs) (k : string) : attrs :=
  match a with [] => [] | (j, v) :: r => if String.eqb j k then adel r k else (j, v) :: adel r k end.

Fixpoint kfind (k : list (string * node)) (n : string) : option node :=
  match k with [] => None | (m, t) :: r => if String.eqb m n then Some t else kfind r n end.
Fixpoint kdel (k : list (string * node)) (n : string) : list (string * node) :=
  match k with [] => [] | (m, t) :: r => if String.eqb m n then r else (m, t) :: kdel r n end.
Fixpoint kput (k : list (string * node)) (n : string) (x : node) : list (string * node) :=
  match k with
  | [] => [(n, x)]
  | (m, t) :: r => if String.eqb m n then (n, x) :: r else if str_ltb n m then (n, x) :: (m, t) :: r else (m, t) :: kput r n x
  end.

Inductive look := L_node (n : node) | L_noent | L_notdir.
Fixpoint lookp (t : node) (p : list string) : look :=
  match p with
  | [] => L_node t
  | s :: r => match t with
              | NF _ _ => L_notdir
              | ND _ k => match kfind k s with Some c => lookp c r | None => L_noent end
              end
  end.

(* replace / insert the node at path p; all parents must already be directories *)
Fixpoint setp (t : node) (p : list string) (x : node) : node :=
  match p, t with
  | [], _ => x
  | s :: r, ND a k => ND a (kput k s (match kfind k s with Some c => setp c r x | None => setp (ND [] []) r x end))
  | _, _ => t
  end.
Fixpoint delp (t : node) (p : list string) : node :=
  match p, t with
  | [s], ND a k => ND a (kdel k s)
  | s :: r, ND a k => match kfind k s with Some c => ND a (kput k s (delp c r)) | None => t end
  | _, _ => t
  end.

(* backend.MkdirAll: None = ObjectParentIsFile *)
Fixpoint mkdir_all (fuel : nat) (t : node) (p : list string) : option node :=
  match fuel with
  | O => None
  | S f =>
    match lookp t p with
    | L_node (ND _ _) => Some t
    | L_node (NF _ _) => None
    | _ => match p with
           | [] => Some t
           | _ => match mkdir_all f t (removelast p) with
                  | Some t' => Some (setp t' p (ND [] []))
                  | None => None
                  end
           end
    end
  end.

Definition segs (key : string) : list string := filter (fun s => negb (String.eqb s "")) (split_char "/" key).
Definition ends_slash (key : string) : bool := has_suffix key "/".

Inductive err := NoSuchBucket | NoSuchKey | ExistingObjectIsDirectory | ObjectParentIsFile | DirectoryObjectContainsData
               | DirectoryNotEmpty | BucketAlreadyOwnedByYou | BucketNotEmpty | InvalidURI.
Inductive obs :=
| O_ok
| O_err (e : err)
| O_get (blob : option nat) (etag : string) (ctype : string) (meta : attrs)
| O_list (ents : list (string * string)) (trunc : bool).

Definition etag_of (b : nat) : string := "E" ++ z_to_string (Z.of_nat b).
Definition emptyMD5 := "EMPTY".
Definition meta_attrs (m : attrs) : attrs := map (fun kv => ("X-Amz-Meta." ++ fst kv, snd kv)) m.
Definition is_meta (k : string) := has_prefix k "X-Amz-Meta.".
Fixpoint sort_attrs (a : attrs) : attrs :=
  match a with [] => [] | kv :: r =>
    (fix ins (l : attrs) := match l with [] => [kv] | x :: l' => if str_ltb (fst kv) (fst x) then kv :: l else x :: ins l' end) (sort_attrs r) end.
Definition user_meta (a : attrs) : attrs :=
  sort_attrs (map (fun kv => (drop 11 (fst kv), snd kv)) (filter (fun kv => is_meta (fst kv)) a)).

Inductive op :=
| CreateBucket (b : string)
| PutObject (b key : string) (blob : nat) (len : nat) (ctype : string) (meta : attrs)
| GetObject (b key : string)
| DeleteObject (b key : string)
| ListV2 (b prefix delim after : string) (max : nat).

Definition bucket_ok (root : node) (b : string) : bool := match lookp root [b] with L_node (ND _ _) => true | _ => false end.

(* removeParents: prune upwards while the parent is not an explicit directory object and is empty *)
Fixpoint remove_parents (fuel : nat) (root : node) (b : string) (p : list string) : node :=
  match fuel with
  | O => root
  | S f =>
    match removelast p with
    | [] => root
    | par => match lookp root (b :: par) with
             | L_node (ND a k) =>
                 match aget a "etag" with
                 | Some _ => root
                 | None => match k with [] => remove_parents f (delp root (b :: par)) b par | _ => root end
                 end
             | _ => root
             end
    end
  end.

Fixpoint to_tree (n : node) : tree :=
  match n with
  | NF _ _ => F true
  | ND a k => D (match aget a "etag" with Some _ => true | None => false end)
                ((fix go (k : list (string * node)) := match k with [] => [] | (m, c) :: r => (m, to_tree c) :: go r end) k)
  end.

Definition max_s (a b : string) := if str_ltb a b then b else a.

Definition step (root : node) (o : op) : node * obs :=
  match o with
  | CreateBucket b =>
      match lookp root [b] with
      | L_noent => (setp root [b] (ND [("acl", "root")] []), O_ok)
      | _ => (root, O_err BucketAlreadyOwnedByYou)
      end
  | PutObject b key blob len ctype meta =>
      if negb (valid_object_name key) then (root, O_err InvalidURI) else
      if negb (bucket_ok root b) then (root, O_err NoSuchBucket) else
      let p := b :: segs key in
      if ends_slash key then
        if negb (Nat.eqb len 0) then (root, O_err DirectoryObjectContainsData) else
        match mkdir_all (S (List.length p)) root p with
        | None => (root, O_err ObjectParentIsFile)
        | Some r1 =>
            match lookp r1 p with
            | L_node (ND a k) =>
                let a' := ("content-type", "application/x-directory") :: ("etag", emptyMD5) :: (meta_attrs meta ++ adel (adel (filter (fun kv => negb (is_meta (fst kv))) a) "etag") "content-type") in
                (setp r1 p (ND a' k), O_ok)
            | _ => (root, O_err ObjectParentIsFile)
            end
        end
      else
        match lookp root p with
        | L_node (ND _ _) => (root, O_err ExistingObjectIsDirectory)
        | L_notdir => (root, O_err ObjectParentIsFile)
        | _ =>
          (* temp dir appears with the first file upload *)
          let r0 := match lookp root [b; ".sgwtmp"] with L_noent => setp root [b; ".sgwtmp"] (ND [] []) | _ => root end in
          match mkdir_all (S (List.length p)) r0 (removelast p) with
          | None => (root, O_err ExistingObjectIsDirectory)
          | Some r1 =>
              let a := ("etag", etag_of blob) :: (if String.eqb ctype "" then [] else [("content-type", ctype)]) ++ meta_attrs meta in
              (setp r1 p (NF blob a), O_ok)
          end
        end
  | GetObject b key =>
      if negb (valid_object_name key) then (root, O_err InvalidURI) else
      if negb (bucket_ok root b) then (root, O_err NoSuchBucket) else
      match lookp root (b :: segs key) with
      | L_node (NF blob a) =>
          if ends_slash key then (root, O_err NoSuchKey)
          else (root, O_get (Some blob) (match aget a "etag" with Some e => e | None => "" end)
                            (match aget a "content-type" with Some c => c | None => "binary/octet-stream" end) (user_meta a))
      | L_node (ND a _) =>
          if ends_slash key then
            (root, O_get None (match aget a "etag" with Some e => e | None => "" end)
                         (match a with [] => "binary/octet-stream" | _ => match aget a "content-type" with Some c => c | None => "application/x-directory" end end) (user_meta a))
          else (root, O_err NoSuchKey)
      | _ => (root, O_err NoSuchKey)
      end
  | DeleteObject b key =>
      if negb (valid_object_name key) then (root, O_err InvalidURI) else
      if negb (bucket_ok root b) then (root, O_err NoSuchBucket) else
      let p := b :: segs key in
      match lookp root p with
      | L_node (NF _ _) =>
          if ends_slash key then (root, O_ok)
          else (remove_parents (List.length p) (delp root p) b (segs key), O_ok)
      | L_node (ND a k) =>
          if negb (ends_slash key) then (root, O_ok) else
          match k with
          | [] => (remove_parents (List.length p) (delp root p) b (segs key), O_ok)
          | _ => match aget a "etag" with
                 | Some _ => (setp root p (ND (adel a "etag") k), O_ok)
                 | None => (root, O_err DirectoryNotEmpty)
                 end
          end
      | _ => (root, O_ok)
      end
  | ListV2 b prefix delim after max =>
      match lookp root [b] with
      | L_node ((ND _ _) as bn) =>
          match walk (to_tree bn) prefix delim after max [".sgwtmp"] false with
          | Some r =>
              (root, O_list (map (fun k => (k, match lookp bn (segs k) with
                                               | L_node (NF blob a) => match aget a "etag" with Some e => e | None => "" end
                                               | L_node (ND a _) => match aget a "etag" with Some e => e | None => "" end
                                               | _ => "?" end)) (r_objs r)
                             ++ map (fun c => (c, "CP")) (r_cps r)) (r_trunc r))
          | None => (root, O_err NoSuchKey)
          end
      | _ => (root, O_err NoSuchBucket)
      end
  end.

Fixpoint run (root : node) (ops : list op) : list obs :=
  match ops with [] => [] | o :: r => let '(root', ob) := step root o in ob :: run root' r end.
Definition root0 := ND [] [].
