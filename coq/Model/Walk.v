(* Model of backend.Walk (backend/walk.go) over a directory tree, with fs.WalkDir's traversal
   (lexical order per directory, SkipDir on a directory or on a file, SkipAll). Transcribes the code after the
   fix: commits recorded in KNOWN_FINDINGS.txt (directory objects take the common marker/prefix path; bookkeeping
   names skipped at top level only; a common prefix is skipped iff the marker lies at or inside it). *)
From Coq Require Import String Ascii List Arith Bool.
From VGW Require Import Base.GoStr.
Import ListNotations.
Open Scope string_scope.

(* ---- tree ---- *)
Inductive tree := F (isobj : bool) | D (isobj : bool) (kids : list (string * tree)).
Definition is_dir (t : tree) := match t with D _ _ => true | _ => false end.
Definition isobj (t : tree) := match t with F b => b | D b _ => b end.
Definition nkids (t : tree) := match t with D _ k => List.length k | _ => 0 end.

Fixpoint lookup (k : list (string * tree)) (n : string) : option tree :=
  match k with [] => None | (m, t) :: r => if String.eqb m n then Some t else lookup r n end.

(* ---- callback state ---- *)
Record st := { objs : list string; cps : list string; pastMarker : bool; pastMax : bool;
               truncated : bool; newMarker : string }.
Inductive ctl := Cont | SkipDir | SkipAll | Fail.

Definition add_cp (c : string) (l : list string) := if existsb (String.eqb c) l then l else c :: l.
Definition count (s : st) := List.length (objs s) + List.length (cps s).

Section Walk.
  Variables (prefix delim marker : string) (max : nat) (skipdirs : list string).

  Definition emit_obj (path : string) (skipflag : ctl) (s : st) : ctl * st :=
    if pastMax s then (SkipAll, {| objs := objs s; cps := cps s; pastMarker := pastMarker s; pastMax := true; truncated := true; newMarker := newMarker s |})
    else
      let o := (objs s ++ [path])%list in
      let full := Nat.eqb (List.length o + List.length (cps s)) max in
      (skipflag, {| objs := o; cps := cps s; pastMarker := pastMarker s; pastMax := full;
                    truncated := truncated s; newMarker := if full then path else newMarker s |}).

  (* name = last path element, path = full walk path *)
  Definition cb (path name : string) (t : tree) (s : st) : ctl * st :=
    if String.eqb path "." then (Cont, s) else
    (* bookkeeping directories are skipped at the top level only; a file of that name is ignored, not SkipDir *)
    if String.eqb path name && existsb (String.eqb name) skipdirs then ((if is_dir t then SkipDir else Cont), s) else
    let dirpath := path ++ "/" in
    (* directory preamble: returns either a final answer or (skipflag, path') to continue *)
    let pre : (ctl * st) + (ctl * string) :=
      if is_dir t then
        if negb (String.eqb prefix "") && negb (has_prefix dirpath prefix) && negb (has_prefix prefix dirpath)
        then inl (SkipDir, s)
        else if negb (String.eqb delim "") && has_prefix dirpath prefix && str_contains (trim_prefix dirpath prefix) delim
        then inr (SkipDir, dirpath)
        else if String.eqb delim "" then inr (Cont, dirpath)   (* directory objects go through the common path *)
        else if negb (Nat.eqb (nkids t) 0) then inl (Cont, s)
        else inr (Cont, dirpath)
      else inr (Cont, path) in
    match pre with
    | inl r => r
    | inr (skipflag, p) =>
      (* marker *)
      let mk : option (ctl * st) :=
        if pastMarker s then None
        else if String.eqb p marker then Some (skipflag, {| objs := objs s; cps := cps s; pastMarker := true; pastMax := pastMax s; truncated := truncated s; newMarker := newMarker s |})
        else if str_ltb p marker then Some (skipflag, s) else None in
      match mk with
      | Some r => r
      | None =>
        if negb (String.eqb prefix "") && negb (has_prefix p prefix) then (skipflag, s) else
        if String.eqb delim "" then
          (if isobj t then emit_obj p skipflag s else (skipflag, s))
        else
          let suffix := trim_prefix p prefix in
          let '(before, _, found) := str_cut suffix delim in
          if negb found then (if isobj t then emit_obj p skipflag s else (skipflag, s))
          else
            let cpref := prefix ++ before ++ delim in
            if String.eqb cpref marker then (skipflag, {| objs := objs s; cps := cps s; pastMarker := true; pastMax := pastMax s; truncated := truncated s; newMarker := newMarker s |})
            else if negb (String.eqb marker "") && has_prefix marker cpref then (skipflag, s)
            else if pastMax s then (SkipAll, {| objs := objs s; cps := cps s; pastMarker := pastMarker s; pastMax := true; truncated := true; newMarker := newMarker s |})
            else
              let c := add_cp cpref (cps s) in
              let full := Nat.eqb (List.length (objs s) + List.length c) max in
              (skipflag, {| objs := objs s; cps := c; pastMarker := pastMarker s; pastMax := full || pastMax s;
                            truncated := truncated s; newMarker := if full then cpref else newMarker s |})
      end
    end.

  Definition pjoin (dir n : string) := if String.eqb dir "." then n else dir ++ "/" ++ n.

  Fixpoint walk_node (path name : string) (t : tree) (s : st) {struct t} : ctl * st :=
    let '(c, s1) := cb path name t s in
    match t with
    | F _ => (c, s1)
    | D _ kids =>
      match c with
      | Cont =>
        (fix loop (ks : list (string * tree)) (s : st) {struct ks} : ctl * st :=
           match ks with
           | [] => (Cont, s)
           | (n, k) :: r =>
             let '(c1, s2) := walk_node (pjoin path n) n k s in
             match c1 with
             | Cont => loop r s2
             | SkipDir => (Cont, s2)
             | other => (other, s2)
             end
           end) kids s1
      | SkipDir => (Cont, s1)
      | other => (other, s1)
      end
    end.
End Walk.

(* resolve the walk root inside the tree *)
Fixpoint split_slash (s acc : string) : list string :=
  match s with
  | EmptyString => [acc]
  | String a r => if Ascii.eqb a "/"%char then acc :: split_slash r "" else split_slash r (acc ++ String a "")
  end.
Fixpoint resolve (t : tree) (segs : list string) : option tree :=
  match segs with
  | [] => Some t
  | n :: r => match t with D _ k => match lookup k n with Some t' => resolve t' r | None => None end | F _ => None end
  end.
Definition valid_seg (n : string) := negb (String.eqb n "") && negb (String.eqb n ".") && negb (String.eqb n "..").
Fixpoint last_seg (l : list string) (d : string) := match l with [] => d | [x] => x | _ :: r => last_seg r d end.

Fixpoint insert_sorted (c : string) (l : list string) : list string :=
  match l with [] => [c] | x :: r => if str_ltb c x then c :: l else x :: insert_sorted c r end.
Definition sort_strs (l : list string) := fold_right insert_sorted [] l.

Record result := { r_objs : list string; r_cps : list string; r_trunc : bool; r_next : string }.
Definition empty_result := {| r_objs := []; r_cps := []; r_trunc := false; r_next := "" |}.

(* None = Walk returns an error *)
Definition walk (t : tree) (prefix delim marker : string) (max : nat) (skipdirs : list string)
                (invalid_root_notexist : bool) : option result :=
  if Nat.eqb max 0 then Some empty_result else
  let root := match str_last_index prefix "/" with
              | Some (S i) => take (S i) prefix
              | _ => "." end in
  let s0 := {| objs := []; cps := []; pastMarker := String.eqb marker ""; pastMax := false; truncated := false; newMarker := "" |} in
  let run (node : tree) (name : string) :=
      let '(c, s) := walk_node prefix delim marker max skipdirs root name node s0 in
      match c with
      | Fail => None
      | _ => Some {| r_objs := objs s; r_cps := sort_strs (cps s); r_trunc := truncated s;
                     r_next := if truncated s then newMarker s else "" |}
      end in
  (* a prefix that leads below a bookkeeping directory names nothing that is listed *)
  if existsb (fun sd => String.eqb root sd || has_prefix root (sd ++ "/")) skipdirs then Some empty_result else
  if String.eqb root "." then run t "."
  else
    let segs := split_slash root "" in
    if forallb valid_seg segs then
      match resolve t segs with
      | Some node => run node (last_seg segs "")
      | None => Some empty_result
      end
    else
      (* a root that is no valid path (an empty, "." or ".." element) lies on the way to no key: Walk answers the empty page itself,
         whatever the file system would say about such a name (the last parameter, which used to tell the two file-system
         answers apart, no longer matters) *)
      let _ := invalid_root_notexist in Some empty_result.
