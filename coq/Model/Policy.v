(* Model of auth/bucket_policy*.go: decoding of a policy document (the three custom UnmarshalJSON methods and
   encoding/json's struct decoding rules), validation, and evaluation. Transcribes the code after the fix:
   commits recorded in KNOWN_FINDINGS.txt (glob branch order, bucket boundary of resources, s3:* no longer
   ends the action loop, empty Principal/Action/Resource refused). Action lists come from Gen/ActionLists.v. *)
From Coq Require Import String Ascii List Bool Arith.
From VGW Require Import Base.GoStr Model.Json Model.Glob Gen.ActionLists.
Import ListNotations.
Open Scope string_scope.

Inductive perr := InvalidJson | MissingStatement | EmptyStatement | InvalidEffect | InvalidPrincipal
                | InvalidAction | InvalidResource | ResourceMismatch.
Inductive res (A : Type) := Ok (a : A) | Err (e : perr).
Arguments Ok {A}. Arguments Err {A}.

Definition perr_eqb (a b : perr) : bool :=
  match a, b with
  | InvalidJson, InvalidJson | MissingStatement, MissingStatement | EmptyStatement, EmptyStatement
  | InvalidEffect, InvalidEffect | InvalidPrincipal, InvalidPrincipal | InvalidAction, InvalidAction
  | InvalidResource, InvalidResource | ResourceMismatch, ResourceMismatch => true
  | _, _ => false
  end.

(* string-or-array shapes of Actions / Resources *)
Definition str_or_arr (j : json) (empty_err : perr) : res (list string) :=
  match j with
  | JArr l => match all_strs l with
              | Some [] => Err empty_err
              | Some ss => Ok ss
              | None => Err InvalidJson
              end
  | JNull => Err empty_err                      (* null unmarshals into an empty slice *)
  | JStr s => if String.eqb s "" then Err empty_err else Ok [s]
  | _ => Err InvalidJson
  end.

(* Principals: []string | string | {AWS: string} | {AWS: []string} *)
Definition principals_of (j : json) : res (list string) :=
  match j with
  | JArr l => match all_strs l with Some [] => Err InvalidPrincipal | Some ss => Ok ss | None => Err InvalidJson end
  | JNull => Err InvalidPrincipal
  | JStr s => if String.eqb s "" then Err InvalidPrincipal else Ok [s]
  | JObj f =>
      match field f "AWS" None with
      | None | Some JNull => Err InvalidPrincipal
      | Some (JStr s) => if String.eqb s "" then Err InvalidPrincipal else Ok [s]
      | Some (JArr l) => match all_strs l with Some [] => Err InvalidPrincipal | Some ss => Ok ss | None => Err InvalidJson end
      | Some _ => Err InvalidJson
      end
  | _ => Err InvalidJson
  end.

Definition ends_star (a : string) : bool := has_suffix a "*".
Definition chop (a : string) : string := take (String.length a - 1) a.

(* Action.IsValid *)
Definition action_valid (a : string) : bool :=
  has_prefix a "s3:" &&
  (String.eqb a "s3:*" ||
   (if ends_star a then existsb (fun x => has_prefix x (chop a)) supported_actions
    else existsb (String.eqb a) supported_actions)).

(* Action.IsObjectAction: None for s3:* *)
Definition is_object_action (a : string) : option bool :=
  if String.eqb a "s3:*" then None
  else if ends_star a then Some (existsb (fun x => has_prefix x (chop a)) supported_object_actions)
  else Some (existsb (String.eqb a) supported_object_actions).

Definition arn := "arn:aws:s3:::".
(* isValidResource *)
Definition resource_pat (r : string) : option string :=
  if has_prefix r arn then
    let p := drop (String.length arn) r in
    if String.eqb p "" then None else if has_prefix p "/" then None else Some p
  else None.

Record stmt := { effect : string; princ : list string; acts : list string; ress : list string }.

Fixpoint map_res {A B} (f : A -> res B) (l : list A) : res (list B) :=
  match l with
  | [] => Ok []
  | x :: r => match f x with
              | Err e => Err e
              | Ok y => match map_res f r with Err e => Err e | Ok t => Ok (y :: t) end
              end
  end.

Definition empty_stmt := {| effect := ""; princ := []; acts := []; ress := [] |}.

(* encoding/json decodes object members in document order into the existing value; the first failing custom
   unmarshaler aborts with its own error; a type mismatch on a plain field is saved (sv) and reported at the end
   unless a later member aborts first *)
Fixpoint stmt_members (f : list (string * json)) (s : stmt) (sv : bool) : res (stmt * bool) :=
  match f with
  | [] => Ok (s, sv)
  | (k, v) :: r =>
    let step : res (stmt * bool) :=
      if keq k "Effect" then
        match v with
        | JNull => Ok (s, sv)
        | JStr e => Ok ({| effect := e; princ := princ s; acts := acts s; ress := ress s |}, sv)
        | _ => Ok (s, true)
        end
      else if keq k "Principal" then
        match principals_of v with
        | Err e => Err e
        | Ok ps => Ok ({| effect := effect s; princ := ps; acts := acts s; ress := ress s |}, sv)
        end
      else if keq k "Action" then
        match str_or_arr v InvalidAction with
        | Err e => Err e
        | Ok l => if forallb action_valid l then Ok ({| effect := effect s; princ := princ s; acts := l; ress := ress s |}, sv)
                  else Err InvalidAction
        end
      else if keq k "Resource" then
        match str_or_arr v InvalidResource with
        | Err e => Err e
        | Ok l => match map_res (fun x => match resource_pat x with Some p => Ok p | None => Err InvalidResource end) l with
                  | Err e => Err e
                  | Ok rs => Ok ({| effect := effect s; princ := princ s; acts := acts s; ress := rs |}, sv)
                  end
        end
      else Ok (s, sv) in
    match step with Err e => Err e | Ok (s', sv') => stmt_members r s' sv' end
  end.

Definition parse_stmt_into (old : stmt) (j : json) (sv : bool) : res (stmt * bool) :=
  match j with
  | JObj f => stmt_members f old sv
  | JNull => Ok (old, sv)
  | _ => Ok (old, true)
  end.

Fixpoint stmts_into (old : list stmt) (l : list json) (sv : bool) : res (list stmt * bool) :=
  match l with
  | [] => Ok ([], sv)
  | j :: r =>
    let '(o, old') := match old with x :: t => (x, t) | [] => (empty_stmt, []) end in
    match parse_stmt_into o j sv with
    | Err e => Err e
    | Ok (s, sv1) => match stmts_into old' r sv1 with Err e => Err e | Ok (t, sv2) => Ok (s :: t, sv2) end
    end
  end.

Fixpoint policy_members (f : list (string * json)) (cur : option (list stmt)) (sv : bool) : res (option (list stmt) * bool) :=
  match f with
  | [] => Ok (cur, sv)
  | (k, v) :: r =>
    if keq k "Statement" then
      match v with
      | JNull => policy_members r None sv
      | JArr l => match stmts_into (match cur with Some c => c | None => [] end) l sv with
                  | Err e => Err e
                  | Ok (ss, sv') => policy_members r (Some ss) sv'
                  end
      | _ => policy_members r cur true
      end
    else policy_members r cur sv
  end.

Definition parse_policy (j : json) : res (list stmt) :=
  match j with
  | JObj f => match policy_members f None false with
              | Err e => Err e
              | Ok (_, true) => Err InvalidJson
              | Ok (None, false) => Err MissingStatement
              | Ok (Some l, false) => Ok l
              end
  | _ => Err InvalidJson
  end.

Section Validate.
  Variable accounts : list string.      (* the access keys known to the IAM service *)

  (* Resources.Validate: the pattern names this bucket: bucket, bucket/..., or bucket followed by a wildcard *)
  Definition names_bucket (bucket r : string) : bool :=
    has_prefix r bucket &&
    (let rest := drop (String.length bucket) r in
     String.eqb rest "" || has_prefix rest "/" || has_prefix rest "*" || has_prefix rest "?").

  Definition principals_valid (ps : list string) : bool :=
    match ps with
    | [] => false
    | _ => if existsb (String.eqb "*") ps then forallb (String.eqb "*") ps
           else forallb (fun p => existsb (String.eqb p) accounts) ps
    end.

  Definition has_obj_pattern (rs : list string) : bool := existsb (fun r => String.eqb r "*" || str_contains r "/") rs.
  Definition has_bkt_pattern (rs : list string) : bool := existsb (fun r => String.eqb r "*" || negb (str_contains r "/")) rs.

  Definition action_kind_ok (rs : list string) (a : string) : bool :=
    match is_object_action a with
    | Some true => has_obj_pattern rs
    | Some false => has_bkt_pattern rs
    | None => true
    end.

  (* BucketPolicyItem.Validate: None = accepted *)
  Definition stmt_validate (bucket : string) (s : stmt) : option perr :=
    if negb (String.eqb (effect s) "Allow" || String.eqb (effect s) "Deny") then Some InvalidEffect else
    if negb (principals_valid (princ s)) then Some InvalidPrincipal else
    if match ress s with [] => true | _ => false end then Some InvalidResource else
    if negb (forallb (names_bucket bucket) (ress s)) then Some InvalidResource else
    if match acts s with [] => true | _ => false end then Some InvalidAction else
    if negb (forallb (action_kind_ok (ress s)) (acts s)) then Some ResourceMismatch else None.

  Fixpoint validate_all (bucket : string) (l : list stmt) : option perr :=
    match l with
    | [] => None
    | s :: r => match stmt_validate bucket s with Some e => Some e | None => validate_all bucket r end
    end.

  (* ValidatePolicyDocument; first_is_brace: the first byte of the document is '{' *)
  Definition validate (first_is_brace : bool) (j : json) (bucket : string) : option perr :=
    if negb first_is_brace then Some InvalidJson else
    match parse_policy j with
    | Err e => Some e
    | Ok [] => Some EmptyStatement
    | Ok l => validate_all bucket l
    end.
End Validate.

(* evaluation *)
Definition action_match (acts : list string) (a : string) : bool :=
  existsb (String.eqb "s3:*") acts || existsb (String.eqb a) acts ||
  existsb (fun x => ends_star x && has_prefix a (chop x)) acts.

Definition principal_match (ps : list string) (who : string) : bool :=
  existsb (String.eqb "*") ps || existsb (String.eqb who) ps.

Definition resource_match (rs : list string) (resource : string) : bool :=
  existsb (fun p => glob_match p resource) rs.

Definition stmt_match (s : stmt) (who act resource : string) : bool :=
  principal_match (princ s) who && action_match (acts s) act && resource_match (ress s) resource.

(* BucketPolicy.isAllowed: the loop with its accumulator and the early return on Deny *)
Fixpoint is_allowed_from (l : list stmt) (who act resource : string) (acc : bool) : bool :=
  match l with
  | [] => acc
  | s :: r => if stmt_match s who act resource
              then (if String.eqb (effect s) "Allow" then is_allowed_from r who act resource true
                    else if String.eqb (effect s) "Deny" then false
                    else is_allowed_from r who act resource acc)
              else is_allowed_from r who act resource acc
  end.
Definition is_allowed (l : list stmt) (who act resource : string) : bool := is_allowed_from l who act resource false.

Definition resource_of (bucket object : string) : string :=
  if String.eqb object "" then bucket else bucket ++ "/" ++ object.

(* VerifyBucketPolicy: None = the stored document does not decode, Some allowed *)
Definition verify (j : json) (who bucket object act : string) : option bool :=
  match parse_policy j with
  | Err _ => None
  | Ok l => Some (is_allowed l who act (resource_of bucket object))
  end.
