(* The version history of a bucket as the S3 API exposes it (C09): per key a stack of versions and delete markers, newest
   first.  This is the reference machine the gateway's answers are compared with on every run (props/c09.py); the posix
   backend implements it with one current file per key plus a side directory of older versions (backend/posix/posix.go
   createObjVersion, PutObject, CompleteMultipartUpload, DeleteObject, GetObject, fileToObjVersions).

   Keys, contents and metadata sets are numbers chosen by the harness; version ids are numbered in the order the gateway
   hands them out (the harness checks that each new id is fresh and sorts after the earlier ones); None is the "null" id. *)
From Coq Require Import List Arith Bool.
Import ListNotations.

Definition vid := option nat.
Record ver := { v_id : vid; v_marker : bool; v_blob : nat; v_meta : nat }.
Inductive status := Off | Enabled | Suspended.
Record st := { vstat : status; next : nat; keys : list (nat * list ver) }.
Definition init : st := {| vstat := Off; next := 0; keys := [] |}.

Definition vid_eqb (a b : vid) : bool :=
  match a, b with None, None => true | Some x, Some y => Nat.eqb x y | _, _ => false end.

Fixpoint kget (l : list (nat * list ver)) (k : nat) : list ver :=
  match l with [] => [] | (j, s) :: r => if Nat.eqb j k then s else kget r k end.
Fixpoint kset (l : list (nat * list ver)) (k : nat) (s : list ver) : list (nat * list ver) :=
  match l with
  | [] => [(k, s)]
  | (j, t) :: r => if Nat.eqb j k then (k, s) :: r else (j, t) :: kset r k s
  end.

Definition drop_id (s : list ver) (i : vid) : list ver := filter (fun v => negb (vid_eqb (v_id v) i)) s.
Fixpoint find_id (s : list ver) (i : vid) : option ver :=
  match s with [] => None | v :: r => if vid_eqb (v_id v) i then Some v else find_id r i end.

Inductive err := NoSuchKey | NoSuchVersion | MethodNotAllowed.
Inductive op :=
| SetStatus (s : status)
| Put (k blob meta : nat)
| Delete (k : nat)
| DeleteVersion (k : nat) (i : vid)
| Get (k : nat)
| GetVersion (k : nat) (i : vid)
| ListVersions.
Inductive out :=
| O_ok
| O_put (i : option vid)                       (* the x-amz-version-id of the new version; None: header absent (unversioned bucket) *)
| O_deleted (marker : option vid)              (* a delete without id: the delete marker that was added, if any *)
| O_delver (was_marker : bool)
| O_err (e : err) (marker : bool)
| O_obj (blob meta : nat) (i : vid)
| O_list (l : list (nat * list (vid * bool * nat * bool))).   (* per key: id, marker?, blob, latest? — newest first *)

Definition mk (i : vid) (m : bool) (b me : nat) : ver := {| v_id := i; v_marker := m; v_blob := b; v_meta := me |}.

Definition step (s : st) (o : op) : st * out :=
  match o with
  | SetStatus x => ({| vstat := x; next := next s; keys := keys s |}, O_ok)
  | Put k b me =>
      match vstat s with
      | Off => ({| vstat := Off; next := next s; keys := kset (keys s) k [mk None false b me] |}, O_put None)
      | Enabled => ({| vstat := Enabled; next := S (next s); keys := kset (keys s) k (mk (Some (next s)) false b me :: kget (keys s) k) |},
                    O_put (Some (Some (next s))))
      | Suspended => ({| vstat := Suspended; next := next s; keys := kset (keys s) k (mk None false b me :: drop_id (kget (keys s) k) None) |},
                      O_put (Some None))
      end
  | Delete k =>
      match kget (keys s) k with
      | [] => (s, O_deleted None)
      | top :: rest =>
          match vstat s with
          | Off => ({| vstat := Off; next := next s; keys := kset (keys s) k [] |}, O_deleted None)
          | Enabled => ({| vstat := Enabled; next := S (next s); keys := kset (keys s) k (mk (Some (next s)) true (v_blob top) (v_meta top) :: top :: rest) |},
                        O_deleted (Some (Some (next s))))
          | Suspended => ({| vstat := Suspended; next := next s; keys := kset (keys s) k (mk None true (v_blob top) (v_meta top) :: drop_id (top :: rest) None) |},
                          O_deleted (Some None))
          end
      end
  | DeleteVersion k i =>
      match find_id (kget (keys s) k) i with
      | None => (s, O_err NoSuchVersion false)
      | Some v => ({| vstat := vstat s; next := next s; keys := kset (keys s) k (drop_id (kget (keys s) k) i) |}, O_delver (v_marker v))
      end
  | Get k =>
      match kget (keys s) k with
      | [] => (s, O_err NoSuchKey false)
      | v :: _ => if v_marker v then (s, O_err NoSuchKey true) else (s, O_obj (v_blob v) (v_meta v) (v_id v))
      end
  | GetVersion k i =>
      match kget (keys s) k with
      | [] => (s, O_err NoSuchKey false)
      | _ => match find_id (kget (keys s) k) i with
             | None => (s, O_err NoSuchVersion false)
             | Some v => if v_marker v then (s, O_err MethodNotAllowed true) else (s, O_obj (v_blob v) (v_meta v) (v_id v))
             end
      end
  | ListVersions =>
      (s, O_list (map (fun ks => (fst ks, match snd ks with
                                          | [] => []
                                          | v :: r => (v_id v, v_marker v, v_blob v, true) :: map (fun w => (v_id w, v_marker w, v_blob w, false)) r
                                          end)) (keys s)))
  end.

Fixpoint run (s : st) (ops : list op) : st * list out :=
  match ops with
  | [] => (s, [])
  | o :: r => let '(s1, x) := step s o in let '(s2, xs) := run s1 r in (s2, x :: xs)
  end.
