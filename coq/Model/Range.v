(* Model of backend.ParseGetObjectRange / ParseCopySourceRange (backend/common.go) and of the tail of
   posix GetObject + the controller's status choice (backend/posix/posix.go, s3api/controllers/base.go). *)
From Coq Require Import String Ascii List ZArith Lia Bool.
From VGW Require Import Base.GoStr.
Import ListNotations.
Open Scope string_scope.
Open Scope Z_scope.

(* (start, length, isValid) or the InvalidRange error *)
Inductive prange := PR (start len : Z) (valid : bool) | PErr416.

Definition parse_get_object_range (size : Z) (hdr : string) : prange :=
  if String.eqb hdr "" then PR 0 size false else
  match split_char "=" hdr with
  | [u; r] =>
      if negb (String.eqb u "bytes") then PR 0 size false else
      match split_char "-" r with
      | [a; b] =>
          match parse_int10 a with
          | None => PR 0 size false
          | Some s =>
              if size <=? s then PErr416 else
              if String.eqb b "" then PR s (size - s) true else
              match parse_int10 b with
              | None => PR 0 size false
              | Some e =>
                  if e <? s then PR 0 size false else
                  if size <=? e then PR s (size - s) true else PR s (e - s + 1) true
              end
          end
      | _ => PR 0 size false
      end
  | _ => PR 0 size false
  end.

(* The GET response as far as C13 speaks about it: status, Content-Range (first, last, total),
   Content-Length, and the window of the object the body is read from. *)
Record resp := { status : Z; crange : option (Z * Z * Z); clen : Z; boff : Z; blen : Z }.

Definition get_resp_obj (size : Z) (hdr : string) : resp :=
  match parse_get_object_range size hdr with
  | PErr416 => {| status := 416; crange := None; clen := 0; boff := 0; blen := 0 |}
  | PR s l v =>
      {| status := if v then 206 else 200;
         crange := if v then Some (s, s + l - 1, size) else None;
         clen := l; boff := s; blen := l |}
  end.

(* directory objects are always of length 0 (the stat size of the directory is not the object size) *)
Definition get_resp (stat_size : Z) (is_dir : bool) (hdr : string) : resp :=
  get_resp_obj (if is_dir then 0 else stat_size) hdr.

Definition crange_text (c : option (Z * Z * Z)) : string :=
  match c with
  | None => ""
  | Some (a, e, t) => "bytes " ++ z_to_string a ++ "-" ++ z_to_string e ++ "/" ++ z_to_string t
  end.
