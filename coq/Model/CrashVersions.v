(* Model for C11 in a versioning-enabled bucket: DeleteObject (no version id) turns the current object into a delete marker *in
   place* until repair 3001e11 and by a rename since. The steps on the filesystem (posix.go DeleteObject): the current version is
   copied into the versioning directory under its id (createObjVersion); then a temporary file receives the marker's own, fresh
   version id and the delete-marker flag and is renamed over the current file (before the repair: the two attributes were written
   onto the current file itself). A killed request is a prefix of these steps.

   What ListObjectVersions / GET ?versionId show (fileToObjVersions): the current entry under its id, and every archived entry
   whose id differs from the current one (an archived copy with the id of the current entry is taken for the leftover of an
   interrupted overwrite and hidden). *)
From Coq Require Import List Arith Bool.
Import ListNotations.

Record cur := { c_data : nat; c_vid : nat; c_marker : bool }.
Record vstate := { current : cur; archive : list (nat * nat) }.     (* archive: (version id, data) *)

Inductive vstep :=
| V_archive                 (* copy the current version into the versioning directory under its id *)
| V_set_vid (v : nat)       (* write the version-id attribute of the current file *)
| V_set_marker              (* write the delete-marker attribute of the current file *)
| V_prepare                 (* write the marker's attributes onto a temporary file (nothing of it is visible) *)
| V_publish (v : nat).      (* rename the prepared marker (version id v) over the current file *)

Definition do_vstep (s : vstate) (x : vstep) : vstate :=
  match x with
  | V_archive => {| current := current s; archive := (c_vid (current s), c_data (current s)) :: archive s |}
  | V_set_vid v => {| current := {| c_data := c_data (current s); c_vid := v; c_marker := c_marker (current s) |}; archive := archive s |}
  | V_set_marker => {| current := {| c_data := c_data (current s); c_vid := c_vid (current s); c_marker := true |}; archive := archive s |}
  | V_prepare => s
  | V_publish v => {| current := {| c_data := 0; c_vid := v; c_marker := true |}; archive := archive s |}
  end.

(* the steps of the code as it is (repair 3001e11: the marker is a new file renamed over the current version), and the two earlier
   forms, which re-labelled the current file in place: the id first and the flag second (repair 80e96b2), and the flag first *)
Definition delete_steps (fresh : nat) : list vstep := [V_archive; V_prepare; V_publish fresh].
Definition delete_steps_inplace (fresh : nat) : list vstep := [V_archive; V_set_vid fresh; V_set_marker].
Definition delete_steps_old (fresh : nat) : list vstep := [V_archive; V_set_marker; V_set_vid fresh].

Definition run_killed (steps : list vstep) (s : vstate) (k : nat) : vstate := fold_left do_vstep (firstn k steps) s.

(* the data versions the API shows: (id, data) *)
Definition shown (s : vstate) : list (nat * nat) :=
  (if c_marker (current s) then [] else [(c_vid (current s), c_data (current s))]) ++
  filter (fun e => negb (Nat.eqb (fst e) (c_vid (current s)))) (archive s).

(* what a GET without version id answers: the current data, or nothing behind a delete marker *)
Definition reads (s : vstate) : option nat := if c_marker (current s) then None else Some (c_data (current s)).
