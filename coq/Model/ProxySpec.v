(* What transparency (C18) demands of the field-by-field translation in backend/s3proxy/s3.go, stated over the table
   the translator regenerates from the source on every run (Gen/ProxyFields.v). *)
From Coq Require Import String List Bool.
From VGW Require Import Base.GoStr.
Import ListNotations.
Open Scope string_scope.

Definition table := list (string * (list string * list string * list string)).
Fixpoint tfind (t : table) (m : string) : option (list string * list string * list string) :=
  match t with [] => None | (n, v) :: r => if String.eqb n m then Some v else tfind r m end.
Definition mem (x : string) (l : list string) : bool := existsb (String.eqb x) l.

(* a field reaches the other side: the whole value is passed on ("*"), or the literal has the entry F (from the same field)
   or F=<expr> (from an expression computed from it) *)
Definition carried (l : list string) (f : string) : bool :=
  mem "*" l || mem f l || existsb (fun e => has_prefix e (f ++ "=<")) l.
Definition forwards (t : table) (m f : string) : bool :=
  match tfind t m with
  | Some (fw, cl, _) => carried fw f && negb (mem f cl) && negb (mem ("zero:" ++ f) cl)
  | None => false
  end.
Definition returns (t : table) (m f : string) : bool :=
  match tfind t m with Some (_, _, rt) => carried rt f | None => false end.

(* the client-visible request fields of each operation the property names *)
Definition required_forward : list (string * list string) :=
  [("PutObject", ["Bucket"; "Key"; "Body"; "ContentLength"; "ContentType"; "ContentEncoding"; "ContentDisposition"; "ContentLanguage"; "CacheControl"; "Expires"; "Metadata"; "Tagging"; "ContentMD5"]);
   ("CopyObject", ["Bucket"; "Key"; "CopySource"; "MetadataDirective"; "TaggingDirective"; "Metadata"; "Tagging"; "ContentType"; "ContentEncoding"; "ContentDisposition"; "ContentLanguage"; "CacheControl"; "Expires"]);
   ("CreateMultipartUpload", ["Bucket"; "Key"; "ContentType"; "ContentEncoding"; "ContentDisposition"; "ContentLanguage"; "CacheControl"; "Expires"; "Metadata"; "Tagging"]);
   ("GetObject", ["Bucket"; "Key"; "Range"; "VersionId"]);
   ("HeadObject", ["Bucket"; "Key"; "Range"; "VersionId"]);
   ("DeleteObject", ["Bucket"; "Key"; "VersionId"]);
   ("DeleteObjects", ["Bucket"; "Delete"]);
   ("ListObjects", ["Bucket"; "Prefix"; "Delimiter"; "Marker"; "MaxKeys"]);
   ("ListObjectsV2", ["Bucket"; "Prefix"; "Delimiter"; "StartAfter"; "ContinuationToken"; "MaxKeys"; "FetchOwner"]);
   ("ListBuckets", ["Prefix"; "MaxBuckets"; "ContinuationToken"]);
   ("UploadPart", ["Bucket"; "Key"; "UploadId"; "PartNumber"; "Body"; "ContentLength"]);
   ("UploadPartCopy", ["Bucket"; "Key"; "UploadId"; "PartNumber"; "CopySource"; "CopySourceRange"]);
   ("ListParts", ["Bucket"; "Key"; "UploadId"; "MaxParts"; "PartNumberMarker"]);
   ("ListMultipartUploads", ["Bucket"; "Prefix"; "Delimiter"; "KeyMarker"; "UploadIdMarker"; "MaxUploads"]);
   ("CompleteMultipartUpload", ["Bucket"; "Key"; "UploadId"; "MultipartUpload"]);
   ("AbortMultipartUpload", ["Bucket"; "Key"; "UploadId"]);
   ("HeadBucket", ["Bucket"])].
(* ... and of each answer *)
Definition required_return : list (string * list string) :=
  [("PutObject", ["ETag"; "VersionID"]);
   ("GetObject", ["Body"; "ContentLength"; "ContentRange"; "ETag"; "ContentType"; "ContentEncoding"; "ContentDisposition"; "ContentLanguage"; "CacheControl"; "Metadata"; "TagCount"; "LastModified"]);
   ("HeadObject", ["ContentLength"; "ETag"; "ContentType"; "ContentEncoding"; "ContentDisposition"; "ContentLanguage"; "CacheControl"; "Metadata"; "LastModified"]);
   ("CopyObject", ["CopyObjectResult"]);
   ("CreateMultipartUpload", ["Bucket"; "Key"; "UploadId"]);
   ("UploadPart", ["ETag"]);
   ("UploadPartCopy", ["ETag"]);
   ("CompleteMultipartUpload", ["ETag"; "Key"; "Bucket"]);
   ("ListObjects", ["Contents"; "CommonPrefixes"; "IsTruncated"; "NextMarker"; "Marker"; "Prefix"; "Delimiter"; "MaxKeys"; "Name"]);
   ("ListObjectsV2", ["Contents"; "CommonPrefixes"; "IsTruncated"; "NextContinuationToken"; "ContinuationToken"; "KeyCount"; "Prefix"; "Delimiter"; "MaxKeys"; "Name"]);
   ("ListParts", ["Parts"; "IsTruncated"; "NextPartNumberMarker"; "PartNumberMarker"; "MaxParts"; "Key"; "Bucket"]);
   ("ListMultipartUploads", ["Uploads"; "IsTruncated"; "NextKeyMarker"; "KeyMarker"; "Prefix"; "Delimiter"; "CommonPrefixes"]);
   ("ListBuckets", ["Buckets"; "ContinuationToken"; "Prefix"]);
   ("DeleteObjects", ["Deleted"; "Error"])].

Definition all_forwarded (t : table) : bool :=
  forallb (fun mf => forallb (forwards t (fst mf)) (snd mf)) required_forward.
Definition all_returned (t : table) : bool :=
  forallb (fun mf => forallb (returns t (fst mf)) (snd mf)) required_return.
(* the entries that fail, for the report *)
Definition missing_forward (t : table) : list (string * string) :=
  flat_map (fun mf => map (fun f => (fst mf, f)) (filter (fun f => negb (forwards t (fst mf) f)) (snd mf))) required_forward.
Definition missing_return (t : table) : list (string * string) :=
  flat_map (fun mf => map (fun f => (fst mf, f)) (filter (fun f => negb (returns t (fst mf) f)) (snd mf))) required_return.
