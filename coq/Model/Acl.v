(* Model of auth.VerifyAccess / verifyACL / VerifyObjectCopyAccess / IsAdminOrOwner / MayCreateBucket (auth/acl.go).
   Transcribes the code after the fix: commits recorded in KNOWN_FINDINGS.txt (a copy is refused in read-only mode). *)
From Coq Require Import String List Bool.
From VGW Require Import Base.GoStr Model.Json Model.Policy.
Import ListNotations.
Open Scope string_scope.

Inductive perm := PRead | PWrite | PReadAcp | PWriteAcp | PFullControl.
Definition perm_eqb (a b : perm) : bool :=
  match a, b with PRead, PRead | PWrite, PWrite | PReadAcp, PReadAcp | PWriteAcp, PWriteAcp | PFullControl, PFullControl => true | _, _ => false end.
Inductive gtype := TCanonicalUser | TGroup.
Record grantee := { g_access : string; g_perm : perm; g_type : gtype }.

(* verifyACL *)
Definition verify_acl (grants : list grantee) (who : string) (p : perm) : bool :=
  existsb (fun g =>
    match g_type g with
    | TCanonicalUser => String.eqb (g_access g) who && (perm_eqb (g_perm g) p || perm_eqb (g_perm g) PFullControl)
    | TGroup => String.eqb (g_access g) "all-users" && perm_eqb (g_perm g) p
    end) grants.

(* what the backend answers for GetBucketPolicy *)
Inductive pol_state := NoPolicy | PolicyDoc (doc : json) | PolicyReadError.

Record access_opts := { o_readonly : bool; o_is_root : bool; o_role : string; o_who : string; o_grants : list grantee;
                        o_perm : perm; o_bucket : string; o_object : string; o_action : string }.

Definition is_write (p : perm) : bool := perm_eqb p PWrite || perm_eqb p PWriteAcp.

(* VerifyAccess: true = nil error *)
Definition verify_access (pol : pol_state) (o : access_opts) : bool :=
  if o_readonly o && is_write (o_perm o) then false else
  if o_is_root o then true else
  if String.eqb (o_role o) "admin" then true else
  match pol with
  | PolicyReadError => false
  | PolicyDoc doc => match verify doc (o_who o) (o_bucket o) (o_object o) (o_action o) with Some b => b | None => false end
  | NoPolicy => verify_acl (o_grants o) (o_who o) (o_perm o)
  end.

(* VerifyObjectCopyAccess: destination check with the given options, then s3:GetObject / READ on the source *)
Definition verify_copy_access (dst_pol src_pol : pol_state) (src_grants : option (list grantee)) (copy_source : string) (o : access_opts) : bool :=
  if o_readonly o then false else
  if o_is_root o then true else
  if String.eqb (o_role o) "admin" then true else
  if negb (verify_access dst_pol o) then false else
  match str_cut copy_source "/" with
  | (src_bucket, src_object, true) =>
      match src_grants with
      | None => false                                      (* source bucket ACL cannot be read *)
      | Some g => verify_access src_pol {| o_readonly := false; o_is_root := o_is_root o; o_role := o_role o; o_who := o_who o; o_grants := g;
                                           o_perm := PRead; o_bucket := src_bucket; o_object := src_object; o_action := "s3:GetObject" |}
      end
  | _ => false
  end.

Definition is_admin_or_owner (who role owner : string) (is_root : bool) : bool :=
  String.eqb who owner || is_root || String.eqb role "admin".
Definition may_create_bucket (role : string) (is_root : bool) : bool := is_root || negb (String.eqb role "user").
