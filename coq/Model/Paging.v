(* Models of the two paging loops that index slices from request parameters: posix ListBuckets (backend/posix/posix.go)
   and the controller's max-buckets validation; posix ListMultipartUploads' page selection. Panics (index out of range)
   are explicit outcomes. Transcribes the code after the fix: commits recorded in KNOWN_FINDINGS.txt. *)
From Coq Require Import String List ZArith Bool Arith.
From VGW Require Import Base.GoStr.
Import ListNotations.
Open Scope string_scope.

Inductive res (A : Type) := Ok_ (a : A) | Panic_.
Arguments Ok_ {A}. Arguments Panic_ {A}.

(* ---- ListBuckets: fis = directory entries in name order, each with its owner (None: no ACL attribute) ---- *)
Fixpoint lb_loop (fis : list (string * option string)) (prefix token owner : string) (is_admin : bool) (max : nat)
                 (acc : list string) : res (list string * string) :=
  match fis with
  | [] => Ok_ (acc, "")
  | (name, own) :: r =>
      if negb (has_prefix name prefix) then lb_loop r prefix token owner is_admin max acc else
      if Nat.eqb (List.length acc) max then
        match rev acc with
        | last :: _ => Ok_ (acc, last)
        | [] => Panic_                        (* buckets[len(buckets)-1] with an empty slice *)
        end
      else if str_leb name token then lb_loop r prefix token owner is_admin max acc
      else if is_admin then lb_loop r prefix token owner is_admin max (acc ++ [name])
      else match own with
           | Some o => if String.eqb o owner then lb_loop r prefix token owner is_admin max (acc ++ [name])
                       else lb_loop r prefix token owner is_admin max acc
           | None => lb_loop r prefix token owner is_admin max acc
           end
  end.

(* the controller: max-buckets absent -> 10000; otherwise a base-10 int32 in [1, 10000] *)
Definition parse_max_buckets (s : string) : option Z :=
  if String.eqb s "" then Some 10000%Z else
  match parse_int10 s with
  | Some v => if ((1 <=? v) && (v <=? 10000))%Z then Some v else None
  | None => None
  end.

Definition list_buckets (fis : list (string * option string)) (prefix token owner : string) (is_admin : bool) (max_str : string)
  : option (res (list string * string)) :=
  match parse_max_buckets max_str with
  | None => None                                  (* InvalidArgument *)
  | Some max => Some (lb_loop fis prefix token owner is_admin (Z.to_nat max) [])
  end.

(* ---- ListMultipartUploads page selection: uploads sorted by (key, upload id) ---- *)
Fixpoint find_key (ups : list (string * string)) (k : string) (i : nat) : option nat :=
  match ups with [] => None | (key, _) :: r => if String.eqb key k then Some i else find_key r k (S i) end.

(* behind the marker: a greater key, or the marker's key with a greater upload id (no upload id marker: every upload of the marker's key
   lies before the page) *)
Definition lmu_behind (key id key_marker id_marker : string) : bool :=
  if String.eqb key_marker "" then true
  else if str_ltb key key_marker then false
  else if String.eqb key key_marker then negb (String.eqb id_marker "") && negb (str_ltb id id_marker || String.eqb id id_marker)
  else true.

Fixpoint lmu_loop (ups : list (string * string)) (i n : nat) (key_marker id_marker : string) (max : nat)
                  (acc : list (string * string)) : res (list (string * string) * bool * (string * string)) :=
  match ups with
  | [] => Ok_ (acc, false, ("", ""))
  | (key, id) :: r =>
      if negb (lmu_behind key id key_marker id_marker)
      then lmu_loop r (S i) n key_marker id_marker max acc
      else if Nat.eqb (List.length acc) max then
        match rev acc with
        | last :: _ => Ok_ (acc, true, last)
        | [] => Panic_
        end
      else lmu_loop r (S i) n key_marker id_marker max (acc ++ [(key, id)])
  end.

(* None = empty answer (marker not found) *)
Definition list_uploads (sorted : list (string * string)) (key_marker id_marker : string) (id_found : bool) (max : nat)
  : res (list (string * string) * bool * (string * string)) :=
  let start := if String.eqb key_marker "" then Some O else option_map S (find_key sorted key_marker O) in
  if (negb (String.eqb id_marker "") && negb id_found) then Ok_ ([], false, ("", "")) else
  match start with
  | None => Ok_ ([], false, ("", ""))
  | Some _ => if Nat.eqb max 0 then Ok_ ([], false, ("", ""))
              else lmu_loop sorted 0 (List.length sorted) key_marker id_marker max []
  end.
