(* Model of the upload reader stack for PutObject / UploadPart (s3api/middlewares/authentication.go, md5.go,
   s3api/utils/auth-reader.go, csum-reader.go, chunk readers, backend/posix PutObject + tmpfile.Write):
     body -> AuthReader (x-amz-content-sha256 of the raw body unless the payload type is special)
          -> chunk reader (aws-chunked modes) -> Content-MD5 reader -> ETag MD5 tee -> x-amz-checksum-* reader
          -> tmpfile.Write (rejects a write larger than the remaining declared length) -> commit iff io.Copy returned nil
   Transcribes the code after the fix: commit recorded in KNOWN_FINDINGS.txt (an upload whose decoded stream is shorter than
   the declared length fails instead of being committed zero-padded).
   Digest functions are Section variables (the correspondence run instantiates them with digests computed by the harness). *)
From Coq Require Import NArith ZArith List Bool String.
From VGW Require Import Base.Bytes Crypto.Crc Model.SignedChunk Model.UnsignedChunk.
Import ListNotations.
Open Scope N_scope.

Inductive mode := Plain | UnsignedTrailer (k : trailer_kind) | Signed | SignedTrailer (k : trailer_kind).

Inductive uerrc := X_Sha256Mismatch | X_BadChunk (e : rerr) | X_BadUChunk (e : uerr) | X_InvalidDigest | X_BadChecksum
                 | X_TooLong | X_Incomplete.

Inductive outcome := Committed (stored : bytes) | Failed (e : uerrc).

(* checksum algorithms of x-amz-checksum-* *)
Inductive calgo := CCrc32 | CCrc32c | CSha1 | CSha256 | CCrc64nvme.

Record upload := {
  u_mode : mode;
  u_wire : bytes;                          (* the request body as received *)
  u_sha256 : option bytes;                 (* x-amz-content-sha256 when it is a hex digest; None for the special values *)
  u_md5 : option bytes;                    (* Content-MD5 (base64 text) *)
  u_cksum : option (calgo * bytes);        (* one x-amz-checksum-<algo> header (base64 text) *)
  u_declared : Z;                          (* X-Amz-Decoded-Content-Length if present else Content-Length *)
  u_frags : list (bytes * bool)            (* how the body stream delivers the wire bytes to the signed chunk reader *)
}.

Section Pipeline.
  Variables (sha256hex : bytes -> bytes) (md5b64 : bytes -> bytes) (cksum : calgo -> bytes -> bytes).
  (* the signed / unsigned chunk readers, already instantiated with key material and hash functions *)
  Variable run_signed : option trailer_kind -> list (bytes * bool) -> bytes * rerr.
  Variable run_unsigned : trailer_kind -> bytes -> bytes * uerr.

  (* what the chain of readers delivers to io.Copy before any end-of-stream verdict: decoded bytes or a decode error *)
  Definition decoded (u : upload) : bytes + uerrc :=
    match u_mode u with
    | Plain => inl (u_wire u)
    | UnsignedTrailer k =>
        match run_unsigned k (u_wire u) with (out, U_EOF) => inl out | (_, e) => inr (X_BadUChunk e) end
    | Signed =>
        match run_signed None (u_frags u) with (out, E_EOF) => inl out | (_, e) => inr (X_BadChunk e) end
    | SignedTrailer k =>
        match run_signed (Some k) (u_frags u) with (out, E_EOF) => inl out | (_, e) => inr (X_BadChunk e) end
    end.

  (* the upload: which error io.Copy returns first, or commit.
     - more decoded bytes than declared: some write exceeds the remaining length while streaming -> fails before any
       end-of-stream check (whatever the write sizes: the sum of the writes exceeds the declared length)
     - end-of-stream verdicts from the innermost reader outwards: payload hash, chunk framing/signatures (already in
       [decoded]), Content-MD5, checksum header
     - fewer bytes than declared: fails after the copy *)
  Definition upload_outcome (u : upload) : outcome :=
    let sha_ok := match u_sha256 u with Some h => beq (sha256hex (u_wire u)) h | None => true end in
    match decoded u with
    | inr e =>
        (* a plain-mode payload-hash mismatch is found at the source's EOF, before the chunk reader's own verdict only
           if the chunk reader read the source to its end; chunked modes carry a special (non-digest) sha256 value *)
        Failed e
    | inl d =>
        if (u_declared u <? Z.of_nat (List.length d))%Z then Failed X_TooLong else
        if negb sha_ok then Failed X_Sha256Mismatch else
        if match u_md5 u with Some m => negb (beq (md5b64 d) m) | None => false end then Failed X_InvalidDigest else
        if match u_cksum u with Some (a, v) => negb (beq (cksum a d) v) | None => false end then Failed X_BadChecksum else
        if (Z.of_nat (List.length d) <? u_declared u)%Z then Failed X_Incomplete else
        Committed d
    end.

  (* the key's content after the request *)
  Definition key_after (before : option bytes) (u : upload) : option bytes :=
    match upload_outcome u with Committed d => Some d | Failed _ => before end.
End Pipeline.
