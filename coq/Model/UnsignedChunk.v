(* Model of utils.UnsignedChunkReader (s3api/utils/unsigned-chunk-reader.go) over the byte stream its bufio.Reader
   delivers, with explicit destination buffer sizes. Transcribes the code after the fix: commit recorded in
   KNOWN_FINDINGS.txt (a negative chunk size is malformed; the payload is read through a limit reader, so nothing is
   allocated from the declared size and a stream that ends inside or right before chunk data is io.ErrUnexpectedEOF). *)
From Coq Require Import NArith ZArith List Bool String.
From VGW Require Import Base.Bytes Crypto.Crc Model.SignedChunk.
Import ListNotations.
Open Scope N_scope.

Inductive uerr := U_None | U_EOF | U_Malformed | U_UnexpectedEOF | U_Checksum | U_Panic.
Definition uerr_eqb (a b : uerr) : bool :=
  match a, b with
  | U_None, U_None | U_EOF, U_EOF | U_Malformed, U_Malformed | U_UnexpectedEOF, U_UnexpectedEOF
  | U_Checksum, U_Checksum | U_Panic, U_Panic => true
  | _, _ => false
  end.

Record ust := { rest : bytes;        (* bytes not yet consumed from the bufio reader *)
                ustash : bytes; uoff : nat;
                hashed : bytes }.    (* bytes written to the checksum hash *)

(* ReadString('\n'): the line including the newline; None = EOF before a newline *)
Fixpoint read_line (l acc : bytes) : option (bytes * bytes) :=
  match l with [] => None | c :: r => if c =? 10 then Some (acc ++ [c], r) else read_line r (acc ++ [c]) end.

Section UReader.
  Variable kind : trailer_kind.

  (* readTrailer on the remaining stream *)
  Definition read_trailer (s : ust) : uerr :=
    match read_until 13 (rest s) [] with
    | None => U_UnexpectedEOF
    | Some (buf, r1) =>
      match r1 with
      | a :: b :: c :: _ =>
        if negb (beq [a; b; c] [10; 13; 10]) then U_Malformed else
        let t := trim buf in
        match read_until 58 t [] with
        | None => U_Malformed
        | Some (name, value) =>
          if existsb (N.eqb 58) value then U_Malformed
          else if negb (beq name (trailer_name kind)) then U_Malformed
          else if beq value (trailer_sum kind (hashed s)) then U_EOF else U_Checksum
        end
      | _ => U_UnexpectedEOF
      end
    end.

  (* the chunk loop of Read on a destination of capacity b, out = bytes already placed in it *)
  Fixpoint chunk_loop (fuel : nat) (b : nat) (s : ust) (out : bytes) : bytes * uerr * ust :=
    match fuel with
    | O => ([], U_Panic, s)
    | S f =>
      match read_line (rest s) [] with
      | None => ([], U_Malformed, s)
      | Some (line, r1) =>
        match parse_hex (trim line) with
        | None => ([], U_Malformed, s)
        | Some size =>
          if (size =? 0)%Z then
            let s1 := {| rest := r1; ustash := ustash s; uoff := uoff s; hashed := hashed s |} in
            match read_trailer s1 with
            | U_EOF => (out, U_EOF, s1)
            | e => ([], e, s1)
            end
          else if (size <? 0)%Z then ([], U_Malformed, s)
          else if (Z.of_nat (List.length r1) <? size)%Z then ([], U_UnexpectedEOF, s)
          else
            let n := Z.to_nat size in
            let payload := firstn n r1 in
            let r2 := skipn n r1 in
            let s2 := {| rest := r2; ustash := ustash s; uoff := uoff s; hashed := hashed s ++ payload |} in
            match read_and_skip [13; 10] r2 with
            | R_eof => ([], U_UnexpectedEOF, s2)
            | R_bad => ([], U_Malformed, s2)
            | R_ok r3 =>
              let room := (b - uoff s)%nat in
              let tk := Nat.min room n in
              let out' := out ++ firstn tk payload in
              if Nat.ltb tk n then
                (out', U_None, {| rest := r3; ustash := skipn tk payload; uoff := 0; hashed := hashed s2 |})
              else chunk_loop f b {| rest := r3; ustash := ustash s; uoff := (uoff s + tk)%nat; hashed := hashed s2 |} out'
            end
        end
      end
    end.

  (* Read(p) with len(p) = b *)
  Definition uread (s : ust) (b : nat) : bytes * uerr * ust :=
    match ustash s with
    | [] => chunk_loop (S (List.length (rest s))) b s []
    | st =>
      let n := Nat.min b (List.length st) in
      if Nat.ltb n (List.length st) then
        (firstn n st, U_None, {| rest := rest s; ustash := skipn n st; uoff := 0; hashed := hashed s |})
      else (* whole stash copied; the stash is replaced or the stream ends before the next return *)
        chunk_loop (S (List.length (rest s))) b
          {| rest := rest s; ustash := ustash s; uoff := (uoff s + n)%nat; hashed := hashed s |} (firstn n st)
    end.

  (* successive Reads with the given destination sizes (dflt once the list is used up) until a non-nil result *)
  Fixpoint urun (fuel : nat) (s : ust) (bufs : list nat) (dflt : nat) (acc : bytes) : bytes * uerr :=
    match fuel with
    | O => (acc, U_Panic)
    | S f =>
      let '(b, bufs') := match bufs with x :: r => (x, r) | [] => (dflt, []) end in
      let '(out, e, s') := uread s b in
      match e with
      | U_None => urun f s' bufs' dflt (acc ++ out)
      | _ => (acc ++ out, e)
      end
    end.
  Definition uinit (stream : bytes) := {| rest := stream; ustash := []; uoff := 0; hashed := [] |}.
End UReader.
