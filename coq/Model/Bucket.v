(* Model for C16: bucket names (s3api/utils IsValidBucketName), the bucket table of the posix backend run sequentially
   (CreateBucket, DeleteBucket, bucket settings stored as attributes of the bucket directory, ListBuckets with the
   ownership filter), and the race between DeleteBucket and a publication (PutObject / CompleteMultipartUpload) as the
   filesystem steps the backend performs. *)
From Coq Require Import String Ascii List Arith Bool NArith.
From VGW Require Import Base.GoStr.
Import ListNotations.
Open Scope string_scope.

(* ---------- names *)
Definition is_lower_alnum (c : ascii) : bool :=
  let n := N_of_ascii c in ((97 <=? n) && (n <=? 122) || (48 <=? n) && (n <=? 57))%N.
Definition is_digit (c : ascii) : bool := let n := N_of_ascii c in ((48 <=? n) && (n <=? 57))%N.
Definition is_name_char (c : ascii) : bool := is_lower_alnum c || Ascii.eqb c "." || Ascii.eqb c "-".

Fixpoint all_chars (f : ascii -> bool) (s : string) : bool :=
  match s with EmptyString => true | String c r => f c && all_chars f r end.
Fixpoint last_char (s : string) : option ascii :=
  match s with EmptyString => None | String c EmptyString => Some c | String _ r => last_char r end.

(* ^(?:[0-9]{1,3}\.){3}[0-9]{1,3}$ *)
Definition is_octet (s : string) : bool := (1 <=? String.length s)%nat && (String.length s <=? 3)%nat && all_chars is_digit s.
Definition ip_shaped (s : string) : bool :=
  match split_char "." s with [a; b; c; d] => is_octet a && is_octet b && is_octet c && is_octet d | _ => false end.

Definition valid_bucket_name (s : string) : bool :=
  (3 <=? String.length s)%nat && (String.length s <=? 63)%nat &&
  match s with
  | EmptyString => false
  | String c _ => is_lower_alnum c && all_chars is_name_char s && match last_char s with Some l => is_lower_alnum l | None => false end
  end &&
  negb (str_contains s "..") && negb (ip_shaped s).

(* ---------- the bucket table *)
Record bucket := { b_owner : nat; b_settings : list (nat * nat); b_objects : nat }.     (* settings: kind -> document *)
Definition st := list (string * bucket).

Fixpoint bfind (s : st) (n : string) : option bucket :=
  match s with [] => None | (m, b) :: r => if String.eqb m n then Some b else bfind r n end.
Fixpoint bdel (s : st) (n : string) : st :=
  match s with [] => [] | (m, b) :: r => if String.eqb m n then r else (m, b) :: bdel r n end.
Fixpoint bset (s : st) (n : string) (b : bucket) : st :=
  match s with
  | [] => [(n, b)]
  | (m, x) :: r => if String.eqb m n then (n, b) :: r else (m, x) :: bset r n b
  end.
Fixpoint sfind (l : list (nat * nat)) (k : nat) : option nat :=
  match l with [] => None | (j, v) :: r => if Nat.eqb j k then Some v else sfind r k end.
Fixpoint sdel (l : list (nat * nat)) (k : nat) : list (nat * nat) :=
  match l with [] => [] | (j, v) :: r => if Nat.eqb j k then sdel r k else (j, v) :: sdel r k end.

Inductive err := InvalidBucketName | BucketAlreadyOwnedByYou | BucketAlreadyExists | NoSuchBucket | BucketNotEmpty | NoSuchSetting.
Inductive op :=
| Create (n : string) (caller : nat)
| Delete (n : string)
| PutSetting (n : string) (kind doc : nat)
| GetSetting (n : string) (kind : nat)
| DelSetting (n : string) (kind : nat)
| PutObject (n : string)
| DelObject (n : string)
| ListBuckets (caller : nat) (admin : bool).
Inductive out := O_ok | O_err (e : err) | O_doc (d : nat) | O_names (l : list string).

Definition with_settings (b : bucket) (l : list (nat * nat)) : bucket := {| b_owner := b_owner b; b_settings := l; b_objects := b_objects b |}.
Definition with_objects (b : bucket) (n : nat) : bucket := {| b_owner := b_owner b; b_settings := b_settings b; b_objects := n |}.

Definition step (s : st) (o : op) : st * out :=
  match o with
  | Create n caller =>
      if negb (valid_bucket_name n) then (s, O_err InvalidBucketName) else
      match bfind s n with
      | Some b => (s, O_err (if Nat.eqb (b_owner b) caller then BucketAlreadyOwnedByYou else BucketAlreadyExists))
      | None => (bset s n {| b_owner := caller; b_settings := []; b_objects := 0 |}, O_ok)
      end
  | Delete n =>
      match bfind s n with
      | None => (s, O_err NoSuchBucket)
      | Some b => if Nat.eqb (b_objects b) 0 then (bdel s n, O_ok) else (s, O_err BucketNotEmpty)
      end
  | PutSetting n k d =>
      match bfind s n with
      | None => (s, O_err NoSuchBucket)
      | Some b => (bset s n (with_settings b ((k, d) :: sdel (b_settings b) k)), O_ok)
      end
  | GetSetting n k =>
      match bfind s n with
      | None => (s, O_err NoSuchBucket)
      | Some b => match sfind (b_settings b) k with Some d => (s, O_doc d) | None => (s, O_err NoSuchSetting) end
      end
  | DelSetting n k =>
      match bfind s n with
      | None => (s, O_err NoSuchBucket)
      | Some b => (bset s n (with_settings b (sdel (b_settings b) k)), O_ok)
      end
  | PutObject n =>
      match bfind s n with
      | None => (s, O_err NoSuchBucket)
      | Some b => (bset s n (with_objects b (S (b_objects b))), O_ok)
      end
  | DelObject n =>
      match bfind s n with
      | None => (s, O_err NoSuchBucket)
      | Some b => (bset s n (with_objects b (pred (b_objects b))), O_ok)
      end
  | ListBuckets caller admin =>
      (s, O_names (map fst (filter (fun nb => admin || Nat.eqb (b_owner (snd nb)) caller) s)))
  end.

Fixpoint run (s : st) (ops : list op) : st * list out :=
  match ops with
  | [] => (s, [])
  | o :: r => let '(s1, x) := step s o in let '(s2, xs) := run s1 r in (s2, x :: xs)
  end.

(* ---------- DeleteBucket against publications: the filesystem steps *)
Record fs := { exists_ : bool; published : nat; acked : nat; deleted_ok : nat }.
Inductive fstep :=
| D_check_rmdir          (* the emptiness check passed earlier; now rmdir of the bucket directory: fails when an entry is there *)
| P_link                 (* publication of an upload into the bucket directory, then the acknowledgement *)
| P_unlink.              (* DeleteObject of a published object *)
Definition fs_step (s : fs) (x : fstep) : fs :=
  match x with
  | D_check_rmdir => if exists_ s && Nat.eqb (published s) 0
                     then {| exists_ := false; published := 0; acked := acked s; deleted_ok := S (deleted_ok s) |} else s
  | P_link => if exists_ s then {| exists_ := true; published := S (published s); acked := S (acked s); deleted_ok := deleted_ok s |} else s
  | P_unlink => if exists_ s && negb (Nat.eqb (published s) 0)
                then {| exists_ := true; published := pred (published s); acked := pred (acked s); deleted_ok := deleted_ok s |} else s
  end.
