(* Model for C11: what is durable of one key of the posix backend when the gateway process is killed between two
   filesystem steps of a request (repaired code: with_otmpfile.go link / fallbackLink, posix.go PutObject,
   CompleteMultipartUpload, DeleteObject).

   Durable: the directory entry of the key (None, or the published file, whose data and attributes were all written through
   its descriptor before it got its name), and files under the bucket's temporary directory, which no API call resolves.
   Not durable: an unnamed O_TMPFILE inode and everything the process had open.  A killed request is a prefix of its steps. *)
From Coq Require Import List Arith Bool.
Import ListNotations.

Record dstate := { dentry : option nat; leftovers : list nat; bucket_exists : bool }.
Inductive strategy := OTmpFile | NamedTemp.
Inductive step :=
| S_prepare (st : strategy) (b : nat)      (* create the temporary file, write data and attributes *)
| S_name (st : strategy) (b : nat)         (* O_TMPFILE only: give the file a name in the temporary directory *)
| S_publish (b : nat)                      (* rename over the object's name *)
| S_unlink                                 (* DeleteObject *)
| S_rm_bucket.                             (* DeleteBucket of a bucket without objects: temporary directory recursively, then rmdir *)

Fixpoint remove1 (b : nat) (l : list nat) : list nat :=
  match l with [] => [] | x :: r => if Nat.eqb x b then r else x :: remove1 b r end.

Definition do_step (s : dstate) (x : step) : dstate :=
  if negb (bucket_exists s) then s else
  match x with
  | S_prepare NamedTemp b => {| dentry := dentry s; leftovers := b :: leftovers s; bucket_exists := true |}
  | S_prepare OTmpFile _ => s
  | S_name OTmpFile b => {| dentry := dentry s; leftovers := b :: leftovers s; bucket_exists := true |}
  | S_name NamedTemp _ => s
  | S_publish b => {| dentry := Some b; leftovers := remove1 b (leftovers s); bucket_exists := true |}
  | S_unlink => {| dentry := None; leftovers := leftovers s; bucket_exists := true |}
  | S_rm_bucket => match dentry s with
                   | None => {| dentry := None; leftovers := []; bucket_exists := false |}
                   | Some _ => s
                   end
  end.

Inductive req := Write (st : strategy) (b : nat) | Delete.
Definition steps_of (r : req) : list step :=
  match r with Write st b => [S_prepare st b; S_name st b; S_publish b] | Delete => [S_unlink] end.

(* the request runs to completion / is killed after k steps *)
Definition exec (s : dstate) (r : req) : dstate := fold_left do_step (steps_of r) s.
Definition exec_killed (s : dstate) (r : req) (k : nat) : dstate := fold_left do_step (firstn k (steps_of r)) s.

(* what the API shows of the key *)
Definition visible (s : dstate) : option nat := if bucket_exists s then dentry s else None.
(* the register the requests implement *)
Definition spec (v : option nat) (r : req) : option nat := match r with Write _ b => Some b | Delete => None end.
