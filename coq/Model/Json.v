(* JSON documents as decoded trees (bytes -> tree is Go's encoding/json tokenizer, trusted and exercised by
   the correspondence runs: the harness serialises the tree it generated and hands the bytes to the real code). *)
From Coq Require Import String List Bool.
From VGW Require Import Base.GoStr.
Import ListNotations.
Open Scope string_scope.

Inductive json := JNull | JBool (b : bool) | JNum | JStr (s : string) | JArr (l : list json) | JObj (f : list (string * json)).

(* struct field match of encoding/json: exact or case-insensitive *)
Definition keq (k name : string) : bool := String.eqb (str_lower k) (str_lower name).

(* lookup as encoding/json does for a struct field that is assigned on each occurrence: last member wins *)
Fixpoint field (f : list (string * json)) (name : string) (acc : option json) : option json :=
  match f with
  | [] => acc
  | (k, v) :: r => field r name (if keq k name then Some v else acc)
  end.

(* a JSON array decoded into []string: null elements leave the zero value *)
Fixpoint all_strs (l : list json) : option (list string) :=
  match l with
  | [] => Some []
  | JStr s :: r => match all_strs r with Some t => Some (s :: t) | None => None end
  | JNull :: r => match all_strs r with Some t => Some ("" :: t) | None => None end
  | _ => None
  end.
