(* Model of the listing glue around backend.Walk: utils.ParseUint (max-keys), the marker choice of posix
   ListObjectsV2 (continuation token vs start-after) and ListObjects (marker). *)
From Coq Require Import String Ascii List ZArith Bool.
From VGW Require Import Base.GoStr Model.Walk.
Import ListNotations.
Open Scope string_scope.

Definition int32_max : Z := 2147483647.

(* strconv.ParseInt(s, 10, 32) *)
Definition parse_int32 (s : string) : option Z :=
  match parse_int10 s with
  | Some v => if (- int32_max - 1 <=? v)%Z && (v <=? int32_max)%Z then Some v else None
  | None => None
  end.

(* utils.ParseUint: None = InvalidMaxKeys-style error *)
Definition parse_uint (s : string) : option nat :=
  if String.eqb s "" then Some 1000 else
  match parse_int32 s with
  | None => None
  | Some v => if (v <? 0)%Z then None else Some (Z.to_nat (if (1000 <? v)%Z then 1000%Z else v))
  end.

(* posix ListObjectsV2: the controller always passes both parameters *)
Definition v2_marker (token start_after : string) : string :=
  if str_ltb token start_after then start_after else token.

Definition skip_tmp := [".sgwtmp"].

(* None = the request is refused (bad max-keys); Some None = backend error *)
Definition list_v2 (t : tree) (prefix delim token start_after maxkeys : string) : option (option result) :=
  match parse_uint maxkeys with
  | None => None
  | Some mx => Some (walk t prefix delim (v2_marker token start_after) mx skip_tmp false)
  end.

Definition list_v1 (t : tree) (prefix delim marker maxkeys : string) : option (option result) :=
  match parse_uint maxkeys with
  | None => None
  | Some mx => Some (walk t prefix delim marker mx skip_tmp false)
  end.
