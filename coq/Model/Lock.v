(* Model of the object-lock decisions of the gateway (C10): auth.CheckObjectAccess (auth/object_lock.go), which PutObject,
   CopyObject, CompleteMultipartUpload, DeleteObject and DeleteObjects consult before they replace or remove data, and the
   overwrite rule of PutObjectRetention (backend/posix/posix.go); together with a small state machine of one protected
   object version on which the destructive operations act only through these decisions. *)
From Coq Require Import List Bool ZArith.
Import ListNotations.

Inductive mode := Governance | Compliance.
(* what GetObjectRetention / GetObjectLegalHold answer for an object *)
Inductive ret_lookup := R_nokey | R_none | R_some (m : option mode) (active : bool).   (* active: retain-until date in the future *)
Inductive hold_lookup := H_nokey | H_none | H_some (on : bool).
(* the bucket's lock configuration *)
Inductive bucket_cfg := C_none | C_disabled | C_enabled (default : option (mode * bool)).   (* default rule and whether created+period is in the future *)
Inductive verdict := Allow | Locked.

(* the caller's way around GOVERNANCE: the request carries the bypass flag and the bucket policy grants the caller
   s3:BypassGovernanceRetention *)
Definition governance_passes (bypass policy_grants : bool) : bool := bypass && policy_grants.

Fixpoint check_objects (default : option (mode * bool)) (objs : list (ret_lookup * hold_lookup)) (bypass policy_grants : bool) : verdict :=
  match objs with
  | [] => Allow
  | (r, h) :: rest =>
      match r with
      | R_nokey => check_objects default rest bypass policy_grants            (* no such object: nothing to protect *)
      | _ =>
        let ret_blocks :=
          match r with
          | R_some (Some Governance) true => negb (governance_passes bypass policy_grants)
          | R_some (Some Compliance) true => true
          | _ => false
          end in
        if ret_blocks then Locked else
        match h with
        | H_nokey => check_objects default rest bypass policy_grants
        | _ =>
          if (match h with H_some true => true | _ => false end) then Locked else
          let def_blocks :=
            match default with
            | Some (Governance, true) => negb (governance_passes bypass policy_grants)
            | Some (Compliance, true) => true
            | _ => false
            end in
          if def_blocks then Locked else check_objects default rest bypass policy_grants
        end
      end
  end.

Definition check_object_access (cfg : bucket_cfg) (objs : list (ret_lookup * hold_lookup)) (bypass policy_grants : bool) : verdict :=
  match cfg with
  | C_none | C_disabled => Allow
  | C_enabled d => check_objects d objs bypass policy_grants
  end.

(* PutObjectRetention on an object that already has a retention: None = stored, Some = refused *)
Definition put_retention_allowed (existing : option mode) (bypass_ok : bool) : bool :=
  match existing with
  | None => true
  | Some Compliance => false
  | Some Governance => bypass_ok
  end.

(* ---- one protected version and the operations that could destroy it *)
Record pstate := {
  present : bool;                      (* the version's data is retrievable and unchanged *)
  hold : bool;
  ret : option (mode * bool);          (* its retention and whether the date is still ahead *)
  lock_enabled : bool;                 (* the bucket was created with object lock (cannot be switched off) *)
}.
Inductive dop :=
| Destroy (bypass policy_grants : bool)           (* overwrite / copy onto / multipart completion onto / delete / batch delete of the version *)
| SetRetention (m : mode) (active : bool) (bypass_ok : bool)
| SetHold (on : bool)
| PutLockConfig                                  (* any lock configuration document *)
| Other.                                         (* any other request *)

Definition lookup_ret (s : pstate) : ret_lookup :=
  if present s then match ret s with Some (m, a) => R_some (Some m) a | None => R_none end else R_nokey.
Definition lookup_hold (s : pstate) : hold_lookup :=
  if present s then (if hold s then H_some true else H_none) else H_nokey.

Definition dstep (s : pstate) (o : dop) : pstate :=
  match o with
  | Destroy bypass pg =>
      match check_object_access (if lock_enabled s then C_enabled None else C_none) [(lookup_ret s, lookup_hold s)] bypass pg with
      | Allow => {| present := false; hold := hold s; ret := ret s; lock_enabled := lock_enabled s |}
      | Locked => s
      end
  | SetRetention m a bok =>
      if put_retention_allowed (option_map fst (ret s)) bok
      then {| present := present s; hold := hold s; ret := Some (m, a); lock_enabled := lock_enabled s |} else s
  | SetHold on => {| present := present s; hold := on; ret := ret s; lock_enabled := lock_enabled s |}
  | PutLockConfig => s
  | Other => s
  end.

(* protected against a caller: under legal hold, or COMPLIANCE not yet expired, or GOVERNANCE not yet expired *)
Definition protected (s : pstate) : bool :=
  lock_enabled s && (hold s || match ret s with Some (_, true) => true | _ => false end).

(* the version an upload creates (PutObject, CopyObject, CompleteMultipartUpload alike) in a lock-enabled bucket: the retention the
   request asked for, else the bucket's default rule at that moment (posix.go applyDefaultRetention), else none *)
Definition uploaded (asked : option mode) (default_rule : option mode) (hold_on : bool) : pstate :=
  {| present := true; hold := hold_on;
     ret := match asked with Some m => Some (m, true) | None => match default_rule with Some m => Some (m, true) | None => None end end;
     lock_enabled := true |}.
