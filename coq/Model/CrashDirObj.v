(* Model for C11, directory objects: PutObject of a key ending in "/" writes onto the directory itself (posix.go PutObject, directory
   branch): it removes the user metadata an earlier upload left, stores the new user metadata attribute by attribute, then the ETag
   attribute (which is what makes the directory an object and lets listings show it). A killed request is a prefix of these writes. *)
From Coq Require Import List Arith Bool.
Import ListNotations.

Record dobj := { is_object : bool; umeta : list (nat * nat) }.       (* user metadata: (key, value) *)
Inductive dwrite := W_remove (k : nat) | W_store (k v : nat) | W_etag.

Definition do_dwrite (s : dobj) (w : dwrite) : dobj :=
  match w with
  | W_remove k => {| is_object := is_object s; umeta := filter (fun kv => negb (Nat.eqb (fst kv) k)) (umeta s) |}
  | W_store k v => {| is_object := is_object s; umeta := (k, v) :: filter (fun kv => negb (Nat.eqb (fst kv) k)) (umeta s) |}
  | W_etag => {| is_object := true; umeta := umeta s |}
  end.

(* the writes of an upload with the user metadata [new] onto a directory whose attributes hold [umeta s] *)
Definition upload_writes (s : dobj) (new : list (nat * nat)) : list dwrite :=
  map (fun kv => W_remove (fst kv)) (umeta s) ++ map (fun kv => W_store (fst kv) (snd kv)) new ++ [W_etag].

Definition killed_after (s : dobj) (new : list (nat * nat)) (n : nat) : dobj := fold_left do_dwrite (firstn n (upload_writes s new)) s.

(* what the API shows of the key: nothing unless the directory is an object, else its user metadata (as a set) *)
Definition shows (s : dobj) : option (list (nat * nat)) := if is_object s then Some (umeta s) else None.
Definition same_meta (a b : list (nat * nat)) : bool :=
  forallb (fun x => existsb (fun y => Nat.eqb (fst x) (fst y) && Nat.eqb (snd x) (snd y)) b) a &&
  forallb (fun x => existsb (fun y => Nat.eqb (fst x) (fst y) && Nat.eqb (snd x) (snd y)) a) b.
