(* Model of auth.Resources.Match (auth/bucket_policy_resources.go): the two-index loop with one
   remembered backtrack point, as a function on suffixes. State: pattern suffix at pIdx, subject suffix at
   sIdx, bt = Some (pattern suffix after the remembered star, subject suffix at matchIdx). Recursion on
   explicit fuel; Proofs/GlobProof.v shows the fuel of [go_match] is never exhausted. *)
From Coq Require Import Ascii List Arith Lia Bool String.
Import ListNotations.

Definition str := list ascii.
Definition is_star (c : ascii) := Ascii.eqb c "*"%char.
Definition is_q (c : ascii) := Ascii.eqb c "?"%char.

Fixpoint all_stars (p : str) : bool :=
  match p with [] => true | c :: p' => is_star c && all_stars p' end.

Definition backtrack (go : str -> str -> option (str * str) -> bool) (bt : option (str * str)) : bool :=
  match bt with
  | Some (pp, _ :: ms') => go pp ms' (Some (pp, ms'))
  | _ => false
  end.

(* a '*' of the pattern is always the wildcard; then '?' / literal comparison; then backtracking *)
Fixpoint go (fuel : nat) (p s : str) (bt : option (str * str)) : bool :=
  match fuel with
  | O => false
  | S f =>
    match s with
    | [] => all_stars p
    | c :: s' =>
      match p with
      | pc :: p' =>
          if is_star pc then go f p' s (Some (p', s))
          else if is_q pc || Ascii.eqb pc c then go f p' s' bt
          else backtrack (go f) bt
      | [] => backtrack (go f) bt
      end
    end
  end.

Definition fuel_for (p s : str) : nat := (List.length s + 1) * (List.length p + 2) + 1.
Definition go_match (p s : str) : bool := go (fuel_for p s) p s None.

Definition glob_match (pattern subject : string) : bool :=
  go_match (list_ascii_of_string pattern) (list_ascii_of_string subject).
