(* Model for C05: one key of the posix backend under concurrent requests, as the filesystem steps the (repaired) code
   performs (backend/posix/with_otmpfile.go link / fallbackLink, posix.go PutObject / CompleteMultipartUpload /
   DeleteObject / getFileObject / HeadObject).

   A writer prepares a file nobody else can reach (an unnamed O_TMPFILE inode, or a temp name below .sgwtmp that the API
   never resolves), writes data and all attributes (ETag, metadata, tags, lock attributes) through its descriptor, and
   publishes it with one rename over the object's name.  A deleter unlinks the name.  A reader opens the name once and
   reads size, attributes and data through that descriptor.  The directory entry is the only shared mutable cell; inodes
   are immutable once published (an inode enters the table at its publication, under a fresh number).

   The two protocols the code used before the repairs are modelled next to it (publication by unlink-then-link; reader
   by stat / getxattr-by-path / open-by-path) with the executions that violate the property, as a record of what the
   theorems exclude. *)
From Coq Require Import List Arith Bool.
Import ListNotations.

Definition inode := nat.
(* the content of a write is one number: body, length, ETag and metadata of write b are all "b" *)
Record fs := { next : inode; tbl : list (inode * nat); entry : option inode; log : list (option nat) }.
(* log: the linearization events so far, newest first: Some b = write b published, None = deleted *)

Fixpoint lookup (t : list (inode * nat)) (i : inode) : option nat :=
  match t with [] => None | (j, v) :: r => if Nat.eqb i j then Some v else lookup r i end.

Inductive rres := NotFound | Got (b : nat).
Inductive thread :=
| TW (b : nat) (published : bool)          (* writer of content b: before / after its rename *)
| TD (done : bool)                          (* deleter: before / after its unlink *)
| TR0                                       (* reader before its open *)
| TR1 (i : option inode)                    (* reader holding the descriptor it got from open *)
| TRdone (r : rres).

Definition step (f : fs) (t : thread) : fs * thread :=
  match t with
  | TW b false => ({| next := S (next f); tbl := (next f, b) :: tbl f; entry := Some (next f); log := Some b :: log f |}, TW b true)
  | TW b true => (f, t)
  | TD false => ({| next := next f; tbl := tbl f; entry := None; log := None :: log f |}, TD true)
  | TD true => (f, t)
  | TR0 => (f, TR1 (entry f))
  | TR1 None => (f, TRdone NotFound)
  | TR1 (Some i) => (f, TRdone (match lookup (tbl f) i with Some b => Got b | None => NotFound end))
  | TRdone _ => (f, t)
  end.

Fixpoint set_nth {A} (l : list A) (n : nat) (x : A) : list A :=
  match l, n with [], _ => [] | _ :: r, O => x :: r | y :: r, S n' => y :: set_nth r n' x end.
Definition step_at (st : fs * list thread) (k : nat) : fs * list thread :=
  match nth_error (snd st) k with
  | None => st
  | Some t => let '(f', t') := step (fst st) t in (f', set_nth (snd st) k t')
  end.
Definition run (st : fs * list thread) (sched : list nat) : fs * list thread := fold_left step_at sched st.

(* the register the key is, abstractly *)
Definition reg_of_log (l : list (option nat)) : option nat := match l with [] => None | e :: _ => e end.
Definition abs (f : fs) : option nat := match entry f with Some i => lookup (tbl f) i | None => None end.
Definition res_of (v : option nat) : rres := match v with Some b => Got b | None => NotFound end.

Definition fs0 : fs := {| next := 0; tbl := []; entry := None; log := [] |}.
(* a key that already holds write b0 *)
Definition fs_with (b0 : nat) : fs := {| next := 1; tbl := [(0, b0)]; entry := Some 0; log := [Some b0] |}.

(* ---------- the protocols before the repairs (for the record) *)
Record ofs := { onext : inode; otbl : list (inode * (nat * option nat)); oentry : option inode }.   (* inode -> (data, etag attribute) *)
Fixpoint olookup (t : list (inode * (nat * option nat))) (i : inode) :=
  match t with [] => None | (j, v) :: r => if Nat.eqb i j then Some v else olookup r i end.
Inductive orres := ONotFound | OGot (etag : option nat) (data : nat).
Inductive othread :=
| OW (b : nat) (pc : nat) (i : inode)       (* 0 prepare, 1 unlink the old name, 2 link the new inode, 3 done *)
| OR (pc : nat) (e : option nat) (r : option orres).   (* 0 stat, 1 getxattr by path, 2 open by path and read, 3 done *)
Definition oetag (f : ofs) : option nat :=
  match oentry f with Some i => match olookup (otbl f) i with Some (_, e) => e | None => None end | None => None end.
Definition ostep (f : ofs) (t : othread) : ofs * othread :=
  match t with
  | OW b 0 _ => ({| onext := S (onext f); otbl := (onext f, (b, Some b)) :: otbl f; oentry := oentry f |}, OW b 1 (onext f))
  | OW b 1 i => ({| onext := onext f; otbl := otbl f; oentry := None |}, OW b 2 i)
  | OW b 2 i => ({| onext := onext f; otbl := otbl f; oentry := Some i |}, OW b 3 i)
  | OR 0 _ _ => (f, match oentry f with None => OR 3 None (Some ONotFound) | Some _ => OR 1 None None end)
  | OR 1 _ _ => (f, OR 2 (oetag f) None)
  | OR 2 e _ => (f, OR 3 e (Some (match oentry f with
                                  | None => ONotFound
                                  | Some i => match olookup (otbl f) i with Some (d, _) => OGot e d | None => ONotFound end
                                  end)))
  | _ => (f, t)
  end.
Definition ostep_at (st : ofs * list othread) (k : nat) : ofs * list othread :=
  match nth_error (snd st) k with
  | None => st
  | Some t => let '(f', t') := ostep (fst st) t in (f', set_nth (snd st) k t')
  end.
Definition orun (st : ofs * list othread) (sched : list nat) := fold_left ostep_at sched st.
