(* Model of auth.IAMCache over auth.IAMServiceInternal (auth/iam_cache.go, iam_internal.go, iam.go): sequential
   histories with explicit time, and the small-step lookup/delete machines used for the schedule witness.
   Transcribes the code after the fix: commit recorded in KNOWN_FINDINGS.txt (CreateAccount caches all five fields). *)
From Coq Require Import List ZArith String Bool Arith.
Import ListNotations.
Open Scope string_scope.

Record account := { secret : string; role : string; uid : Z; gid : Z }.
Record props := { p_secret : option string; p_uid : option Z; p_gid : option Z }.

(* updateAcc *)
Definition upd (a : account) (p : props) : account :=
  {| secret := match p_secret p with Some x => x | None => secret a end; role := role a;
     uid := match p_uid p with Some x => x | None => uid a end;
     gid := match p_gid p with Some x => x | None => gid a end |}.

Definition amap (V : Type) := list (string * V).
Fixpoint find {V} (m : amap V) (k : string) : option V :=
  match m with [] => None | (j, v) :: r => if String.eqb k j then Some v else find r k end.
Fixpoint remove {V} (m : amap V) (k : string) : amap V :=
  match m with [] => [] | (j, v) :: r => if String.eqb k j then remove r k else (j, v) :: remove r k end.
Definition put {V} (m : amap V) (k : string) (v : V) : amap V := (k, v) :: remove m k.

(* store = the accounts file; cache entries carry their expiry time; root is configured, not stored *)
Record st := { store : amap account; cache : amap (account * nat); now : nat }.
Inductive op := Create (k : string) (a : account) | Update (k : string) (p : props) | Delete (k : string)
              | Lookup (k : string) | Tick (n : nat).
Inductive out := OK | Exists | NoSuchUser | Found (a : account).

Section Cache.
  Variable ttl : nat.
  Variables (root : string) (root_acct : account).

  Definition fresh (s : st) (k : string) : option account :=
    match find (cache s) k with
    | Some (c, e) => if Nat.ltb (now s) e then Some c else None      (* exp.After(now) *)
    | None => None
    end.

  (* IAMServiceInternal.GetUserAccount *)
  Definition service_get (s : st) (k : string) : option account :=
    if String.eqb k root then Some root_acct else find (store s) k.

  Definition step (s : st) (o : op) : st * out :=
    match o with
    | Create k a =>
        if String.eqb k root then (s, Exists) else
        match find (store s) k with
        | Some _ => (s, Exists)
        | None => ({| store := put (store s) k a; cache := put (cache s) k (a, now s + ttl); now := now s |}, OK)
        end
    | Update k p =>
        match find (store s) k with
        | None => (s, NoSuchUser)
        | Some a => ({| store := put (store s) k (upd a p);
                        cache := match find (cache s) k with
                                 | Some (c, _) => put (cache s) k (upd c p, now s + ttl)
                                 | None => cache s end;
                        now := now s |}, OK)
        end
    | Delete k => ({| store := remove (store s) k; cache := remove (cache s) k; now := now s |}, OK)
    | Lookup k =>
        match fresh s k with
        | Some c => (s, Found c)
        | None =>
            match service_get s k with
            | Some a => ({| store := store s; cache := put (cache s) k (a, now s + ttl); now := now s |}, Found a)
            | None => (s, NoSuchUser)
            end
        end
    | Tick n => ({| store := store s; cache := cache s; now := now s + n |}, OK)
    end.

  Fixpoint run (s : st) (ops : list op) : list out :=
    match ops with [] => [] | o :: r => let '(s', x) := step s o in x :: run s' r end.
End Cache.

Definition s0 := {| store := []; cache := []; now := 0 |}.

(* ---- small-step machines of one lookup and one delete of the same account, under every schedule ----
   The miss path of a lookup (service fetch, cache insertion) and an account change (store change, cache change) are
   each done under the cache's mutex: a thread that cannot take the mutex does not move (its step is a stutter). *)
Inductive lpc := L_start | L_fetched (a : option account) | L_done (r : out).
Inductive dpc := D_start | D_store_done | D_done.
Inductive who := StepLookup | StepDelete.
Record cfg := { c_st : st; c_l : lpc; c_d : dpc; c_lock : option who }.

Definition who_eqb (a b : who) : bool := match a, b with StepLookup, StepLookup | StepDelete, StepDelete => true | _, _ => false end.
Definition may_lock (c : cfg) (w : who) : bool := match c_lock c with None => true | Some h => who_eqb h w end.

Definition sched_step (ttl : nat) (k : string) (c : cfg) (w : who) : cfg :=
  let s := c_st c in
  match w with
  | StepLookup =>
      match c_l c with
      | L_start =>
          match fresh s k with
          | Some a => {| c_st := s; c_l := L_done (Found a); c_d := c_d c; c_lock := c_lock c |}
          | None => if may_lock c StepLookup
                    then {| c_st := s; c_l := L_fetched (find (store s) k); c_d := c_d c; c_lock := Some StepLookup |}   (* lock, service fetch *)
                    else c
          end
      | L_fetched (Some a) =>                                                                 (* cache set, unlock *)
          {| c_st := {| store := store s; cache := put (cache s) k (a, now s + ttl); now := now s |};
             c_l := L_done (Found a); c_d := c_d c; c_lock := None |}
      | L_fetched None => {| c_st := s; c_l := L_done NoSuchUser; c_d := c_d c; c_lock := None |}
      | L_done _ => c
      end
  | StepDelete =>
      match c_d c with
      | D_start => if may_lock c StepDelete
                   then {| c_st := {| store := remove (store s) k; cache := cache s; now := now s |}; c_l := c_l c; c_d := D_store_done;
                           c_lock := Some StepDelete |}
                   else c
      | D_store_done => {| c_st := {| store := store s; cache := remove (cache s) k; now := now s |}; c_l := c_l c; c_d := D_done; c_lock := None |}
      | D_done => c
      end
  end.
