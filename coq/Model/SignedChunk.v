(* Model of utils.ChunkReader (s3api/utils/signed-chunk-reader.go), the signed aws-chunked reader with or without
   a trailing checksum, as a pure function from (state, delivered fragment, eof flag) to (payload bytes returned,
   result, state). Transcribes the code after the fix: commit recorded in KNOWN_FINDINGS.txt (the CRLF before a
   non-first header is checked on the stashed bytes as well and no in-place shift is made; a source that ends
   outside the final chunk is io.ErrUnexpectedEOF; a negative chunk size is refused).
   The hash functions are Section variables: no theorem depends on cryptographic properties. *)
From Coq Require Import NArith ZArith List Bool String.
From VGW Require Import Base.Bytes Crypto.Crc.
Import ListNotations.
Open Scope N_scope.

Inductive rerr := E_None | E_EOF | E_InvalidChunk | E_Malformed | E_SigMismatch | E_BadDigest
                | E_InvalidTrailer | E_UnexpectedEOF | E_Panic.

Definition rerr_eqb (a b : rerr) : bool :=
  match a, b with
  | E_None, E_None | E_EOF, E_EOF | E_InvalidChunk, E_InvalidChunk | E_Malformed, E_Malformed
  | E_SigMismatch, E_SigMismatch | E_BadDigest, E_BadDigest | E_InvalidTrailer, E_InvalidTrailer
  | E_UnexpectedEOF, E_UnexpectedEOF | E_Panic, E_Panic => true
  | _, _ => false
  end.

(* trailing checksum kinds the model can compute *)
Inductive trailer_kind := TCrc32 | TCrc32c.
Definition trailer_name (t : trailer_kind) : bytes :=
  match t with TCrc32 => bytes_of_string "x-amz-checksum-crc32" | TCrc32c => bytes_of_string "x-amz-checksum-crc32c" end.
Definition trailer_sum (t : trailer_kind) (data : bytes) : bytes :=
  base64 (be32 (match t with TCrc32 => crc32 data | TCrc32c => crc32c data end)).
(* IsValidChecksum: base64 that decodes to the algorithm's length (4 bytes for both CRC-32 variants) *)
Definition valid_checksum (t : trailer_kind) (c : bytes) : bool :=
  match b64_len c with Some 4%nat => true | _ => false end.

Record cst := { stash : option bytes; left : Z; prevSig : bytes; parsedSig : bytes;
                hbuf : bytes;      (* bytes written to the per-chunk hash since its last reset *)
                cbuf : bytes;      (* bytes written to the object checksum hash *)
                firstHdr : bool; isEOF : bool; trailerSig : bytes; parsedChecksum : bytes }.

Definition init (seed : bytes) : cst :=
  {| stash := None; left := 0; prevSig := seed; parsedSig := []; hbuf := []; cbuf := []; firstHdr := true;
     isEOF := false; trailerSig := []; parsedChecksum := [] |}.

Definition zeroLenSig := bytes_of_string "e3b0c44298fc1c149afbf4c8996fb92427ae41e4649b934ca495991b7852b855".
Definition chunkSigKw := bytes_of_string "chunk-signature=".
Definition trailerSigKw := bytes_of_string "x-amz-trailer-signature".

Section Reader.
  Variables (sha256 : bytes -> bytes) (hmac256 : bytes -> bytes -> bytes) (hex : bytes -> bytes).
  Variables (key : bytes)              (* signing key *)
            (stsPayload : bytes)       (* "AWS4-HMAC-SHA256-PAYLOAD\n<date>\n<scope>" *)
            (stsTrailer : bytes)       (* "AWS4-HMAC-SHA256-TRAILER\n<date>\n<scope>" *)
            (trailer : option trailer_kind).

  Definition chunk_signature (prev data : bytes) : bytes :=
    hex (hmac256 key (stsPayload ++ [10] ++ prev ++ [10] ++ zeroLenSig ++ [10] ++ hex (sha256 data))).

  Definition trailer_signature (t : trailer_kind) (prev checksum : bytes) : bytes :=
    hex (hmac256 key (stsTrailer ++ [10] ++ prev ++ [10] ++ hex (sha256 (trailer_name t ++ [58] ++ checksum ++ [10])))).

  (* checkSignature: resets the chunk hash, advances prevSig, compares with the parsed signature *)
  Definition check_sig (s : cst) : cst * bool :=
    let sig := chunk_signature (prevSig s) (hbuf s) in
    let ok := beq sig (parsedSig s) in
    ({| stash := stash s; left := left s; prevSig := sig; parsedSig := if ok then [] else parsedSig s;
        hbuf := []; cbuf := cbuf s; firstHdr := firstHdr s; isEOF := isEOF s;
        trailerSig := trailerSig s; parsedChecksum := parsedChecksum s |}, ok).

  Definition hash_data (s : cst) (d : bytes) : cst :=
    {| stash := stash s; left := left s; prevSig := prevSig s; parsedSig := parsedSig s;
       hbuf := hbuf s ++ d; cbuf := cbuf s ++ d; firstHdr := firstHdr s; isEOF := isEOF s;
       trailerSig := trailerSig s; parsedChecksum := parsedChecksum s |}.
  Definition set_left (s : cst) (l : Z) : cst :=
    {| stash := stash s; left := l; prevSig := prevSig s; parsedSig := parsedSig s; hbuf := hbuf s; cbuf := cbuf s;
       firstHdr := firstHdr s; isEOF := isEOF s; trailerSig := trailerSig s; parsedChecksum := parsedChecksum s |}.
  Definition set_stash (s : cst) (st : option bytes) : cst :=
    {| stash := st; left := left s; prevSig := prevSig s; parsedSig := parsedSig s; hbuf := hbuf s; cbuf := cbuf s;
       firstHdr := firstHdr s; isEOF := isEOF s; trailerSig := trailerSig s; parsedChecksum := parsedChecksum s |}.
  Definition set_parsed (s : cst) (sig : bytes) : cst :=
    {| stash := stash s; left := left s; prevSig := prevSig s; parsedSig := sig; hbuf := hbuf s; cbuf := cbuf s;
       firstHdr := firstHdr s; isEOF := isEOF s; trailerSig := trailerSig s; parsedChecksum := parsedChecksum s |}.
  Definition set_eof (s : cst) (b : bool) : cst :=
    {| stash := stash s; left := left s; prevSig := prevSig s; parsedSig := parsedSig s; hbuf := hbuf s; cbuf := cbuf s;
       firstHdr := firstHdr s; isEOF := b; trailerSig := trailerSig s; parsedChecksum := parsedChecksum s |}.
  Definition reset_hash (s : cst) : cst :=
    {| stash := stash s; left := left s; prevSig := prevSig s; parsedSig := parsedSig s; hbuf := []; cbuf := cbuf s;
       firstHdr := firstHdr s; isEOF := isEOF s; trailerSig := trailerSig s; parsedChecksum := parsedChecksum s |}.

  (* outcome of parseChunkHeaderBytes *)
  Inductive ph :=
  | PH_skip (s : cst)                                     (* header incomplete: stashed, wait for more bytes *)
  | PH_err (e : rerr)
  | PH_ok (s : cst) (size : Z) (sig : bytes) (off : Z).   (* off: where the chunk data starts in p *)

  Definition parse_header (s : cst) (p : bytes) : ph :=
    let stashLen := match stash s with Some st => List.length st | None => O end in
    if Nat.ltb 1024 stashLen then PH_err E_InvalidChunk else
    let header := match stash s with Some st => st ++ p | None => p end in
    let s0 := set_stash s None in
    (* handleRdrErr *)
    let on_eof := if isEOF s then PH_err E_InvalidChunk else PH_skip (set_stash s0 (Some header)) in
    let skip_k (exp l : bytes) (k : bytes -> ph) : ph :=
      match read_and_skip exp l with R_ok r => k r | R_eof => on_eof | R_bad => PH_err E_Malformed end in
    let until_k (d : N) (l : bytes) (k : bytes -> bytes -> ph) : ph :=
      match read_until d l [] with Some (a, r) => k a r | None => on_eof end in
    let start (k : bytes -> nat -> ph) : ph :=
      if firstHdr s then k header O else skip_k [13; 10] header (fun r => k r 2%nat) in
    start (fun r0 skip =>
    until_k 59 r0 (fun sizeStr r1 =>
    match parse_hex sizeStr with
    | None => PH_err E_InvalidChunk
    | Some size =>
      if (size <? 0)%Z then PH_err E_InvalidChunk else
      skip_k chunkSigKw r1 (fun r2 =>
      until_k 13 r2 (fun sig r3 =>
      if (size =? 0)%Z then
        match trailer with
        | Some t =>
            skip_k [10] r3 (fun r4 =>
            until_k 58 r4 (fun tname r5 =>
            if negb (beq tname (trailer_name t)) then PH_err E_InvalidChunk else
            until_k 13 r5 (fun checksum r6 =>
            if negb (valid_checksum t checksum) then PH_err E_InvalidTrailer else
            skip_k [10] r6 (fun r7 =>
            until_k 58 r7 (fun tsp r8 =>
            if negb (beq tsp trailerSigKw) then PH_err E_InvalidChunk else
            until_k 13 r8 (fun tsig r9 =>
            skip_k [10; 13; 10] r9 (fun _ =>
              PH_ok {| stash := None; left := left s; prevSig := prevSig s; parsedSig := parsedSig s; hbuf := hbuf s;
                       cbuf := cbuf s; firstHdr := firstHdr s; isEOF := isEOF s; trailerSig := tsig;
                       parsedChecksum := checksum |} 0 sig 0)))))))
        | None => skip_k [10; 13; 10] r3 (fun _ => PH_ok s0 0 sig 0)
        end
      else
        (* a data chunk is verified when the header after it arrives, and only if it declared a signature *)
        if (match sig with [] => true | _ => false end) then PH_err E_SigMismatch else
        skip_k [10] r3 (fun _ =>
        match index_crlf (skipn skip header) O with
        | None => PH_err E_Panic     (* unreachable: a CRLF was just read *)
        | Some ind =>
            PH_ok {| stash := None; left := left s; prevSig := prevSig s; parsedSig := parsedSig s; hbuf := hbuf s;
                     cbuf := cbuf s; firstHdr := false; isEOF := isEOF s; trailerSig := trailerSig s;
                     parsedChecksum := parsedChecksum s |}
                  size sig (Z.of_nat (ind + skip + 2) - Z.of_nat stashLen)
        end)))
    end)).

  (* parseAndRemoveChunkInfo: returns the payload bytes delivered from p, the result, the new state *)
  Fixpoint par (fuel : nat) (s : cst) (p : bytes) : bytes * rerr * cst :=
    match fuel with
    | O => ([], E_Panic, s)
    | S f =>
      let '(s1, ok) := match parsedSig s with [] => (s, true) | _ => check_sig s end in
      if negb ok then ([], E_SigMismatch, s1) else
      match parse_header s1 p with
      | PH_skip s2 => ([], E_None, set_left s2 0)
      | PH_err e => ([], e, s1)
      | PH_ok s2 size sig off =>
        let s3 := set_parsed s2 sig in
        if (size =? 0)%Z then
          let '(s4, ok2) := check_sig (reset_hash s3) in
          if negb ok2 then ([], E_SigMismatch, s4) else
          match trailer with
          | Some t =>
              if negb (beq (trailer_sum t (cbuf s4)) (parsedChecksum s4)) then ([], E_BadDigest, s4)
              else if negb (beq (trailer_signature t (prevSig s4) (parsedChecksum s4)) (trailerSig s4)) then ([], E_SigMismatch, s4)
              else ([], E_EOF, s4)
          | None => ([], E_EOF, s4)
          end
        else
          if (off <? 0)%Z || (Z.of_nat (List.length p) <? off)%Z then ([], E_Panic, s3) else
          let data := skipn (Z.to_nat off) p in
          let n := Z.of_nat (List.length data) in
          if (size <? n)%Z then
            let d := firstn (Z.to_nat size) data in
            let '(out, e, s5) := par f (hash_data (set_left s3 0) d) (skipn (Z.to_nat size) data) in
            (d ++ out, e, s5)
          else (data, E_None, hash_data (set_left s3 (size - n)) data)
      end
    end.

  (* Read: one delivery of the source (fragment, whether the source reports EOF with it) *)
  Definition read (s : cst) (frag : bytes) (eof : bool) : bytes * rerr * cst :=
    let s := set_eof s eof in
    let n := Z.of_nat (List.length frag) in
    if (left s <? n)%Z then
      let k := Z.to_nat (left s) in
      let d := firstn k frag in
      let s1 := if (0 <? left s)%Z then hash_data s d else s in
      let '(out, e, s2) := par (S (List.length frag)) s1 (skipn k frag) in
      (d ++ out, e, s2)
    else
      let s1 := hash_data (set_left s (left s - n)) frag in
      (frag, (if eof then E_UnexpectedEOF else E_None), s1).

  (* a whole delivery schedule; after the last fragment the source keeps answering (0, EOF) *)
  Fixpoint run (s : cst) (frags : list (bytes * bool)) (acc : bytes) : bytes * rerr :=
    match frags with
    | [] => let '(out, e, _) := read s [] true in (acc ++ out, e)
    | (f, eof) :: r =>
        let '(out, e, s') := read s f eof in
        match e with
        | E_None => run s' r (acc ++ out)
        | _ => (acc ++ out, e)
        end
    end.
End Reader.
