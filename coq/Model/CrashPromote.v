(* Model for C11 in a versioning-enabled bucket: DeleteObject ?versionId=<id of the current version>. The current version goes
   away and the newest version kept in the versioning directory takes its place (posix.go DeleteObject, branch "the specified
   VersionId is the same as in the latest version"). A killed request is a prefix of the steps.

   What the API shows (fileToObjVersions, GetObject): versions are found through the key's entry in the bucket directory - while
   there is no current file, nothing of the key is listed or readable, whatever the versioning directory holds. With a current
   file: the current entry under its id (a file that does not carry its attributes yet reads as the "null" version, id 0 here),
   and every archived entry whose id differs from the current one (an archived copy with the id of the current entry is taken for
   the leftover of an interrupted overwrite and hidden). *)
From Coq Require Import List Arith Bool.
Import ListNotations.

Record pcur := { p_data : nat; p_vid : nat; p_attrs : bool }.
Record pstate := { pcurrent : option pcur; parchive : list (nat * nat) }.      (* archive: (version id, data), newest first *)

Inductive pstep :=
| P_drop_stale (v : nat)                (* remove an archived copy that carries the id v *)
| P_remove_current                      (* remove the current file *)
| P_publish (v d : nat) (attrs : bool)  (* rename a prepared file (data d; with or without its attributes, id v) over the name *)
| P_set_attrs (v : nat)                 (* write the attributes (version id v among them) onto the current file *)
| P_remove_archived (v : nat).          (* remove the archived version v *)

Definition drop (v : nat) (a : list (nat * nat)) : list (nat * nat) := filter (fun e => negb (Nat.eqb (fst e) v)) a.

Definition do_pstep (s : pstate) (x : pstep) : pstate :=
  match x with
  | P_drop_stale v => {| pcurrent := pcurrent s; parchive := drop v (parchive s) |}
  | P_remove_current => {| pcurrent := None; parchive := parchive s |}
  | P_publish v d at_ => {| pcurrent := Some {| p_data := d; p_vid := v; p_attrs := at_ |}; parchive := parchive s |}
  | P_set_attrs v => {| pcurrent := match pcurrent s with
                                    | Some c => Some {| p_data := p_data c; p_vid := v; p_attrs := true |}
                                    | None => None end; parchive := parchive s |}
  | P_remove_archived v => {| pcurrent := pcurrent s; parchive := drop v (parchive s) |}
  end.

(* the steps of the repaired code: the promoted version is prepared with its attributes and renamed over the current one;
   and the steps before the repair: the current file removed first, the promoted data published, its attributes written last *)
Definition promote_steps (s : pstate) : list pstep :=
  match pcurrent s with
  | None => []
  | Some c => match drop (p_vid c) (parchive s) with
              | [] => [P_drop_stale (p_vid c); P_remove_current]
              | (v1, d1) :: _ => [P_drop_stale (p_vid c); P_publish v1 d1 true; P_remove_archived v1]
              end
  end.
Definition promote_steps_old (s : pstate) : list pstep :=
  match pcurrent s with
  | None => []
  | Some c => match drop (p_vid c) (parchive s) with
              | [] => [P_remove_current; P_drop_stale (p_vid c)]
              | (v1, d1) :: _ => [P_remove_current; P_drop_stale (p_vid c); P_publish v1 d1 false; P_set_attrs v1; P_remove_archived v1]
              end
  end.

Definition prun_killed (steps : list pstep) (s : pstate) (k : nat) : pstate := fold_left do_pstep (firstn k steps) s.

Definition cur_id (c : pcur) : nat := if p_attrs c then p_vid c else 0.

Definition pshown (s : pstate) : list (nat * nat) :=
  match pcurrent s with
  | None => []
  | Some c => (cur_id c, p_data c) :: drop (cur_id c) (parchive s)
  end.

Definition preads (s : pstate) : option nat :=
  match pcurrent s with None => None | Some c => Some (p_data c) end.
