(* Model of the name validation applied to every client-controlled path element (backend.IsObjectNameValid,
   backend.IsOpaqueIDValid, used by the URL-decoder middleware, ParseCopySource, DeleteObjects, the admin API) and of
   the lexical path resolution of filepath.Join / filepath.Clean that the posix backend applies to bucket + key. *)
From Coq Require Import String Ascii List Bool.
From VGW Require Import Base.GoStr.
Import ListNotations.
Open Scope string_scope.

Definition is_dot_seg (s : string) : bool := String.eqb s "." || String.eqb s "..".

(* no "." / ".." segment; no empty segment except a single trailing one *)
Fixpoint segs_ok (l : list string) : bool :=
  match l with
  | [] => true
  | [s] => negb (is_dot_seg s)
  | s :: r => negb (is_dot_seg s) && negb (String.eqb s "") && segs_ok r
  end.
(* the top-level name under which the storing backends keep their bookkeeping inside a bucket (backend.ReservedObjectNamespace):
   skipped by listings, removed with the bucket, hence not part of the key space *)
Definition reserved_ns : string := ".sgwtmp".
Definition first_reserved (l : list string) : bool := match l with s :: _ => String.eqb s reserved_ns | [] => false end.
Definition valid_object_name (name : string) : bool :=
  let l := split_char "/" name in segs_ok l && negb (first_reserved l).

Definition valid_opaque_id (id : string) : bool :=
  negb (is_dot_seg id) && negb (has_char "/" id) && negb (has_char (Ascii.ascii_of_nat 0) id).

(* filepath.Clean on a relative path given as its "/"-separated elements: "" and "." vanish, ".." removes the previous
   element or, at the start, stays (and so leaves the directory the path is relative to) *)
Fixpoint clean_rev (l : list string) (acc : list string) (up : nat) : list string * nat :=
  match l with
  | [] => (acc, up)
  | s :: r =>
      if String.eqb s "" || String.eqb s "." then clean_rev r acc up
      else if String.eqb s ".." then (match acc with [] => clean_rev r [] (S up) | _ :: a' => clean_rev r a' up end)
      else clean_rev r (s :: acc) up
  end.
(* (elements below the starting directory, number of levels climbed above it) *)
Definition clean_rel (l : list string) : list string * nat := let '(a, up) := clean_rev l [] O in (rev a, up).

(* filepath.Join(bucket, key) relative to the gateway root: the elements of the resulting path *)
Definition join_bucket_key (bucket key : string) : list string * nat := clean_rel (bucket :: split_char "/" key).

(* the key's own elements, verbatim (a trailing "/" of a directory object is not an element) *)
Definition key_elems (key : string) : list string := filter (fun s => negb (String.eqb s "")) (split_char "/" key).
