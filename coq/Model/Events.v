(* Model for C19: which notifications a request gives rise to (s3api/controllers/base.go SendResponse / SendXMLResponse:
   only on the success path; s3event/*.go SendEvent: one record per affected key; s3event/filter.go Filter). *)
From Coq Require Import String Ascii List Bool Arith.
Import ListNotations.
Open Scope string_scope.

Definition efilter := list (string * bool).
Fixpoint ffind (f : efilter) (k : string) : option bool :=
  match f with [] => None | (j, v) :: r => if String.eqb j k then Some v else ffind r k end.
(* event[:strings.LastIndex(event, ":")+1] *)
Fixpoint cut_last (s : string) : option string :=
  match s with
  | EmptyString => None
  | String c r => match cut_last r with
                  | Some p => Some (String c p)
                  | None => if Ascii.eqb c ":" then Some (String c "") else None
                  end
  end.
Definition family (ev : string) : string := (match cut_last ev with Some p => p | None => "" end) ++ "*".
(* no filter file: every event is sent; else an explicit entry wins, else the entry of the wildcard family, else off *)
Definition filter_allows (f : option efilter) (ev : string) : bool :=
  match f with
  | None => true
  | Some l => match ffind l ev with
              | Some b => b
              | None => match ffind l (family ev) with Some b => b | None => false end
              end
  end.

Definition event_types : list string :=
  ["s3:ObjectCreated:Put"; "s3:ObjectCreated:Copy"; "s3:ObjectCreated:CompleteMultipartUpload"; "s3:ObjectRemoved:Delete"; "s3:ObjectRemoved:DeleteObjects";
   "s3:ObjectTagging:Put"; "s3:ObjectTagging:Delete"].
Definition type_name (i : nat) : string := nth i event_types "".

(* a request: did it succeed, and the notifications it stands for (event type, key): one per affected key *)
Definition request := (bool * list (nat * nat))%type.
Definition events_of (f : option efilter) (r : request) : list (nat * nat) :=
  if fst r then List.filter (fun e => filter_allows f (type_name (fst e))) (snd r) else [].
Definition all_events (f : option efilter) (rs : list request) : list (nat * nat) := flat_map (events_of f) rs.
