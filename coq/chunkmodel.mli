
val negb : bool -> bool

type nat =
| O
| S of nat

val fst : ('a1 * 'a2) -> 'a1

val snd : ('a1 * 'a2) -> 'a2

val length : 'a1 list -> nat

val app : 'a1 list -> 'a1 list -> 'a1 list

type comparison =
| Eq
| Lt
| Gt

val compOpp : comparison -> comparison

val add : nat -> nat -> nat

val sub : nat -> nat -> nat

val leb : nat -> nat -> bool

val ltb : nat -> nat -> bool

val divmod : nat -> nat -> nat -> nat -> nat * nat

val div : nat -> nat -> nat

type positive =
| XI of positive
| XO of positive
| XH

type n =
| N0
| Npos of positive

type z =
| Z0
| Zpos of positive
| Zneg of positive

module Nat :
 sig
  val leb : nat -> nat -> bool

  val ltb : nat -> nat -> bool

  val min : nat -> nat -> nat
 end

module Pos :
 sig
  type mask =
  | IsNul
  | IsPos of positive
  | IsNeg
 end

module Coq_Pos :
 sig
  val succ : positive -> positive

  val add : positive -> positive -> positive

  val add_carry : positive -> positive -> positive

  val pred_double : positive -> positive

  val pred_N : positive -> n

  type mask = Pos.mask =
  | IsNul
  | IsPos of positive
  | IsNeg

  val succ_double_mask : mask -> mask

  val double_mask : mask -> mask

  val double_pred_mask : positive -> mask

  val sub_mask : positive -> positive -> mask

  val sub_mask_carry : positive -> positive -> mask

  val mul : positive -> positive -> positive

  val iter : ('a1 -> 'a1) -> 'a1 -> positive -> 'a1

  val compare_cont : comparison -> positive -> positive -> comparison

  val compare : positive -> positive -> comparison

  val eqb : positive -> positive -> bool

  val coq_Nsucc_double : n -> n

  val coq_Ndouble : n -> n

  val coq_lor : positive -> positive -> positive

  val coq_land : positive -> positive -> n

  val coq_lxor : positive -> positive -> n

  val shiftl : positive -> n -> positive

  val testbit : positive -> n -> bool

  val iter_op : ('a1 -> 'a1 -> 'a1) -> positive -> 'a1 -> 'a1

  val to_nat : positive -> nat

  val of_succ_nat : nat -> positive
 end

module N :
 sig
  val succ_double : n -> n

  val double : n -> n

  val add : n -> n -> n

  val sub : n -> n -> n

  val mul : n -> n -> n

  val compare : n -> n -> comparison

  val eqb : n -> n -> bool

  val leb : n -> n -> bool

  val ltb : n -> n -> bool

  val div2 : n -> n

  val pos_div_eucl : positive -> n -> n * n

  val div_eucl : n -> n -> n * n

  val modulo : n -> n -> n

  val coq_lor : n -> n -> n

  val coq_land : n -> n -> n

  val coq_lxor : n -> n -> n

  val shiftl : n -> n -> n

  val shiftr : n -> n -> n

  val testbit : n -> n -> bool

  val to_nat : n -> nat

  val of_nat : nat -> n
 end

val rev : 'a1 list -> 'a1 list

val map : ('a1 -> 'a2) -> 'a1 list -> 'a2 list

val flat_map : ('a1 -> 'a2 list) -> 'a1 list -> 'a2 list

val fold_left : ('a1 -> 'a2 -> 'a1) -> 'a2 list -> 'a1 -> 'a1

val existsb : ('a1 -> bool) -> 'a1 list -> bool

val filter : ('a1 -> bool) -> 'a1 list -> 'a1 list

val combine : 'a1 list -> 'a2 list -> ('a1 * 'a2) list

val firstn : nat -> 'a1 list -> 'a1 list

val skipn : nat -> 'a1 list -> 'a1 list

val repeat : 'a1 -> nat -> 'a1 list

type ascii =
| Ascii of bool * bool * bool * bool * bool * bool * bool * bool

val n_of_digits : bool list -> n

val n_of_ascii : ascii -> n

module Z :
 sig
  val double : z -> z

  val succ_double : z -> z

  val pred_double : z -> z

  val pos_sub : positive -> positive -> z

  val add : z -> z -> z

  val opp : z -> z

  val sub : z -> z -> z

  val mul : z -> z -> z

  val compare : z -> z -> comparison

  val leb : z -> z -> bool

  val ltb : z -> z -> bool

  val eqb : z -> z -> bool

  val to_nat : z -> nat

  val of_nat : nat -> z

  val of_N : n -> z
 end

type string =
| EmptyString
| String of ascii * string

val list_ascii_of_string : string -> ascii list

type bytes = n list

val beq : bytes -> bytes -> bool

val bytes_of_string : string -> bytes

type rd =
| R_ok of bytes
| R_eof
| R_bad

val read_and_skip : bytes -> bytes -> rd

val read_until : n -> bytes -> bytes -> (bytes * bytes) option

val hexval : n -> z option

val hexdigits : bytes -> z -> z option

val parse_hex : bytes -> z option

val index_crlf : bytes -> nat -> nat option

val is_space : n -> bool

val trim_l : bytes -> bytes

val trim : bytes -> bytes

val mask32 : n

val add32 : n -> n -> n

val rotr : n -> n -> n

val shr : n -> n -> n

val not32 : n -> n

val ch : n -> n -> n -> n

val maj : n -> n -> n -> n

val bsig0 : n -> n

val bsig1 : n -> n

val ssig0 : n -> n

val ssig1 : n -> n

val k : n list

val h0 : n list

val words_of_bytes : n list -> n list

val bytes_of_word : n -> n list

val schedule : nat -> n list -> n list

val round : n list -> n -> n -> n list

val rounds : n list -> n list -> n list -> n list

val compress : n list -> n list -> n list

val blocks : nat -> n list -> n list -> n list

val pad : n list -> n list

val sha256 : n list -> n list

val hmac256 : n list -> n list -> n list

val hexdigit : n -> n

val hex : n list -> n list

val crc_bits : n -> nat -> n -> n

val crc_byte : n -> n -> n -> n

val crc32_gen : n -> bytes -> n

val crc32 : bytes -> n

val crc32c : bytes -> n

val be32 : n -> bytes

val b64c : n -> n

val base64 : bytes -> bytes

val is_b64 : n -> bool

val b64_decoded_len : bytes -> nat -> nat option

val b64_len : bytes -> nat option

type rerr =
| E_None
| E_EOF
| E_InvalidChunk
| E_Malformed
| E_SigMismatch
| E_BadDigest
| E_InvalidTrailer
| E_UnexpectedEOF
| E_Panic

type trailer_kind =
| TCrc32
| TCrc32c

val trailer_name : trailer_kind -> bytes

val trailer_sum : trailer_kind -> bytes -> bytes

val valid_checksum : trailer_kind -> bytes -> bool

type cst = { stash : bytes option; left : z; prevSig : bytes;
             parsedSig : bytes; hbuf : bytes; cbuf : bytes; firstHdr : 
             bool; isEOF : bool; trailerSig : bytes; parsedChecksum : 
             bytes }

val init : bytes -> cst

val zeroLenSig : bytes

val chunkSigKw : bytes

val trailerSigKw : bytes

val chunk_signature :
  (bytes -> bytes) -> (bytes -> bytes -> bytes) -> (bytes -> bytes) -> bytes
  -> bytes -> bytes -> bytes -> bytes

val trailer_signature :
  (bytes -> bytes) -> (bytes -> bytes -> bytes) -> (bytes -> bytes) -> bytes
  -> bytes -> trailer_kind -> bytes -> bytes -> bytes

val check_sig :
  (bytes -> bytes) -> (bytes -> bytes -> bytes) -> (bytes -> bytes) -> bytes
  -> bytes -> cst -> cst * bool

val hash_data : cst -> bytes -> cst

val set_left : cst -> z -> cst

val set_stash : cst -> bytes option -> cst

val set_parsed : cst -> bytes -> cst

val set_eof : cst -> bool -> cst

val reset_hash : cst -> cst

type ph =
| PH_skip of cst
| PH_err of rerr
| PH_ok of cst * z * bytes * z

val parse_header : trailer_kind option -> cst -> bytes -> ph

val par :
  (bytes -> bytes) -> (bytes -> bytes -> bytes) -> (bytes -> bytes) -> bytes
  -> bytes -> bytes -> trailer_kind option -> nat -> cst -> bytes ->
  (bytes * rerr) * cst

val read :
  (bytes -> bytes) -> (bytes -> bytes -> bytes) -> (bytes -> bytes) -> bytes
  -> bytes -> bytes -> trailer_kind option -> cst -> bytes -> bool ->
  (bytes * rerr) * cst

val run :
  (bytes -> bytes) -> (bytes -> bytes -> bytes) -> (bytes -> bytes) -> bytes
  -> bytes -> bytes -> trailer_kind option -> cst -> (bytes * bool) list ->
  bytes -> bytes * rerr

type uerr =
| U_None
| U_EOF
| U_Malformed
| U_UnexpectedEOF
| U_Checksum
| U_Panic

type ust = { rest : bytes; ustash : bytes; uoff : nat; hashed : bytes }

val read_line : bytes -> bytes -> (bytes * bytes) option

val read_trailer : trailer_kind -> ust -> uerr

val chunk_loop :
  trailer_kind -> nat -> nat -> ust -> bytes -> (bytes * uerr) * ust

val uread : trailer_kind -> ust -> nat -> (bytes * uerr) * ust

val urun :
  trailer_kind -> nat -> ust -> nat list -> nat -> bytes -> bytes * uerr

val uinit : bytes -> ust

val signing_key : bytes -> bytes -> bytes -> bytes

val run_signed :
  bytes -> bytes -> bytes -> trailer_kind option -> bytes -> (bytes * bool)
  list -> bytes * rerr

val run_unsigned : trailer_kind -> bytes -> nat list -> nat -> bytes * uerr
