
(** val negb : bool -> bool **)

let negb = function
| true -> false
| false -> true

type nat =
| O
| S of nat

(** val fst : ('a1 * 'a2) -> 'a1 **)

let fst = function
| (x, _) -> x

(** val snd : ('a1 * 'a2) -> 'a2 **)

let snd = function
| (_, y) -> y

(** val length : 'a1 list -> nat **)

let rec length = function
| [] -> O
| _ :: l' -> S (length l')

(** val app : 'a1 list -> 'a1 list -> 'a1 list **)

let rec app l m =
  match l with
  | [] -> m
  | a :: l1 -> a :: (app l1 m)

type comparison =
| Eq
| Lt
| Gt

(** val compOpp : comparison -> comparison **)

let compOpp = function
| Eq -> Eq
| Lt -> Gt
| Gt -> Lt

module Coq__1 = struct
 (** val add : nat -> nat -> nat **)
 let rec add n0 m =
   match n0 with
   | O -> m
   | S p -> S (add p m)
end
include Coq__1

(** val sub : nat -> nat -> nat **)

let rec sub n0 m =
  match n0 with
  | O -> n0
  | S k0 -> (match m with
             | O -> n0
             | S l -> sub k0 l)

(** val leb : nat -> nat -> bool **)

let rec leb n0 m =
  match n0 with
  | O -> true
  | S n' -> (match m with
             | O -> false
             | S m' -> leb n' m')

(** val ltb : nat -> nat -> bool **)

let ltb n0 m =
  leb (S n0) m

(** val divmod : nat -> nat -> nat -> nat -> nat * nat **)

let rec divmod x y q u =
  match x with
  | O -> (q, u)
  | S x' -> (match u with
             | O -> divmod x' y (S q) y
             | S u' -> divmod x' y q u')

(** val div : nat -> nat -> nat **)

let div x y = match y with
| O -> y
| S y' -> fst (divmod x y' O y')

type positive =
| XI of positive
| XO of positive
| XH

type n =
| N0
| Npos of positive

type z =
| Z0
| Zpos of positive
| Zneg of positive

module Nat =
 struct
  (** val leb : nat -> nat -> bool **)

  let rec leb n0 m =
    match n0 with
    | O -> true
    | S n' -> (match m with
               | O -> false
               | S m' -> leb n' m')

  (** val ltb : nat -> nat -> bool **)

  let ltb n0 m =
    leb (S n0) m

  (** val min : nat -> nat -> nat **)

  let rec min n0 m =
    match n0 with
    | O -> O
    | S n' -> (match m with
               | O -> O
               | S m' -> S (min n' m'))
 end

module Pos =
 struct
  type mask =
  | IsNul
  | IsPos of positive
  | IsNeg
 end

module Coq_Pos =
 struct
  (** val succ : positive -> positive **)

  let rec succ = function
  | XI p -> XO (succ p)
  | XO p -> XI p
  | XH -> XO XH

  (** val add : positive -> positive -> positive **)

  let rec add x y =
    match x with
    | XI p ->
      (match y with
       | XI q -> XO (add_carry p q)
       | XO q -> XI (add p q)
       | XH -> XO (succ p))
    | XO p ->
      (match y with
       | XI q -> XI (add p q)
       | XO q -> XO (add p q)
       | XH -> XI p)
    | XH -> (match y with
             | XI q -> XO (succ q)
             | XO q -> XI q
             | XH -> XO XH)

  (** val add_carry : positive -> positive -> positive **)

  and add_carry x y =
    match x with
    | XI p ->
      (match y with
       | XI q -> XI (add_carry p q)
       | XO q -> XO (add_carry p q)
       | XH -> XI (succ p))
    | XO p ->
      (match y with
       | XI q -> XO (add_carry p q)
       | XO q -> XI (add p q)
       | XH -> XO (succ p))
    | XH ->
      (match y with
       | XI q -> XI (succ q)
       | XO q -> XO (succ q)
       | XH -> XI XH)

  (** val pred_double : positive -> positive **)

  let rec pred_double = function
  | XI p -> XI (XO p)
  | XO p -> XI (pred_double p)
  | XH -> XH

  (** val pred_N : positive -> n **)

  let pred_N = function
  | XI p -> Npos (XO p)
  | XO p -> Npos (pred_double p)
  | XH -> N0

  type mask = Pos.mask =
  | IsNul
  | IsPos of positive
  | IsNeg

  (** val succ_double_mask : mask -> mask **)

  let succ_double_mask = function
  | IsNul -> IsPos XH
  | IsPos p -> IsPos (XI p)
  | IsNeg -> IsNeg

  (** val double_mask : mask -> mask **)

  let double_mask = function
  | IsPos p -> IsPos (XO p)
  | x0 -> x0

  (** val double_pred_mask : positive -> mask **)

  let double_pred_mask = function
  | XI p -> IsPos (XO (XO p))
  | XO p -> IsPos (XO (pred_double p))
  | XH -> IsNul

  (** val sub_mask : positive -> positive -> mask **)

  let rec sub_mask x y =
    match x with
    | XI p ->
      (match y with
       | XI q -> double_mask (sub_mask p q)
       | XO q -> succ_double_mask (sub_mask p q)
       | XH -> IsPos (XO p))
    | XO p ->
      (match y with
       | XI q -> succ_double_mask (sub_mask_carry p q)
       | XO q -> double_mask (sub_mask p q)
       | XH -> IsPos (pred_double p))
    | XH -> (match y with
             | XH -> IsNul
             | _ -> IsNeg)

  (** val sub_mask_carry : positive -> positive -> mask **)

  and sub_mask_carry x y =
    match x with
    | XI p ->
      (match y with
       | XI q -> succ_double_mask (sub_mask_carry p q)
       | XO q -> double_mask (sub_mask p q)
       | XH -> IsPos (pred_double p))
    | XO p ->
      (match y with
       | XI q -> double_mask (sub_mask_carry p q)
       | XO q -> succ_double_mask (sub_mask_carry p q)
       | XH -> double_pred_mask p)
    | XH -> IsNeg

  (** val mul : positive -> positive -> positive **)

  let rec mul x y =
    match x with
    | XI p -> add y (XO (mul p y))
    | XO p -> XO (mul p y)
    | XH -> y

  (** val iter : ('a1 -> 'a1) -> 'a1 -> positive -> 'a1 **)

  let rec iter f x = function
  | XI n' -> f (iter f (iter f x n') n')
  | XO n' -> iter f (iter f x n') n'
  | XH -> f x

  (** val compare_cont : comparison -> positive -> positive -> comparison **)

  let rec compare_cont r x y =
    match x with
    | XI p ->
      (match y with
       | XI q -> compare_cont r p q
       | XO q -> compare_cont Gt p q
       | XH -> Gt)
    | XO p ->
      (match y with
       | XI q -> compare_cont Lt p q
       | XO q -> compare_cont r p q
       | XH -> Gt)
    | XH -> (match y with
             | XH -> r
             | _ -> Lt)

  (** val compare : positive -> positive -> comparison **)

  let compare =
    compare_cont Eq

  (** val eqb : positive -> positive -> bool **)

  let rec eqb p q =
    match p with
    | XI p0 -> (match q with
                | XI q0 -> eqb p0 q0
                | _ -> false)
    | XO p0 -> (match q with
                | XO q0 -> eqb p0 q0
                | _ -> false)
    | XH -> (match q with
             | XH -> true
             | _ -> false)

  (** val coq_Nsucc_double : n -> n **)

  let coq_Nsucc_double = function
  | N0 -> Npos XH
  | Npos p -> Npos (XI p)

  (** val coq_Ndouble : n -> n **)

  let coq_Ndouble = function
  | N0 -> N0
  | Npos p -> Npos (XO p)

  (** val coq_lor : positive -> positive -> positive **)

  let rec coq_lor p q =
    match p with
    | XI p0 ->
      (match q with
       | XI q0 -> XI (coq_lor p0 q0)
       | XO q0 -> XI (coq_lor p0 q0)
       | XH -> p)
    | XO p0 ->
      (match q with
       | XI q0 -> XI (coq_lor p0 q0)
       | XO q0 -> XO (coq_lor p0 q0)
       | XH -> XI p0)
    | XH -> (match q with
             | XO q0 -> XI q0
             | _ -> q)

  (** val coq_land : positive -> positive -> n **)

  let rec coq_land p q =
    match p with
    | XI p0 ->
      (match q with
       | XI q0 -> coq_Nsucc_double (coq_land p0 q0)
       | XO q0 -> coq_Ndouble (coq_land p0 q0)
       | XH -> Npos XH)
    | XO p0 ->
      (match q with
       | XI q0 -> coq_Ndouble (coq_land p0 q0)
       | XO q0 -> coq_Ndouble (coq_land p0 q0)
       | XH -> N0)
    | XH -> (match q with
             | XO _ -> N0
             | _ -> Npos XH)

  (** val coq_lxor : positive -> positive -> n **)

  let rec coq_lxor p q =
    match p with
    | XI p0 ->
      (match q with
       | XI q0 -> coq_Ndouble (coq_lxor p0 q0)
       | XO q0 -> coq_Nsucc_double (coq_lxor p0 q0)
       | XH -> Npos (XO p0))
    | XO p0 ->
      (match q with
       | XI q0 -> coq_Nsucc_double (coq_lxor p0 q0)
       | XO q0 -> coq_Ndouble (coq_lxor p0 q0)
       | XH -> Npos (XI p0))
    | XH ->
      (match q with
       | XI q0 -> Npos (XO q0)
       | XO q0 -> Npos (XI q0)
       | XH -> N0)

  (** val shiftl : positive -> n -> positive **)

  let shiftl p = function
  | N0 -> p
  | Npos n1 -> iter (fun x -> XO x) p n1

  (** val testbit : positive -> n -> bool **)

  let rec testbit p n0 =
    match p with
    | XI p0 -> (match n0 with
                | N0 -> true
                | Npos n1 -> testbit p0 (pred_N n1))
    | XO p0 -> (match n0 with
                | N0 -> false
                | Npos n1 -> testbit p0 (pred_N n1))
    | XH -> (match n0 with
             | N0 -> true
             | Npos _ -> false)

  (** val iter_op : ('a1 -> 'a1 -> 'a1) -> positive -> 'a1 -> 'a1 **)

  let rec iter_op op p a =
    match p with
    | XI p0 -> op a (iter_op op p0 (op a a))
    | XO p0 -> iter_op op p0 (op a a)
    | XH -> a

  (** val to_nat : positive -> nat **)

  let to_nat x =
    iter_op Coq__1.add x (S O)

  (** val of_succ_nat : nat -> positive **)

  let rec of_succ_nat = function
  | O -> XH
  | S x -> succ (of_succ_nat x)
 end

module N =
 struct
  (** val succ_double : n -> n **)

  let succ_double = function
  | N0 -> Npos XH
  | Npos p -> Npos (XI p)

  (** val double : n -> n **)

  let double = function
  | N0 -> N0
  | Npos p -> Npos (XO p)

  (** val add : n -> n -> n **)

  let add n0 m =
    match n0 with
    | N0 -> m
    | Npos p -> (match m with
                 | N0 -> n0
                 | Npos q -> Npos (Coq_Pos.add p q))

  (** val sub : n -> n -> n **)

  let sub n0 m =
    match n0 with
    | N0 -> N0
    | Npos n' ->
      (match m with
       | N0 -> n0
       | Npos m' ->
         (match Coq_Pos.sub_mask n' m' with
          | Coq_Pos.IsPos p -> Npos p
          | _ -> N0))

  (** val mul : n -> n -> n **)

  let mul n0 m =
    match n0 with
    | N0 -> N0
    | Npos p -> (match m with
                 | N0 -> N0
                 | Npos q -> Npos (Coq_Pos.mul p q))

  (** val compare : n -> n -> comparison **)

  let compare n0 m =
    match n0 with
    | N0 -> (match m with
             | N0 -> Eq
             | Npos _ -> Lt)
    | Npos n' -> (match m with
                  | N0 -> Gt
                  | Npos m' -> Coq_Pos.compare n' m')

  (** val eqb : n -> n -> bool **)

  let eqb n0 m =
    match n0 with
    | N0 -> (match m with
             | N0 -> true
             | Npos _ -> false)
    | Npos p -> (match m with
                 | N0 -> false
                 | Npos q -> Coq_Pos.eqb p q)

  (** val leb : n -> n -> bool **)

  let leb x y =
    match compare x y with
    | Gt -> false
    | _ -> true

  (** val ltb : n -> n -> bool **)

  let ltb x y =
    match compare x y with
    | Lt -> true
    | _ -> false

  (** val div2 : n -> n **)

  let div2 = function
  | N0 -> N0
  | Npos p0 -> (match p0 with
                | XI p -> Npos p
                | XO p -> Npos p
                | XH -> N0)

  (** val pos_div_eucl : positive -> n -> n * n **)

  let rec pos_div_eucl a b =
    match a with
    | XI a' ->
      let (q, r) = pos_div_eucl a' b in
      let r' = succ_double r in
      if leb b r' then ((succ_double q), (sub r' b)) else ((double q), r')
    | XO a' ->
      let (q, r) = pos_div_eucl a' b in
      let r' = double r in
      if leb b r' then ((succ_double q), (sub r' b)) else ((double q), r')
    | XH ->
      (match b with
       | N0 -> (N0, (Npos XH))
       | Npos p -> (match p with
                    | XH -> ((Npos XH), N0)
                    | _ -> (N0, (Npos XH))))

  (** val div_eucl : n -> n -> n * n **)

  let div_eucl a b =
    match a with
    | N0 -> (N0, N0)
    | Npos na -> (match b with
                  | N0 -> (N0, a)
                  | Npos _ -> pos_div_eucl na b)

  (** val modulo : n -> n -> n **)

  let modulo a b =
    snd (div_eucl a b)

  (** val coq_lor : n -> n -> n **)

  let coq_lor n0 m =
    match n0 with
    | N0 -> m
    | Npos p -> (match m with
                 | N0 -> n0
                 | Npos q -> Npos (Coq_Pos.coq_lor p q))

  (** val coq_land : n -> n -> n **)

  let coq_land n0 m =
    match n0 with
    | N0 -> N0
    | Npos p -> (match m with
                 | N0 -> N0
                 | Npos q -> Coq_Pos.coq_land p q)

  (** val coq_lxor : n -> n -> n **)

  let coq_lxor n0 m =
    match n0 with
    | N0 -> m
    | Npos p -> (match m with
                 | N0 -> n0
                 | Npos q -> Coq_Pos.coq_lxor p q)

  (** val shiftl : n -> n -> n **)

  let shiftl a n0 =
    match a with
    | N0 -> N0
    | Npos a0 -> Npos (Coq_Pos.shiftl a0 n0)

  (** val shiftr : n -> n -> n **)

  let shiftr a = function
  | N0 -> a
  | Npos p -> Coq_Pos.iter div2 a p

  (** val testbit : n -> n -> bool **)

  let testbit a n0 =
    match a with
    | N0 -> false
    | Npos p -> Coq_Pos.testbit p n0

  (** val to_nat : n -> nat **)

  let to_nat = function
  | N0 -> O
  | Npos p -> Coq_Pos.to_nat p

  (** val of_nat : nat -> n **)

  let of_nat = function
  | O -> N0
  | S n' -> Npos (Coq_Pos.of_succ_nat n')
 end

(** val rev : 'a1 list -> 'a1 list **)

let rec rev = function
| [] -> []
| x :: l' -> app (rev l') (x :: [])

(** val map : ('a1 -> 'a2) -> 'a1 list -> 'a2 list **)

let rec map f = function
| [] -> []
| a :: t -> (f a) :: (map f t)

(** val flat_map : ('a1 -> 'a2 list) -> 'a1 list -> 'a2 list **)

let rec flat_map f = function
| [] -> []
| x :: t -> app (f x) (flat_map f t)

(** val fold_left : ('a1 -> 'a2 -> 'a1) -> 'a2 list -> 'a1 -> 'a1 **)

let rec fold_left f l a0 =
  match l with
  | [] -> a0
  | b :: t -> fold_left f t (f a0 b)

(** val existsb : ('a1 -> bool) -> 'a1 list -> bool **)

let rec existsb f = function
| [] -> false
| a :: l0 -> (||) (f a) (existsb f l0)

(** val filter : ('a1 -> bool) -> 'a1 list -> 'a1 list **)

let rec filter f = function
| [] -> []
| x :: l0 -> if f x then x :: (filter f l0) else filter f l0

(** val combine : 'a1 list -> 'a2 list -> ('a1 * 'a2) list **)

let rec combine l l' =
  match l with
  | [] -> []
  | x :: tl ->
    (match l' with
     | [] -> []
     | y :: tl' -> (x, y) :: (combine tl tl'))

(** val firstn : nat -> 'a1 list -> 'a1 list **)

let rec firstn n0 l =
  match n0 with
  | O -> []
  | S n1 -> (match l with
             | [] -> []
             | a :: l0 -> a :: (firstn n1 l0))

(** val skipn : nat -> 'a1 list -> 'a1 list **)

let rec skipn n0 l =
  match n0 with
  | O -> l
  | S n1 -> (match l with
             | [] -> []
             | _ :: l0 -> skipn n1 l0)

(** val repeat : 'a1 -> nat -> 'a1 list **)

let rec repeat x = function
| O -> []
| S k0 -> x :: (repeat x k0)

type ascii =
| Ascii of bool * bool * bool * bool * bool * bool * bool * bool

(** val n_of_digits : bool list -> n **)

let rec n_of_digits = function
| [] -> N0
| b :: l' ->
  N.add (if b then Npos XH else N0) (N.mul (Npos (XO XH)) (n_of_digits l'))

(** val n_of_ascii : ascii -> n **)

let n_of_ascii = function
| Ascii (a0, a1, a2, a3, a4, a5, a6, a7) ->
  n_of_digits
    (a0 :: (a1 :: (a2 :: (a3 :: (a4 :: (a5 :: (a6 :: (a7 :: []))))))))

module Z =
 struct
  (** val double : z -> z **)

  let double = function
  | Z0 -> Z0
  | Zpos p -> Zpos (XO p)
  | Zneg p -> Zneg (XO p)

  (** val succ_double : z -> z **)

  let succ_double = function
  | Z0 -> Zpos XH
  | Zpos p -> Zpos (XI p)
  | Zneg p -> Zneg (Coq_Pos.pred_double p)

  (** val pred_double : z -> z **)

  let pred_double = function
  | Z0 -> Zneg XH
  | Zpos p -> Zpos (Coq_Pos.pred_double p)
  | Zneg p -> Zneg (XI p)

  (** val pos_sub : positive -> positive -> z **)

  let rec pos_sub x y =
    match x with
    | XI p ->
      (match y with
       | XI q -> double (pos_sub p q)
       | XO q -> succ_double (pos_sub p q)
       | XH -> Zpos (XO p))
    | XO p ->
      (match y with
       | XI q -> pred_double (pos_sub p q)
       | XO q -> double (pos_sub p q)
       | XH -> Zpos (Coq_Pos.pred_double p))
    | XH ->
      (match y with
       | XI q -> Zneg (XO q)
       | XO q -> Zneg (Coq_Pos.pred_double q)
       | XH -> Z0)

  (** val add : z -> z -> z **)

  let add x y =
    match x with
    | Z0 -> y
    | Zpos x' ->
      (match y with
       | Z0 -> x
       | Zpos y' -> Zpos (Coq_Pos.add x' y')
       | Zneg y' -> pos_sub x' y')
    | Zneg x' ->
      (match y with
       | Z0 -> x
       | Zpos y' -> pos_sub y' x'
       | Zneg y' -> Zneg (Coq_Pos.add x' y'))

  (** val opp : z -> z **)

  let opp = function
  | Z0 -> Z0
  | Zpos x0 -> Zneg x0
  | Zneg x0 -> Zpos x0

  (** val sub : z -> z -> z **)

  let sub m n0 =
    add m (opp n0)

  (** val mul : z -> z -> z **)

  let mul x y =
    match x with
    | Z0 -> Z0
    | Zpos x' ->
      (match y with
       | Z0 -> Z0
       | Zpos y' -> Zpos (Coq_Pos.mul x' y')
       | Zneg y' -> Zneg (Coq_Pos.mul x' y'))
    | Zneg x' ->
      (match y with
       | Z0 -> Z0
       | Zpos y' -> Zneg (Coq_Pos.mul x' y')
       | Zneg y' -> Zpos (Coq_Pos.mul x' y'))

  (** val compare : z -> z -> comparison **)

  let compare x y =
    match x with
    | Z0 -> (match y with
             | Z0 -> Eq
             | Zpos _ -> Lt
             | Zneg _ -> Gt)
    | Zpos x' -> (match y with
                  | Zpos y' -> Coq_Pos.compare x' y'
                  | _ -> Gt)
    | Zneg x' ->
      (match y with
       | Zneg y' -> compOpp (Coq_Pos.compare x' y')
       | _ -> Lt)

  (** val leb : z -> z -> bool **)

  let leb x y =
    match compare x y with
    | Gt -> false
    | _ -> true

  (** val ltb : z -> z -> bool **)

  let ltb x y =
    match compare x y with
    | Lt -> true
    | _ -> false

  (** val eqb : z -> z -> bool **)

  let eqb x y =
    match x with
    | Z0 -> (match y with
             | Z0 -> true
             | _ -> false)
    | Zpos p -> (match y with
                 | Zpos q -> Coq_Pos.eqb p q
                 | _ -> false)
    | Zneg p -> (match y with
                 | Zneg q -> Coq_Pos.eqb p q
                 | _ -> false)

  (** val to_nat : z -> nat **)

  let to_nat = function
  | Zpos p -> Coq_Pos.to_nat p
  | _ -> O

  (** val of_nat : nat -> z **)

  let of_nat = function
  | O -> Z0
  | S n1 -> Zpos (Coq_Pos.of_succ_nat n1)

  (** val of_N : n -> z **)

  let of_N = function
  | N0 -> Z0
  | Npos p -> Zpos p
 end

type string =
| EmptyString
| String of ascii * string

(** val list_ascii_of_string : string -> ascii list **)

let rec list_ascii_of_string = function
| EmptyString -> []
| String (ch0, s0) -> ch0 :: (list_ascii_of_string s0)

type bytes = n list

(** val beq : bytes -> bytes -> bool **)

let rec beq a b =
  match a with
  | [] -> (match b with
           | [] -> true
           | _ :: _ -> false)
  | x :: a' ->
    (match b with
     | [] -> false
     | y :: b' -> (&&) (N.eqb x y) (beq a' b'))

(** val bytes_of_string : string -> bytes **)

let bytes_of_string s =
  map n_of_ascii (list_ascii_of_string s)

type rd =
| R_ok of bytes
| R_eof
| R_bad

(** val read_and_skip : bytes -> bytes -> rd **)

let rec read_and_skip exp l =
  match exp with
  | [] -> R_ok l
  | e :: exp' ->
    (match l with
     | [] -> R_eof
     | x :: l' -> if N.eqb x e then read_and_skip exp' l' else R_bad)

(** val read_until : n -> bytes -> bytes -> (bytes * bytes) option **)

let rec read_until d l acc =
  match l with
  | [] -> None
  | x :: l' ->
    if N.eqb x d then Some (acc, l') else read_until d l' (app acc (x :: []))

(** val hexval : n -> z option **)

let hexval c =
  if (&&) (N.leb (Npos (XO (XO (XO (XO (XI XH)))))) c)
       (N.leb c (Npos (XI (XO (XO (XI (XI XH)))))))
  then Some (Z.sub (Z.of_N c) (Zpos (XO (XO (XO (XO (XI XH)))))))
  else if (&&) (N.leb (Npos (XI (XO (XO (XO (XO (XI XH))))))) c)
            (N.leb c (Npos (XO (XI (XI (XO (XO (XI XH))))))))
       then Some (Z.sub (Z.of_N c) (Zpos (XI (XI (XI (XO (XI (XO XH))))))))
       else if (&&) (N.leb (Npos (XI (XO (XO (XO (XO (XO XH))))))) c)
                 (N.leb c (Npos (XO (XI (XI (XO (XO (XO XH))))))))
            then Some (Z.sub (Z.of_N c) (Zpos (XI (XI (XI (XO (XI XH)))))))
            else None

(** val hexdigits : bytes -> z -> z option **)

let rec hexdigits l acc =
  match l with
  | [] -> Some acc
  | c :: l' ->
    (match hexval c with
     | Some d ->
       let v = Z.add (Z.mul acc (Zpos (XO (XO (XO (XO XH)))))) d in
       if Z.leb v (Zpos (XO (XO (XO (XO (XO (XO (XO (XO (XO (XO (XO (XO (XO
            (XO (XO (XO (XO (XO (XO (XO (XO (XO (XO (XO (XO (XO (XO (XO (XO
            (XO (XO (XO (XO (XO (XO (XO (XO (XO (XO (XO (XO (XO (XO (XO (XO
            (XO (XO (XO (XO (XO (XO (XO (XO (XO (XO (XO (XO (XO (XO (XO (XO
            (XO (XO
            XH))))))))))))))))))))))))))))))))))))))))))))))))))))))))))))))))
       then hexdigits l' v
       else None
     | None -> None)

(** val parse_hex : bytes -> z option **)

let parse_hex l = match l with
| [] -> None
| c :: r ->
  if N.eqb c (Npos (XI (XI (XO (XI (XO XH))))))
  then let neg = false in
       (match r with
        | [] -> None
        | _ :: _ ->
          (match hexdigits r Z0 with
           | Some v ->
             let v' = if neg then Z.opp v else v in
             if (&&)
                  (Z.leb (Zneg (XO (XO (XO (XO (XO (XO (XO (XO (XO (XO (XO
                    (XO (XO (XO (XO (XO (XO (XO (XO (XO (XO (XO (XO (XO (XO
                    (XO (XO (XO (XO (XO (XO (XO (XO (XO (XO (XO (XO (XO (XO
                    (XO (XO (XO (XO (XO (XO (XO (XO (XO (XO (XO (XO (XO (XO
                    (XO (XO (XO (XO (XO (XO (XO (XO (XO (XO
                    XH))))))))))))))))))))))))))))))))))))))))))))))))))))))))))))))))
                    v')
                  (Z.leb v' (Zpos (XI (XI (XI (XI (XI (XI (XI (XI (XI (XI (XI
                    (XI (XI (XI (XI (XI (XI (XI (XI (XI (XI (XI (XI (XI (XI
                    (XI (XI (XI (XI (XI (XI (XI (XI (XI (XI (XI (XI (XI (XI
                    (XI (XI (XI (XI (XI (XI (XI (XI (XI (XI (XI (XI (XI (XI
                    (XI (XI (XI (XI (XI (XI (XI (XI (XI
                    XH))))))))))))))))))))))))))))))))))))))))))))))))))))))))))))))))
             then Some v'
             else None
           | None -> None))
  else if N.eqb c (Npos (XI (XO (XI (XI (XO XH))))))
       then let neg = true in
            (match r with
             | [] -> None
             | _ :: _ ->
               (match hexdigits r Z0 with
                | Some v ->
                  let v' = if neg then Z.opp v else v in
                  if (&&)
                       (Z.leb (Zneg (XO (XO (XO (XO (XO (XO (XO (XO (XO (XO
                         (XO (XO (XO (XO (XO (XO (XO (XO (XO (XO (XO (XO (XO
                         (XO (XO (XO (XO (XO (XO (XO (XO (XO (XO (XO (XO (XO
                         (XO (XO (XO (XO (XO (XO (XO (XO (XO (XO (XO (XO (XO
                         (XO (XO (XO (XO (XO (XO (XO (XO (XO (XO (XO (XO (XO
                         (XO
                         XH))))))))))))))))))))))))))))))))))))))))))))))))))))))))))))))))
                         v')
                       (Z.leb v' (Zpos (XI (XI (XI (XI (XI (XI (XI (XI (XI
                         (XI (XI (XI (XI (XI (XI (XI (XI (XI (XI (XI (XI (XI
                         (XI (XI (XI (XI (XI (XI (XI (XI (XI (XI (XI (XI (XI
                         (XI (XI (XI (XI (XI (XI (XI (XI (XI (XI (XI (XI (XI
                         (XI (XI (XI (XI (XI (XI (XI (XI (XI (XI (XI (XI (XI
                         (XI
                         XH))))))))))))))))))))))))))))))))))))))))))))))))))))))))))))))))
                  then Some v'
                  else None
                | None -> None))
       else let neg = false in
            (match l with
             | [] -> None
             | _ :: _ ->
               (match hexdigits l Z0 with
                | Some v ->
                  let v' = if neg then Z.opp v else v in
                  if (&&)
                       (Z.leb (Zneg (XO (XO (XO (XO (XO (XO (XO (XO (XO (XO
                         (XO (XO (XO (XO (XO (XO (XO (XO (XO (XO (XO (XO (XO
                         (XO (XO (XO (XO (XO (XO (XO (XO (XO (XO (XO (XO (XO
                         (XO (XO (XO (XO (XO (XO (XO (XO (XO (XO (XO (XO (XO
                         (XO (XO (XO (XO (XO (XO (XO (XO (XO (XO (XO (XO (XO
                         (XO
                         XH))))))))))))))))))))))))))))))))))))))))))))))))))))))))))))))))
                         v')
                       (Z.leb v' (Zpos (XI (XI (XI (XI (XI (XI (XI (XI (XI
                         (XI (XI (XI (XI (XI (XI (XI (XI (XI (XI (XI (XI (XI
                         (XI (XI (XI (XI (XI (XI (XI (XI (XI (XI (XI (XI (XI
                         (XI (XI (XI (XI (XI (XI (XI (XI (XI (XI (XI (XI (XI
                         (XI (XI (XI (XI (XI (XI (XI (XI (XI (XI (XI (XI (XI
                         (XI
                         XH))))))))))))))))))))))))))))))))))))))))))))))))))))))))))))))))
                  then Some v'
                  else None
                | None -> None))

(** val index_crlf : bytes -> nat -> nat option **)

let rec index_crlf l i =
  match l with
  | [] -> None
  | n0 :: r ->
    (match n0 with
     | N0 -> index_crlf r (S i)
     | Npos p ->
       (match p with
        | XI p0 ->
          (match p0 with
           | XO p1 ->
             (match p1 with
              | XI p2 ->
                (match p2 with
                 | XH ->
                   (match r with
                    | [] -> index_crlf r (S i)
                    | n1 :: _ ->
                      (match n1 with
                       | N0 -> index_crlf r (S i)
                       | Npos p3 ->
                         (match p3 with
                          | XO p4 ->
                            (match p4 with
                             | XI p5 ->
                               (match p5 with
                                | XO p6 ->
                                  (match p6 with
                                   | XH -> Some i
                                   | _ -> index_crlf r (S i))
                                | _ -> index_crlf r (S i))
                             | _ -> index_crlf r (S i))
                          | _ -> index_crlf r (S i))))
                 | _ -> index_crlf r (S i))
              | _ -> index_crlf r (S i))
           | _ -> index_crlf r (S i))
        | _ -> index_crlf r (S i)))

(** val is_space : n -> bool **)

let is_space c =
  (||) (N.eqb c (Npos (XO (XO (XO (XO (XO XH)))))))
    ((&&) (N.leb (Npos (XI (XO (XO XH)))) c)
      (N.leb c (Npos (XI (XO (XI XH))))))

(** val trim_l : bytes -> bytes **)

let rec trim_l l = match l with
| [] -> []
| c :: r -> if is_space c then trim_l r else l

(** val trim : bytes -> bytes **)

let trim l =
  rev (trim_l (rev (trim_l l)))

(** val mask32 : n **)

let mask32 =
  Npos (XI (XI (XI (XI (XI (XI (XI (XI (XI (XI (XI (XI (XI (XI (XI (XI (XI
    (XI (XI (XI (XI (XI (XI (XI (XI (XI (XI (XI (XI (XI (XI
    XH)))))))))))))))))))))))))))))))

(** val add32 : n -> n -> n **)

let add32 a b =
  N.coq_land (N.add a b) mask32

(** val rotr : n -> n -> n **)

let rotr n0 x =
  N.coq_lor (N.shiftr x n0)
    (N.coq_land (N.shiftl x (N.sub (Npos (XO (XO (XO (XO (XO XH)))))) n0))
      mask32)

(** val shr : n -> n -> n **)

let shr n0 x =
  N.shiftr x n0

(** val not32 : n -> n **)

let not32 x =
  N.coq_lxor x mask32

(** val ch : n -> n -> n -> n **)

let ch x y z0 =
  N.coq_lxor (N.coq_land x y) (N.coq_land (not32 x) z0)

(** val maj : n -> n -> n -> n **)

let maj x y z0 =
  N.coq_lxor (N.coq_lxor (N.coq_land x y) (N.coq_land x z0)) (N.coq_land y z0)

(** val bsig0 : n -> n **)

let bsig0 x =
  N.coq_lxor
    (N.coq_lxor (rotr (Npos (XO XH)) x) (rotr (Npos (XI (XO (XI XH)))) x))
    (rotr (Npos (XO (XI (XI (XO XH))))) x)

(** val bsig1 : n -> n **)

let bsig1 x =
  N.coq_lxor
    (N.coq_lxor (rotr (Npos (XO (XI XH))) x)
      (rotr (Npos (XI (XI (XO XH)))) x))
    (rotr (Npos (XI (XO (XO (XI XH))))) x)

(** val ssig0 : n -> n **)

let ssig0 x =
  N.coq_lxor
    (N.coq_lxor (rotr (Npos (XI (XI XH))) x)
      (rotr (Npos (XO (XI (XO (XO XH))))) x)) (shr (Npos (XI XH)) x)

(** val ssig1 : n -> n **)

let ssig1 x =
  N.coq_lxor
    (N.coq_lxor (rotr (Npos (XI (XO (XO (XO XH))))) x)
      (rotr (Npos (XI (XI (XO (XO XH))))) x)) (shr (Npos (XO (XI (XO XH)))) x)

(** val k : n list **)

let k =
  (Npos (XO (XO (XO (XI (XI (XO (XO (XI (XI (XI (XI (XI (XO (XI (XO (XO (XO
    (XI (XO (XI (XO (XO (XO (XI (XO (XI (XO (XO (XO (XO
    XH))))))))))))))))))))))))))))))) :: ((Npos (XI (XO (XO (XO (XI (XO (XO
    (XI (XO (XO (XI (XO (XO (XO (XI (XO (XI (XI (XI (XO (XI (XI (XO (XO (XI
    (XO (XO (XO (XI (XI XH))))))))))))))))))))))))))))))) :: ((Npos (XI (XI
    (XI (XI (XO (XO (XI (XI (XI (XI (XO (XI (XI (XI (XI (XI (XO (XO (XO (XO
    (XO (XO (XI (XI (XI (XO (XI (XO (XI (XI (XO
    XH)))))))))))))))))))))))))))))))) :: ((Npos (XI (XO (XI (XO (XO (XI (XO
    (XI (XI (XI (XO (XI (XI (XO (XI (XI (XI (XO (XI (XO (XI (XI (XO (XI (XI
    (XO (XO (XI (XO (XI (XI XH)))))))))))))))))))))))))))))))) :: ((Npos (XI
    (XI (XO (XI (XI (XO (XI (XO (XO (XI (XO (XO (XO (XO (XI (XI (XO (XI (XI
    (XO (XI (XO (XI (XO (XI (XO (XO (XI (XI
    XH)))))))))))))))))))))))))))))) :: ((Npos (XI (XO (XO (XO (XI (XI (XI
    (XI (XI (XO (XO (XO (XI (XO (XO (XO (XI (XO (XO (XO (XI (XI (XI (XI (XI
    (XO (XO (XI (XI (XO XH))))))))))))))))))))))))))))))) :: ((Npos (XO (XO
    (XI (XO (XO (XI (XO (XI (XO (XI (XO (XO (XO (XO (XO (XI (XI (XI (XI (XI
    (XI (XI (XO (XO (XO (XI (XO (XO (XI (XO (XO
    XH)))))))))))))))))))))))))))))))) :: ((Npos (XI (XO (XI (XO (XI (XO (XI
    (XI (XO (XI (XI (XI (XI (XO (XI (XO (XO (XO (XI (XI (XI (XO (XO (XO (XI
    (XI (XO (XI (XO (XI (XO XH)))))))))))))))))))))))))))))))) :: ((Npos (XO
    (XO (XO (XI (XI (XO (XO (XI (XO (XI (XO (XI (XO (XI (XO (XI (XI (XI (XI
    (XO (XO (XO (XO (XO (XO (XO (XO (XI (XI (XO (XI
    XH)))))))))))))))))))))))))))))))) :: ((Npos (XI (XO (XO (XO (XO (XO (XO
    (XO (XI (XI (XO (XI (XI (XO (XI (XO (XI (XI (XO (XO (XO (XO (XO (XI (XO
    (XI (XO (XO XH))))))))))))))))))))))))))))) :: ((Npos (XO (XI (XI (XI (XI
    (XI (XO (XI (XI (XO (XI (XO (XO (XO (XO (XI (XI (XO (XO (XO (XI (XI (XO
    (XO (XO (XO (XI (XO (XO XH)))))))))))))))))))))))))))))) :: ((Npos (XI
    (XI (XO (XO (XO (XO (XI (XI (XI (XO (XI (XI (XI (XI (XI (XO (XO (XO (XI
    (XI (XO (XO (XO (XO (XI (XO (XI (XO (XI (XO
    XH))))))))))))))))))))))))))))))) :: ((Npos (XO (XO (XI (XO (XI (XI (XI
    (XO (XI (XO (XI (XI (XI (XO (XI (XO (XO (XI (XI (XI (XI (XI (XO (XI (XO
    (XI (XO (XO (XI (XI XH))))))))))))))))))))))))))))))) :: ((Npos (XO (XI
    (XI (XI (XI (XI (XI (XI (XI (XO (XO (XO (XI (XI (XO (XI (XO (XI (XI (XI
    (XI (XO (XI (XI (XO (XO (XO (XO (XO (XO (XO
    XH)))))))))))))))))))))))))))))))) :: ((Npos (XI (XI (XI (XO (XO (XI (XO
    (XI (XO (XI (XI (XO (XO (XO (XO (XO (XO (XO (XI (XI (XI (XO (XI (XI (XI
    (XI (XO (XI (XI (XO (XO XH)))))))))))))))))))))))))))))))) :: ((Npos (XO
    (XO (XI (XO (XI (XI (XI (XO (XI (XO (XO (XO (XI (XI (XI (XI (XI (XI (XO
    (XI (XI (XO (XO (XI (XI (XO (XO (XO (XO (XO (XI
    XH)))))))))))))))))))))))))))))))) :: ((Npos (XI (XO (XO (XO (XO (XO (XI
    (XI (XI (XO (XO (XI (XO (XI (XI (XO (XI (XI (XO (XI (XI (XO (XO (XI (XO
    (XO (XI (XO (XO (XI (XI XH)))))))))))))))))))))))))))))))) :: ((Npos (XO
    (XI (XI (XO (XO (XO (XO (XI (XI (XI (XI (XO (XO (XO (XI (XO (XO (XI (XI
    (XI (XI (XI (XO (XI (XI (XI (XI (XI (XO (XI (XI
    XH)))))))))))))))))))))))))))))))) :: ((Npos (XO (XI (XI (XO (XO (XO (XI
    (XI (XI (XO (XI (XI (XI (XO (XO (XI (XI (XO (XO (XO (XO (XO (XI (XI (XI
    (XI (XI XH)))))))))))))))))))))))))))) :: ((Npos (XO (XO (XI (XI (XO (XO
    (XI (XI (XI (XO (XO (XO (XO (XI (XO (XI (XO (XO (XI (XI (XO (XO (XO (XO
    (XO (XO (XI (XO (XO XH)))))))))))))))))))))))))))))) :: ((Npos (XI (XI
    (XI (XI (XO (XI (XI (XO (XO (XO (XI (XI (XO (XI (XO (XO (XI (XO (XO (XI
    (XO (XI (XI (XI (XI (XO (XI (XI (XO
    XH)))))))))))))))))))))))))))))) :: ((Npos (XO (XI (XO (XI (XO (XI (XO
    (XI (XO (XO (XI (XO (XO (XO (XO (XI (XO (XO (XI (XO (XI (XI (XI (XO (XO
    (XI (XO (XI (XO (XO XH))))))))))))))))))))))))))))))) :: ((Npos (XO (XO
    (XI (XI (XI (XO (XI (XI (XI (XO (XO (XI (XO (XI (XO (XI (XO (XO (XO (XO
    (XI (XI (XO (XI (XO (XO (XI (XI (XI (XO
    XH))))))))))))))))))))))))))))))) :: ((Npos (XO (XI (XO (XI (XI (XO (XI
    (XI (XO (XO (XO (XI (XO (XO (XO (XI (XI (XO (XO (XI (XI (XI (XI (XI (XO
    (XI (XI (XO (XI (XI XH))))))))))))))))))))))))))))))) :: ((Npos (XO (XI
    (XO (XO (XI (XO (XI (XO (XI (XO (XO (XO (XI (XO (XI (XO (XO (XI (XI (XI
    (XI (XI (XO (XO (XO (XO (XO (XI (XI (XO (XO
    XH)))))))))))))))))))))))))))))))) :: ((Npos (XI (XO (XI (XI (XO (XI (XI
    (XO (XO (XI (XI (XO (XO (XO (XI (XI (XI (XO (XO (XO (XI (XI (XO (XO (XO
    (XO (XO (XI (XO (XI (XO XH)))))))))))))))))))))))))))))))) :: ((Npos (XO
    (XO (XO (XI (XO (XO (XI (XI (XI (XI (XI (XO (XO (XI (XO (XO (XI (XI (XO
    (XO (XO (XO (XO (XO (XO (XO (XO (XO (XI (XI (XO
    XH)))))))))))))))))))))))))))))))) :: ((Npos (XI (XI (XI (XO (XO (XO (XI
    (XI (XI (XI (XI (XI (XI (XI (XI (XO (XI (XO (XO (XI (XI (XO (XI (XO (XI
    (XI (XI (XI (XI (XI (XO XH)))))))))))))))))))))))))))))))) :: ((Npos (XI
    (XI (XO (XO (XI (XI (XI (XI (XI (XI (XO (XI (XO (XO (XO (XO (XO (XO (XO
    (XO (XO (XI (XI (XI (XO (XI (XI (XO (XO (XO (XI
    XH)))))))))))))))))))))))))))))))) :: ((Npos (XI (XI (XI (XO (XO (XO (XI
    (XO (XI (XO (XO (XO (XI (XO (XO (XI (XI (XI (XI (XO (XO (XI (XO (XI (XI
    (XO (XI (XO (XI (XO (XI XH)))))))))))))))))))))))))))))))) :: ((Npos (XI
    (XO (XO (XO (XI (XO (XI (XO (XI (XI (XO (XO (XO (XI (XI (XO (XO (XI (XO
    (XI (XO (XO (XI (XI (XO (XI XH))))))))))))))))))))))))))) :: ((Npos (XI
    (XI (XI (XO (XO (XI (XI (XO (XI (XO (XO (XI (XO (XI (XO (XO (XI (XO (XO
    (XI (XO (XI (XO (XO (XO (XO (XI (XO
    XH))))))))))))))))))))))))))))) :: ((Npos (XI (XO (XI (XO (XO (XO (XO (XI
    (XO (XI (XO (XI (XO (XO (XO (XO (XI (XI (XI (XO (XI (XI (XO (XI (XI (XI
    (XI (XO (XO XH)))))))))))))))))))))))))))))) :: ((Npos (XO (XO (XO (XI
    (XI (XI (XO (XO (XI (XO (XO (XO (XO (XI (XO (XO (XI (XI (XO (XI (XI (XO
    (XO (XO (XO (XI (XI (XI (XO XH)))))))))))))))))))))))))))))) :: ((Npos
    (XO (XO (XI (XI (XI (XI (XI (XI (XI (XO (XI (XI (XO (XI (XI (XO (XO (XO
    (XI (XI (XO (XI (XO (XO (XI (XO (XI (XI (XO (XO
    XH))))))))))))))))))))))))))))))) :: ((Npos (XI (XI (XO (XO (XI (XO (XO
    (XO (XI (XO (XI (XI (XO (XO (XO (XO (XO (XO (XO (XI (XI (XI (XO (XO (XI
    (XI (XO (XO (XI (XO XH))))))))))))))))))))))))))))))) :: ((Npos (XO (XO
    (XI (XO (XI (XO (XI (XO (XI (XI (XO (XO (XI (XI (XI (XO (XO (XI (XO (XI
    (XO (XO (XO (XO (XI (XO (XI (XO (XO (XI
    XH))))))))))))))))))))))))))))))) :: ((Npos (XI (XI (XO (XI (XI (XI (XO
    (XI (XO (XI (XO (XI (XO (XO (XO (XO (XO (XI (XO (XI (XO (XI (XI (XO (XO
    (XI (XI (XO (XI (XI XH))))))))))))))))))))))))))))))) :: ((Npos (XO (XI
    (XI (XI (XO (XI (XO (XO (XI (XO (XO (XI (XO (XO (XI (XI (XO (XI (XO (XO
    (XO (XO (XI (XI (XI (XO (XO (XO (XO (XO (XO
    XH)))))))))))))))))))))))))))))))) :: ((Npos (XI (XO (XI (XO (XO (XO (XO
    (XI (XO (XO (XI (XI (XO (XI (XO (XO (XO (XI (XO (XO (XI (XI (XI (XO (XO
    (XI (XO (XO (XI (XO (XO XH)))))))))))))))))))))))))))))))) :: ((Npos (XI
    (XO (XO (XO (XO (XI (XO (XI (XO (XO (XO (XI (XO (XI (XI (XI (XI (XI (XI
    (XI (XI (XI (XO (XI (XO (XI (XO (XO (XO (XI (XO
    XH)))))))))))))))))))))))))))))))) :: ((Npos (XI (XI (XO (XI (XO (XO (XI
    (XO (XO (XI (XI (XO (XO (XI (XI (XO (XO (XI (XO (XI (XI (XO (XO (XO (XO
    (XO (XO (XI (XO (XI (XO XH)))))))))))))))))))))))))))))))) :: ((Npos (XO
    (XO (XO (XO (XI (XI (XI (XO (XI (XI (XO (XI (XO (XO (XO (XI (XI (XI (XO
    (XI (XO (XO (XI (XO (XO (XI (XO (XO (XO (XO (XI
    XH)))))))))))))))))))))))))))))))) :: ((Npos (XI (XI (XO (XO (XO (XI (XO
    (XI (XI (XO (XO (XO (XI (XO (XI (XO (XO (XO (XI (XI (XO (XI (XI (XO (XI
    (XI (XI (XO (XO (XO (XI XH)))))))))))))))))))))))))))))))) :: ((Npos (XI
    (XO (XO (XI (XI (XO (XO (XO (XO (XO (XO (XI (XO (XI (XI (XI (XO (XI (XO
    (XO (XI (XO (XO (XI (XI (XO (XO (XO (XI (XO (XI
    XH)))))))))))))))))))))))))))))))) :: ((Npos (XO (XO (XI (XO (XO (XI (XO
    (XO (XO (XI (XI (XO (XO (XO (XO (XO (XI (XO (XO (XI (XI (XO (XO (XI (XO
    (XI (XI (XO (XI (XO (XI XH)))))))))))))))))))))))))))))))) :: ((Npos (XI
    (XO (XI (XO (XO (XO (XO (XI (XI (XO (XI (XO (XI (XI (XO (XO (XO (XI (XI
    (XI (XO (XO (XO (XO (XO (XO (XI (XO (XI (XI (XI
    XH)))))))))))))))))))))))))))))))) :: ((Npos (XO (XO (XO (XO (XI (XI (XI
    (XO (XO (XO (XO (XO (XO (XI (XO (XI (XO (XI (XO (XI (XO (XI (XI (XO (XO
    (XO (XO (XO XH))))))))))))))))))))))))))))) :: ((Npos (XO (XI (XI (XO (XI
    (XO (XO (XO (XI (XO (XO (XO (XO (XO (XI (XI (XO (XO (XI (XO (XO (XI (XO
    (XI (XI (XO (XO (XI XH))))))))))))))))))))))))))))) :: ((Npos (XO (XO (XO
    (XI (XO (XO (XO (XO (XO (XO (XI (XI (XO (XI (XI (XO (XI (XI (XI (XO (XI
    (XI (XO (XO (XO (XI (XI (XI XH))))))))))))))))))))))))))))) :: ((Npos (XO
    (XO (XI (XI (XO (XO (XI (XO (XI (XI (XI (XO (XI (XI (XI (XO (XO (XO (XO
    (XI (XO (XO (XI (XO (XI (XI (XI (XO (XO
    XH)))))))))))))))))))))))))))))) :: ((Npos (XI (XO (XI (XO (XI (XI (XO
    (XI (XO (XO (XI (XI (XI (XI (XO (XI (XO (XO (XO (XO (XI (XI (XO (XI (XO
    (XO (XI (XO (XI XH)))))))))))))))))))))))))))))) :: ((Npos (XI (XI (XO
    (XO (XI (XI (XO (XI (XO (XO (XI (XI (XO (XO (XO (XO (XO (XO (XI (XI (XI
    (XO (XO (XO (XI (XO (XO (XI (XI
    XH)))))))))))))))))))))))))))))) :: ((Npos (XO (XI (XO (XI (XO (XO (XI
    (XO (XO (XI (XO (XI (XO (XI (XO (XI (XO (XO (XO (XI (XI (XO (XI (XI (XO
    (XI (XI (XI (XO (XO XH))))))))))))))))))))))))))))))) :: ((Npos (XI (XI
    (XI (XI (XO (XO (XI (XO (XO (XI (XO (XI (XO (XO (XI (XI (XO (XO (XI (XI
    (XI (XO (XO (XI (XI (XI (XO (XI (XI (XO
    XH))))))))))))))))))))))))))))))) :: ((Npos (XI (XI (XO (XO (XI (XI (XI
    (XI (XI (XI (XI (XI (XO (XI (XI (XO (XO (XI (XI (XI (XO (XI (XO (XO (XO
    (XO (XO (XI (XO (XI XH))))))))))))))))))))))))))))))) :: ((Npos (XO (XI
    (XI (XI (XO (XI (XI (XI (XO (XI (XO (XO (XO (XO (XO (XI (XI (XI (XI (XI
    (XO (XO (XO (XI (XO (XO (XI (XO (XI (XI
    XH))))))))))))))))))))))))))))))) :: ((Npos (XI (XI (XI (XI (XO (XI (XI
    (XO (XI (XI (XO (XO (XO (XI (XI (XO (XI (XO (XI (XO (XO (XI (XO (XI (XO
    (XO (XO (XI (XI (XI XH))))))))))))))))))))))))))))))) :: ((Npos (XO (XO
    (XI (XO (XI (XO (XO (XO (XO (XO (XO (XI (XI (XI (XI (XO (XO (XO (XO (XI
    (XO (XO (XI (XI (XO (XO (XI (XO (XO (XO (XO
    XH)))))))))))))))))))))))))))))))) :: ((Npos (XO (XO (XO (XI (XO (XO (XO
    (XO (XO (XI (XO (XO (XO (XO (XO (XO (XI (XI (XI (XO (XO (XO (XI (XI (XO
    (XO (XI (XI (XO (XO (XO XH)))))))))))))))))))))))))))))))) :: ((Npos (XO
    (XI (XO (XI (XI (XI (XI (XI (XI (XI (XI (XI (XI (XI (XI (XI (XO (XI (XI
    (XI (XI (XI (XO (XI (XO (XO (XO (XO (XI (XO (XO
    XH)))))))))))))))))))))))))))))))) :: ((Npos (XI (XI (XO (XI (XO (XI (XI
    (XI (XO (XO (XI (XI (XO (XI (XI (XO (XO (XO (XO (XO (XI (XO (XI (XO (XO
    (XO (XI (XO (XO (XI (XO XH)))))))))))))))))))))))))))))))) :: ((Npos (XI
    (XI (XI (XO (XI (XI (XI (XI (XI (XI (XO (XO (XO (XI (XO (XI (XI (XO (XO
    (XI (XI (XI (XI (XI (XO (XI (XI (XI (XI (XI (XO
    XH)))))))))))))))))))))))))))))))) :: ((Npos (XO (XI (XO (XO (XI (XI (XI
    (XI (XO (XO (XO (XI (XI (XI (XI (XO (XI (XO (XO (XO (XI (XI (XI (XO (XO
    (XI (XI (XO (XO (XO (XI
    XH)))))))))))))))))))))))))))))))) :: [])))))))))))))))))))))))))))))))))))))))))))))))))))))))))))))))

(** val h0 : n list **)

let h0 =
  (Npos (XI (XI (XI (XO (XO (XI (XI (XO (XO (XI (XI (XO (XO (XI (XI (XI (XI
    (XO (XO (XI (XO (XO (XO (XO (XO (XI (XO (XI (XO (XI
    XH))))))))))))))))))))))))))))))) :: ((Npos (XI (XO (XI (XO (XO (XO (XO
    (XI (XO (XI (XI (XI (XO (XI (XO (XI (XI (XI (XI (XO (XO (XI (XI (XO (XI
    (XI (XO (XI (XI (XI (XO XH)))))))))))))))))))))))))))))))) :: ((Npos (XO
    (XI (XO (XO (XI (XI (XI (XO (XI (XI (XO (XO (XI (XI (XI (XI (XO (XI (XI
    (XI (XO (XI (XI (XO (XO (XO (XI (XI (XI
    XH)))))))))))))))))))))))))))))) :: ((Npos (XO (XI (XO (XI (XI (XI (XO
    (XO (XI (XO (XI (XO (XI (XI (XI (XI (XI (XI (XI (XI (XO (XO (XI (XO (XI
    (XO (XI (XO (XO (XI (XO XH)))))))))))))))))))))))))))))))) :: ((Npos (XI
    (XI (XI (XI (XI (XI (XI (XO (XO (XI (XO (XO (XI (XO (XI (XO (XO (XI (XI
    (XI (XO (XO (XO (XO (XI (XO (XO (XO (XI (XO
    XH))))))))))))))))))))))))))))))) :: ((Npos (XO (XO (XI (XI (XO (XO (XO
    (XI (XO (XO (XO (XI (XO (XI (XI (XO (XI (XO (XI (XO (XO (XO (XO (XO (XI
    (XI (XO (XI (XI (XO (XO XH)))))))))))))))))))))))))))))))) :: ((Npos (XI
    (XI (XO (XI (XO (XI (XO (XI (XI (XO (XO (XI (XI (XO (XI (XI (XI (XI (XO
    (XO (XO (XO (XO (XI (XI (XI (XI (XI
    XH))))))))))))))))))))))))))))) :: ((Npos (XI (XO (XO (XI (XI (XO (XO (XO
    (XI (XO (XI (XI (XO (XO (XI (XI (XO (XO (XO (XO (XO (XI (XI (XI (XI (XI
    (XO (XI (XI (XO XH))))))))))))))))))))))))))))))) :: [])))))))

(** val words_of_bytes : n list -> n list **)

let rec words_of_bytes = function
| [] -> []
| a :: l ->
  (match l with
   | [] -> []
   | b1 :: l0 ->
     (match l0 with
      | [] -> []
      | c :: l1 ->
        (match l1 with
         | [] -> []
         | d :: r ->
           (N.add
             (N.add
               (N.add (N.shiftl a (Npos (XO (XO (XO (XI XH))))))
                 (N.shiftl b1 (Npos (XO (XO (XO (XO XH)))))))
               (N.shiftl c (Npos (XO (XO (XO XH)))))) d) :: (words_of_bytes r))))

(** val bytes_of_word : n -> n list **)

let bytes_of_word w =
  (N.coq_land (N.shiftr w (Npos (XO (XO (XO (XI XH)))))) (Npos (XI (XI (XI
    (XI (XI (XI (XI XH))))))))) :: ((N.coq_land
                                      (N.shiftr w (Npos (XO (XO (XO (XO
                                        XH)))))) (Npos (XI (XI (XI (XI (XI
                                      (XI (XI XH))))))))) :: ((N.coq_land
                                                                (N.shiftr w
                                                                  (Npos (XO
                                                                  (XO (XO
                                                                  XH)))))
                                                                (Npos (XI (XI
                                                                (XI (XI (XI
                                                                (XI (XI
                                                                XH))))))))) :: (
    (N.coq_land w (Npos (XI (XI (XI (XI (XI (XI (XI XH))))))))) :: [])))

(** val schedule : nat -> n list -> n list **)

let rec schedule n0 win =
  match n0 with
  | O -> []
  | S n' ->
    (match win with
     | [] -> []
     | w0 :: l ->
       (match l with
        | [] -> []
        | w1 :: l0 ->
          (match l0 with
           | [] -> []
           | w2 :: l1 ->
             (match l1 with
              | [] -> []
              | w3 :: l2 ->
                (match l2 with
                 | [] -> []
                 | w4 :: l3 ->
                   (match l3 with
                    | [] -> []
                    | w5 :: l4 ->
                      (match l4 with
                       | [] -> []
                       | w6 :: l5 ->
                         (match l5 with
                          | [] -> []
                          | w7 :: l6 ->
                            (match l6 with
                             | [] -> []
                             | w8 :: l7 ->
                               (match l7 with
                                | [] -> []
                                | w9 :: l8 ->
                                  (match l8 with
                                   | [] -> []
                                   | w10 :: l9 ->
                                     (match l9 with
                                      | [] -> []
                                      | w11 :: l10 ->
                                        (match l10 with
                                         | [] -> []
                                         | w12 :: l11 ->
                                           (match l11 with
                                            | [] -> []
                                            | w13 :: l12 ->
                                              (match l12 with
                                               | [] -> []
                                               | w14 :: l13 ->
                                                 (match l13 with
                                                  | [] -> []
                                                  | w15 :: l14 ->
                                                    (match l14 with
                                                     | [] ->
                                                       let x =
                                                         add32
                                                           (add32 (ssig1 w14)
                                                             w9)
                                                           (add32 (ssig0 w1)
                                                             w0)
                                                       in
                                                       x :: (schedule n'
                                                              (w1 :: (w2 :: (w3 :: (w4 :: (w5 :: (w6 :: (w7 :: (w8 :: (w9 :: (w10 :: (w11 :: (w12 :: (w13 :: (w14 :: (w15 :: (x :: [])))))))))))))))))
                                                     | _ :: _ -> [])))))))))))))))))

(** val round : n list -> n -> n -> n list **)

let round st k0 w =
  match st with
  | [] -> st
  | a :: l ->
    (match l with
     | [] -> st
     | b :: l0 ->
       (match l0 with
        | [] -> st
        | c :: l1 ->
          (match l1 with
           | [] -> st
           | d :: l2 ->
             (match l2 with
              | [] -> st
              | e :: l3 ->
                (match l3 with
                 | [] -> st
                 | f :: l4 ->
                   (match l4 with
                    | [] -> st
                    | g :: l5 ->
                      (match l5 with
                       | [] -> st
                       | h :: l6 ->
                         (match l6 with
                          | [] ->
                            let t1 =
                              add32
                                (add32 (add32 h (bsig1 e))
                                  (add32 (ch e f g) k0)) w
                            in
                            let t2 = add32 (bsig0 a) (maj a b c) in
                            (add32 t1 t2) :: (a :: (b :: (c :: ((add32 d t1) :: (e :: (f :: (g :: [])))))))
                          | _ :: _ -> st))))))))

(** val rounds : n list -> n list -> n list -> n list **)

let rec rounds st ks ws =
  match ks with
  | [] -> st
  | k0 :: ks' ->
    (match ws with
     | [] -> st
     | w :: ws' -> rounds (round st k0 w) ks' ws')

(** val compress : n list -> n list -> n list **)

let compress h block =
  let w16 = words_of_bytes block in
  let w =
    app w16
      (schedule (S (S (S (S (S (S (S (S (S (S (S (S (S (S (S (S (S (S (S (S
        (S (S (S (S (S (S (S (S (S (S (S (S (S (S (S (S (S (S (S (S (S (S (S
        (S (S (S (S (S O)))))))))))))))))))))))))))))))))))))))))))))))) w16)
  in
  map (fun p -> add32 (fst p) (snd p)) (combine h (rounds h k w))

(** val blocks : nat -> n list -> n list -> n list **)

let rec blocks fuel h msg =
  match fuel with
  | O -> h
  | S f ->
    (match msg with
     | [] -> h
     | _ :: _ ->
       blocks f
         (compress h
           (firstn (S (S (S (S (S (S (S (S (S (S (S (S (S (S (S (S (S (S (S
             (S (S (S (S (S (S (S (S (S (S (S (S (S (S (S (S (S (S (S (S (S
             (S (S (S (S (S (S (S (S (S (S (S (S (S (S (S (S (S (S (S (S (S
             (S (S (S
             O))))))))))))))))))))))))))))))))))))))))))))))))))))))))))))))))
             msg))
         (skipn (S (S (S (S (S (S (S (S (S (S (S (S (S (S (S (S (S (S (S (S
           (S (S (S (S (S (S (S (S (S (S (S (S (S (S (S (S (S (S (S (S (S (S
           (S (S (S (S (S (S (S (S (S (S (S (S (S (S (S (S (S (S (S (S (S (S
           O))))))))))))))))))))))))))))))))))))))))))))))))))))))))))))))))
           msg))

(** val pad : n list -> n list **)

let pad msg =
  let l = N.of_nat (length msg) in
  let zeros =
    N.to_nat
      (N.modulo
        (N.sub (Npos (XI (XI (XI (XO (XI (XI XH)))))))
          (N.modulo l (Npos (XO (XO (XO (XO (XO (XO XH))))))))) (Npos (XO (XO
        (XO (XO (XO (XO XH))))))))
  in
  let bitlen = N.mul l (Npos (XO (XO (XO XH)))) in
  app msg
    (app ((Npos (XO (XO (XO (XO (XO (XO (XO XH)))))))) :: [])
      (app (repeat N0 zeros)
        ((N.coq_land (N.shiftr bitlen (Npos (XO (XO (XO (XI (XI XH)))))))
           (Npos (XI (XI (XI (XI (XI (XI (XI XH))))))))) :: ((N.coq_land
                                                               (N.shiftr
                                                                 bitlen (Npos
                                                                 (XO (XO (XO
                                                                 (XO (XI
                                                                 XH)))))))
                                                               (Npos (XI (XI
                                                               (XI (XI (XI
                                                               (XI (XI
                                                               XH))))))))) :: (
        (N.coq_land (N.shiftr bitlen (Npos (XO (XO (XO (XI (XO XH)))))))
          (Npos (XI (XI (XI (XI (XI (XI (XI XH))))))))) :: ((N.coq_land
                                                              (N.shiftr
                                                                bitlen (Npos
                                                                (XO (XO (XO
                                                                (XO (XO
                                                                XH)))))))
                                                              (Npos (XI (XI
                                                              (XI (XI (XI (XI
                                                              (XI XH))))))))) :: (
        (N.coq_land (N.shiftr bitlen (Npos (XO (XO (XO (XI XH)))))) (Npos (XI
          (XI (XI (XI (XI (XI (XI XH))))))))) :: ((N.coq_land
                                                    (N.shiftr bitlen (Npos
                                                      (XO (XO (XO (XO XH))))))
                                                    (Npos (XI (XI (XI (XI (XI
                                                    (XI (XI XH))))))))) :: (
        (N.coq_land (N.shiftr bitlen (Npos (XO (XO (XO XH))))) (Npos (XI (XI
          (XI (XI (XI (XI (XI XH))))))))) :: ((N.coq_land bitlen (Npos (XI
                                                (XI (XI (XI (XI (XI (XI
                                                XH))))))))) :: []))))))))))

(** val sha256 : n list -> n list **)

let sha256 msg =
  let p = pad msg in
  flat_map bytes_of_word
    (blocks (S
      (div (length p) (S (S (S (S (S (S (S (S (S (S (S (S (S (S (S (S (S (S
        (S (S (S (S (S (S (S (S (S (S (S (S (S (S (S (S (S (S (S (S (S (S (S
        (S (S (S (S (S (S (S (S (S (S (S (S (S (S (S (S (S (S (S (S (S (S (S
        O))))))))))))))))))))))))))))))))))))))))))))))))))))))))))))))))))
      h0 p)

(** val hmac256 : n list -> n list -> n list **)

let hmac256 key msg =
  let k0 =
    if ltb (S (S (S (S (S (S (S (S (S (S (S (S (S (S (S (S (S (S (S (S (S (S
         (S (S (S (S (S (S (S (S (S (S (S (S (S (S (S (S (S (S (S (S (S (S (S
         (S (S (S (S (S (S (S (S (S (S (S (S (S (S (S (S (S (S (S
         O))))))))))))))))))))))))))))))))))))))))))))))))))))))))))))))))
         (length key)
    then sha256 key
    else key
  in
  let k1 =
    app k0
      (repeat N0
        (sub (S (S (S (S (S (S (S (S (S (S (S (S (S (S (S (S (S (S (S (S (S
          (S (S (S (S (S (S (S (S (S (S (S (S (S (S (S (S (S (S (S (S (S (S
          (S (S (S (S (S (S (S (S (S (S (S (S (S (S (S (S (S (S (S (S (S
          O))))))))))))))))))))))))))))))))))))))))))))))))))))))))))))))))
          (length k0)))
  in
  let ipad = map (fun b -> N.coq_lxor b (Npos (XO (XI (XI (XO (XI XH))))))) k1
  in
  let opad =
    map (fun b -> N.coq_lxor b (Npos (XO (XO (XI (XI (XI (XO XH)))))))) k1
  in
  sha256 (app opad (sha256 (app ipad msg)))

(** val hexdigit : n -> n **)

let hexdigit n0 =
  if N.ltb n0 (Npos (XO (XI (XO XH))))
  then N.add (Npos (XO (XO (XO (XO (XI XH)))))) n0
  else N.add (Npos (XI (XI (XI (XO (XI (XO XH))))))) n0

(** val hex : n list -> n list **)

let hex b =
  flat_map (fun x ->
    (hexdigit (N.shiftr x (Npos (XO (XO XH))))) :: ((hexdigit
                                                      (N.coq_land x (Npos (XI
                                                        (XI (XI XH)))))) :: []))
    b

(** val crc_bits : n -> nat -> n -> n **)

let rec crc_bits poly n0 c =
  match n0 with
  | O -> c
  | S n' ->
    crc_bits poly n'
      (if N.testbit c N0
       then N.coq_lxor (N.shiftr c (Npos XH)) poly
       else N.shiftr c (Npos XH))

(** val crc_byte : n -> n -> n -> n **)

let crc_byte poly c b =
  crc_bits poly (S (S (S (S (S (S (S (S O)))))))) (N.coq_lxor c b)

(** val crc32_gen : n -> bytes -> n **)

let crc32_gen poly l =
  N.coq_lxor
    (fold_left (crc_byte poly) l (Npos (XI (XI (XI (XI (XI (XI (XI (XI (XI
      (XI (XI (XI (XI (XI (XI (XI (XI (XI (XI (XI (XI (XI (XI (XI (XI (XI (XI
      (XI (XI (XI (XI XH))))))))))))))))))))))))))))))))) (Npos (XI (XI (XI
    (XI (XI (XI (XI (XI (XI (XI (XI (XI (XI (XI (XI (XI (XI (XI (XI (XI (XI
    (XI (XI (XI (XI (XI (XI (XI (XI (XI (XI XH))))))))))))))))))))))))))))))))

(** val crc32 : bytes -> n **)

let crc32 =
  crc32_gen (Npos (XO (XO (XO (XO (XO (XI (XO (XO (XI (XI (XO (XO (XO (XO (XO
    (XI (XO (XO (XO (XI (XI (XI (XO (XI (XI (XO (XI (XI (XO (XI (XI
    XH))))))))))))))))))))))))))))))))

(** val crc32c : bytes -> n **)

let crc32c =
  crc32_gen (Npos (XO (XO (XO (XI (XI (XI (XI (XO (XI (XI (XO (XI (XI (XI (XO
    (XO (XO (XI (XI (XO (XI (XI (XI (XI (XO (XI (XO (XO (XO (XO (XO
    XH))))))))))))))))))))))))))))))))

(** val be32 : n -> bytes **)

let be32 w =
  (N.coq_land (N.shiftr w (Npos (XO (XO (XO (XI XH)))))) (Npos (XI (XI (XI
    (XI (XI (XI (XI XH))))))))) :: ((N.coq_land
                                      (N.shiftr w (Npos (XO (XO (XO (XO
                                        XH)))))) (Npos (XI (XI (XI (XI (XI
                                      (XI (XI XH))))))))) :: ((N.coq_land
                                                                (N.shiftr w
                                                                  (Npos (XO
                                                                  (XO (XO
                                                                  XH)))))
                                                                (Npos (XI (XI
                                                                (XI (XI (XI
                                                                (XI (XI
                                                                XH))))))))) :: (
    (N.coq_land w (Npos (XI (XI (XI (XI (XI (XI (XI XH))))))))) :: [])))

(** val b64c : n -> n **)

let b64c n0 =
  if N.ltb n0 (Npos (XO (XI (XO (XI XH)))))
  then N.add (Npos (XI (XO (XO (XO (XO (XO XH))))))) n0
  else if N.ltb n0 (Npos (XO (XO (XI (XO (XI XH))))))
       then N.add (Npos (XI (XO (XO (XO (XO (XI XH)))))))
              (N.sub n0 (Npos (XO (XI (XO (XI XH))))))
       else if N.ltb n0 (Npos (XO (XI (XI (XI (XI XH))))))
            then N.add (Npos (XO (XO (XO (XO (XI XH))))))
                   (N.sub n0 (Npos (XO (XO (XI (XO (XI XH)))))))
            else if N.eqb n0 (Npos (XO (XI (XI (XI (XI XH))))))
                 then Npos (XI (XI (XO (XI (XO XH)))))
                 else Npos (XI (XI (XI (XI (XO XH)))))

(** val base64 : bytes -> bytes **)

let rec base64 = function
| [] -> []
| a :: l0 ->
  (match l0 with
   | [] ->
     let v =
       N.mul a (Npos (XO (XO (XO (XO (XO (XO (XO (XO (XO (XO (XO (XO (XO (XO
         (XO (XO XH)))))))))))))))))
     in
     (b64c
       (N.coq_land (N.shiftr v (Npos (XO (XI (XO (XO XH)))))) (Npos (XI (XI
         (XI (XI (XI XH)))))))) :: ((b64c
                                      (N.coq_land
                                        (N.shiftr v (Npos (XO (XO (XI XH)))))
                                        (Npos (XI (XI (XI (XI (XI XH)))))))) :: ((Npos
     (XI (XO (XI (XI (XI XH)))))) :: ((Npos (XI (XO (XI (XI (XI
     XH)))))) :: [])))
   | b :: l1 ->
     (match l1 with
      | [] ->
        let v =
          N.add
            (N.mul a (Npos (XO (XO (XO (XO (XO (XO (XO (XO (XO (XO (XO (XO
              (XO (XO (XO (XO XH))))))))))))))))))
            (N.mul b (Npos (XO (XO (XO (XO (XO (XO (XO (XO XH))))))))))
        in
        (b64c
          (N.coq_land (N.shiftr v (Npos (XO (XI (XO (XO XH)))))) (Npos (XI
            (XI (XI (XI (XI XH)))))))) :: ((b64c
                                             (N.coq_land
                                               (N.shiftr v (Npos (XO (XO (XI
                                                 XH))))) (Npos (XI (XI (XI
                                               (XI (XI XH)))))))) :: (
        (b64c
          (N.coq_land (N.shiftr v (Npos (XO (XI XH)))) (Npos (XI (XI (XI (XI
            (XI XH)))))))) :: ((Npos (XI (XO (XI (XI (XI XH)))))) :: [])))
      | c :: r ->
        let v =
          N.add
            (N.add
              (N.mul a (Npos (XO (XO (XO (XO (XO (XO (XO (XO (XO (XO (XO (XO
                (XO (XO (XO (XO XH))))))))))))))))))
              (N.mul b (Npos (XO (XO (XO (XO (XO (XO (XO (XO XH))))))))))) c
        in
        app
          ((b64c
             (N.coq_land (N.shiftr v (Npos (XO (XI (XO (XO XH)))))) (Npos (XI
               (XI (XI (XI (XI XH)))))))) :: ((b64c
                                                (N.coq_land
                                                  (N.shiftr v (Npos (XO (XO
                                                    (XI XH))))) (Npos (XI (XI
                                                  (XI (XI (XI XH)))))))) :: (
          (b64c
            (N.coq_land (N.shiftr v (Npos (XO (XI XH)))) (Npos (XI (XI (XI
              (XI (XI XH)))))))) :: ((b64c
                                       (N.coq_land v (Npos (XI (XI (XI (XI
                                         (XI XH)))))))) :: [])))) (base64 r)))

(** val is_b64 : n -> bool **)

let is_b64 c =
  (||)
    ((||)
      ((||)
        ((||)
          ((&&) (N.leb (Npos (XI (XO (XO (XO (XO (XO XH))))))) c)
            (N.leb c (Npos (XO (XI (XO (XI (XI (XO XH)))))))))
          ((&&) (N.leb (Npos (XI (XO (XO (XO (XO (XI XH))))))) c)
            (N.leb c (Npos (XO (XI (XO (XI (XI (XI XH))))))))))
        ((&&) (N.leb (Npos (XO (XO (XO (XO (XI XH)))))) c)
          (N.leb c (Npos (XI (XO (XO (XI (XI XH)))))))))
      (N.eqb c (Npos (XI (XI (XO (XI (XO XH))))))))
    (N.eqb c (Npos (XI (XI (XI (XI (XO XH)))))))

(** val b64_decoded_len : bytes -> nat -> nat option **)

let rec b64_decoded_len l acc =
  match l with
  | [] -> Some acc
  | a :: l0 ->
    (match l0 with
     | [] -> None
     | b :: l1 ->
       (match l1 with
        | [] -> None
        | c :: l2 ->
          (match c with
           | N0 ->
             (match l2 with
              | [] -> None
              | d :: r ->
                (match d with
                 | N0 ->
                   if (&&) ((&&) ((&&) (is_b64 a) (is_b64 b)) (is_b64 c))
                        (is_b64 d)
                   then b64_decoded_len r (add acc (S (S (S O))))
                   else None
                 | Npos p ->
                   (match p with
                    | XI p0 ->
                      (match p0 with
                       | XO p1 ->
                         (match p1 with
                          | XI p2 ->
                            (match p2 with
                             | XI p3 ->
                               (match p3 with
                                | XI p4 ->
                                  (match p4 with
                                   | XH ->
                                     (match r with
                                      | [] ->
                                        if (&&) ((&&) (is_b64 a) (is_b64 b))
                                             (is_b64 c)
                                        then Some (add acc (S (S O)))
                                        else None
                                      | _ :: _ ->
                                        if (&&)
                                             ((&&)
                                               ((&&) (is_b64 a) (is_b64 b))
                                               (is_b64 c)) (is_b64 d)
                                        then b64_decoded_len r
                                               (add acc (S (S (S O))))
                                        else None)
                                   | _ ->
                                     if (&&)
                                          ((&&) ((&&) (is_b64 a) (is_b64 b))
                                            (is_b64 c)) (is_b64 d)
                                     then b64_decoded_len r
                                            (add acc (S (S (S O))))
                                     else None)
                                | _ ->
                                  if (&&)
                                       ((&&) ((&&) (is_b64 a) (is_b64 b))
                                         (is_b64 c)) (is_b64 d)
                                  then b64_decoded_len r
                                         (add acc (S (S (S O))))
                                  else None)
                             | _ ->
                               if (&&)
                                    ((&&) ((&&) (is_b64 a) (is_b64 b))
                                      (is_b64 c)) (is_b64 d)
                               then b64_decoded_len r (add acc (S (S (S O))))
                               else None)
                          | _ ->
                            if (&&)
                                 ((&&) ((&&) (is_b64 a) (is_b64 b))
                                   (is_b64 c)) (is_b64 d)
                            then b64_decoded_len r (add acc (S (S (S O))))
                            else None)
                       | _ ->
                         if (&&)
                              ((&&) ((&&) (is_b64 a) (is_b64 b)) (is_b64 c))
                              (is_b64 d)
                         then b64_decoded_len r (add acc (S (S (S O))))
                         else None)
                    | _ ->
                      if (&&) ((&&) ((&&) (is_b64 a) (is_b64 b)) (is_b64 c))
                           (is_b64 d)
                      then b64_decoded_len r (add acc (S (S (S O))))
                      else None)))
           | Npos p ->
             (match p with
              | XI p0 ->
                (match p0 with
                 | XI _ ->
                   (match l2 with
                    | [] -> None
                    | d :: r ->
                      (match d with
                       | N0 ->
                         if (&&)
                              ((&&) ((&&) (is_b64 a) (is_b64 b)) (is_b64 c))
                              (is_b64 d)
                         then b64_decoded_len r (add acc (S (S (S O))))
                         else None
                       | Npos p2 ->
                         (match p2 with
                          | XI p3 ->
                            (match p3 with
                             | XO p4 ->
                               (match p4 with
                                | XI p5 ->
                                  (match p5 with
                                   | XI p6 ->
                                     (match p6 with
                                      | XI p7 ->
                                        (match p7 with
                                         | XH ->
                                           (match r with
                                            | [] ->
                                              if (&&)
                                                   ((&&) (is_b64 a)
                                                     (is_b64 b)) (is_b64 c)
                                              then Some (add acc (S (S O)))
                                              else None
                                            | _ :: _ ->
                                              if (&&)
                                                   ((&&)
                                                     ((&&) (is_b64 a)
                                                       (is_b64 b)) (is_b64 c))
                                                   (is_b64 d)
                                              then b64_decoded_len r
                                                     (add acc (S (S (S O))))
                                              else None)
                                         | _ ->
                                           if (&&)
                                                ((&&)
                                                  ((&&) (is_b64 a) (is_b64 b))
                                                  (is_b64 c)) (is_b64 d)
                                           then b64_decoded_len r
                                                  (add acc (S (S (S O))))
                                           else None)
                                      | _ ->
                                        if (&&)
                                             ((&&)
                                               ((&&) (is_b64 a) (is_b64 b))
                                               (is_b64 c)) (is_b64 d)
                                        then b64_decoded_len r
                                               (add acc (S (S (S O))))
                                        else None)
                                   | _ ->
                                     if (&&)
                                          ((&&) ((&&) (is_b64 a) (is_b64 b))
                                            (is_b64 c)) (is_b64 d)
                                     then b64_decoded_len r
                                            (add acc (S (S (S O))))
                                     else None)
                                | _ ->
                                  if (&&)
                                       ((&&) ((&&) (is_b64 a) (is_b64 b))
                                         (is_b64 c)) (is_b64 d)
                                  then b64_decoded_len r
                                         (add acc (S (S (S O))))
                                  else None)
                             | _ ->
                               if (&&)
                                    ((&&) ((&&) (is_b64 a) (is_b64 b))
                                      (is_b64 c)) (is_b64 d)
                               then b64_decoded_len r (add acc (S (S (S O))))
                               else None)
                          | _ ->
                            if (&&)
                                 ((&&) ((&&) (is_b64 a) (is_b64 b))
                                   (is_b64 c)) (is_b64 d)
                            then b64_decoded_len r (add acc (S (S (S O))))
                            else None)))
                 | XO p1 ->
                   (match p1 with
                    | XI p2 ->
                      (match p2 with
                       | XI p3 ->
                         (match p3 with
                          | XI p4 ->
                            (match p4 with
                             | XH ->
                               (match l2 with
                                | [] -> None
                                | d :: r ->
                                  (match d with
                                   | N0 ->
                                     if (&&)
                                          ((&&) ((&&) (is_b64 a) (is_b64 b))
                                            (is_b64 c)) (is_b64 d)
                                     then b64_decoded_len r
                                            (add acc (S (S (S O))))
                                     else None
                                   | Npos p5 ->
                                     (match p5 with
                                      | XI p6 ->
                                        (match p6 with
                                         | XO p7 ->
                                           (match p7 with
                                            | XI p8 ->
                                              (match p8 with
                                               | XI p9 ->
                                                 (match p9 with
                                                  | XI p10 ->
                                                    (match p10 with
                                                     | XH ->
                                                       (match r with
                                                        | [] ->
                                                          if (&&) (is_b64 a)
                                                               (is_b64 b)
                                                          then Some
                                                                 (add acc (S
                                                                   O))
                                                          else None
                                                        | _ :: _ ->
                                                          if (&&)
                                                               ((&&)
                                                                 ((&&)
                                                                   (is_b64 a)
                                                                   (is_b64 b))
                                                                 (is_b64 c))
                                                               (is_b64 d)
                                                          then b64_decoded_len
                                                                 r
                                                                 (add acc (S
                                                                   (S (S O))))
                                                          else None)
                                                     | _ ->
                                                       if (&&)
                                                            ((&&)
                                                              ((&&)
                                                                (is_b64 a)
                                                                (is_b64 b))
                                                              (is_b64 c))
                                                            (is_b64 d)
                                                       then b64_decoded_len r
                                                              (add acc (S (S
                                                                (S O))))
                                                       else None)
                                                  | _ ->
                                                    if (&&)
                                                         ((&&)
                                                           ((&&) (is_b64 a)
                                                             (is_b64 b))
                                                           (is_b64 c))
                                                         (is_b64 d)
                                                    then b64_decoded_len r
                                                           (add acc (S (S (S
                                                             O))))
                                                    else None)
                                               | _ ->
                                                 if (&&)
                                                      ((&&)
                                                        ((&&) (is_b64 a)
                                                          (is_b64 b))
                                                        (is_b64 c)) (is_b64 d)
                                                 then b64_decoded_len r
                                                        (add acc (S (S (S
                                                          O))))
                                                 else None)
                                            | _ ->
                                              if (&&)
                                                   ((&&)
                                                     ((&&) (is_b64 a)
                                                       (is_b64 b)) (is_b64 c))
                                                   (is_b64 d)
                                              then b64_decoded_len r
                                                     (add acc (S (S (S O))))
                                              else None)
                                         | _ ->
                                           if (&&)
                                                ((&&)
                                                  ((&&) (is_b64 a) (is_b64 b))
                                                  (is_b64 c)) (is_b64 d)
                                           then b64_decoded_len r
                                                  (add acc (S (S (S O))))
                                           else None)
                                      | _ ->
                                        if (&&)
                                             ((&&)
                                               ((&&) (is_b64 a) (is_b64 b))
                                               (is_b64 c)) (is_b64 d)
                                        then b64_decoded_len r
                                               (add acc (S (S (S O))))
                                        else None)))
                             | _ ->
                               (match l2 with
                                | [] -> None
                                | d :: r ->
                                  (match d with
                                   | N0 ->
                                     if (&&)
                                          ((&&) ((&&) (is_b64 a) (is_b64 b))
                                            (is_b64 c)) (is_b64 d)
                                     then b64_decoded_len r
                                            (add acc (S (S (S O))))
                                     else None
                                   | Npos p6 ->
                                     (match p6 with
                                      | XI p7 ->
                                        (match p7 with
                                         | XO p8 ->
                                           (match p8 with
                                            | XI p9 ->
                                              (match p9 with
                                               | XI p10 ->
                                                 (match p10 with
                                                  | XI p11 ->
                                                    (match p11 with
                                                     | XH ->
                                                       (match r with
                                                        | [] ->
                                                          if (&&)
                                                               ((&&)
                                                                 (is_b64 a)
                                                                 (is_b64 b))
                                                               (is_b64 c)
                                                          then Some
                                                                 (add acc (S
                                                                   (S O)))
                                                          else None
                                                        | _ :: _ ->
                                                          if (&&)
                                                               ((&&)
                                                                 ((&&)
                                                                   (is_b64 a)
                                                                   (is_b64 b))
                                                                 (is_b64 c))
                                                               (is_b64 d)
                                                          then b64_decoded_len
                                                                 r
                                                                 (add acc (S
                                                                   (S (S O))))
                                                          else None)
                                                     | _ ->
                                                       if (&&)
                                                            ((&&)
                                                              ((&&)
                                                                (is_b64 a)
                                                                (is_b64 b))
                                                              (is_b64 c))
                                                            (is_b64 d)
                                                       then b64_decoded_len r
                                                              (add acc (S (S
                                                                (S O))))
                                                       else None)
                                                  | _ ->
                                                    if (&&)
                                                         ((&&)
                                                           ((&&) (is_b64 a)
                                                             (is_b64 b))
                                                           (is_b64 c))
                                                         (is_b64 d)
                                                    then b64_decoded_len r
                                                           (add acc (S (S (S
                                                             O))))
                                                    else None)
                                               | _ ->
                                                 if (&&)
                                                      ((&&)
                                                        ((&&) (is_b64 a)
                                                          (is_b64 b))
                                                        (is_b64 c)) (is_b64 d)
                                                 then b64_decoded_len r
                                                        (add acc (S (S (S
                                                          O))))
                                                 else None)
                                            | _ ->
                                              if (&&)
                                                   ((&&)
                                                     ((&&) (is_b64 a)
                                                       (is_b64 b)) (is_b64 c))
                                                   (is_b64 d)
                                              then b64_decoded_len r
                                                     (add acc (S (S (S O))))
                                              else None)
                                         | _ ->
                                           if (&&)
                                                ((&&)
                                                  ((&&) (is_b64 a) (is_b64 b))
                                                  (is_b64 c)) (is_b64 d)
                                           then b64_decoded_len r
                                                  (add acc (S (S (S O))))
                                           else None)
                                      | _ ->
                                        if (&&)
                                             ((&&)
                                               ((&&) (is_b64 a) (is_b64 b))
                                               (is_b64 c)) (is_b64 d)
                                        then b64_decoded_len r
                                               (add acc (S (S (S O))))
                                        else None))))
                          | XO _ ->
                            (match l2 with
                             | [] -> None
                             | d :: r ->
                               (match d with
                                | N0 ->
                                  if (&&)
                                       ((&&) ((&&) (is_b64 a) (is_b64 b))
                                         (is_b64 c)) (is_b64 d)
                                  then b64_decoded_len r
                                         (add acc (S (S (S O))))
                                  else None
                                | Npos p5 ->
                                  (match p5 with
                                   | XI p6 ->
                                     (match p6 with
                                      | XO p7 ->
                                        (match p7 with
                                         | XI p8 ->
                                           (match p8 with
                                            | XI p9 ->
                                              (match p9 with
                                               | XI p10 ->
                                                 (match p10 with
                                                  | XH ->
                                                    (match r with
                                                     | [] ->
                                                       if (&&)
                                                            ((&&) (is_b64 a)
                                                              (is_b64 b))
                                                            (is_b64 c)
                                                       then Some
                                                              (add acc (S (S
                                                                O)))
                                                       else None
                                                     | _ :: _ ->
                                                       if (&&)
                                                            ((&&)
                                                              ((&&)
                                                                (is_b64 a)
                                                                (is_b64 b))
                                                              (is_b64 c))
                                                            (is_b64 d)
                                                       then b64_decoded_len r
                                                              (add acc (S (S
                                                                (S O))))
                                                       else None)
                                                  | _ ->
                                                    if (&&)
                                                         ((&&)
                                                           ((&&) (is_b64 a)
                                                             (is_b64 b))
                                                           (is_b64 c))
                                                         (is_b64 d)
                                                    then b64_decoded_len r
                                                           (add acc (S (S (S
                                                             O))))
                                                    else None)
                                               | _ ->
                                                 if (&&)
                                                      ((&&)
                                                        ((&&) (is_b64 a)
                                                          (is_b64 b))
                                                        (is_b64 c)) (is_b64 d)
                                                 then b64_decoded_len r
                                                        (add acc (S (S (S
                                                          O))))
                                                 else None)
                                            | _ ->
                                              if (&&)
                                                   ((&&)
                                                     ((&&) (is_b64 a)
                                                       (is_b64 b)) (is_b64 c))
                                                   (is_b64 d)
                                              then b64_decoded_len r
                                                     (add acc (S (S (S O))))
                                              else None)
                                         | _ ->
                                           if (&&)
                                                ((&&)
                                                  ((&&) (is_b64 a) (is_b64 b))
                                                  (is_b64 c)) (is_b64 d)
                                           then b64_decoded_len r
                                                  (add acc (S (S (S O))))
                                           else None)
                                      | _ ->
                                        if (&&)
                                             ((&&)
                                               ((&&) (is_b64 a) (is_b64 b))
                                               (is_b64 c)) (is_b64 d)
                                        then b64_decoded_len r
                                               (add acc (S (S (S O))))
                                        else None)
                                   | _ ->
                                     if (&&)
                                          ((&&) ((&&) (is_b64 a) (is_b64 b))
                                            (is_b64 c)) (is_b64 d)
                                     then b64_decoded_len r
                                            (add acc (S (S (S O))))
                                     else None)))
                          | XH ->
                            (match l2 with
                             | [] -> None
                             | d :: r ->
                               (match d with
                                | N0 ->
                                  if (&&)
                                       ((&&) ((&&) (is_b64 a) (is_b64 b))
                                         (is_b64 c)) (is_b64 d)
                                  then b64_decoded_len r
                                         (add acc (S (S (S O))))
                                  else None
                                | Npos p4 ->
                                  (match p4 with
                                   | XI p5 ->
                                     (match p5 with
                                      | XO p6 ->
                                        (match p6 with
                                         | XI p7 ->
                                           (match p7 with
                                            | XI p8 ->
                                              (match p8 with
                                               | XI p9 ->
                                                 (match p9 with
                                                  | XH ->
                                                    (match r with
                                                     | [] ->
                                                       if (&&)
                                                            ((&&) (is_b64 a)
                                                              (is_b64 b))
                                                            (is_b64 c)
                                                       then Some
                                                              (add acc (S (S
                                                                O)))
                                                       else None
                                                     | _ :: _ ->
                                                       if (&&)
                                                            ((&&)
                                                              ((&&)
                                                                (is_b64 a)
                                                                (is_b64 b))
                                                              (is_b64 c))
                                                            (is_b64 d)
                                                       then b64_decoded_len r
                                                              (add acc (S (S
                                                                (S O))))
                                                       else None)
                                                  | _ ->
                                                    if (&&)
                                                         ((&&)
                                                           ((&&) (is_b64 a)
                                                             (is_b64 b))
                                                           (is_b64 c))
                                                         (is_b64 d)
                                                    then b64_decoded_len r
                                                           (add acc (S (S (S
                                                             O))))
                                                    else None)
                                               | _ ->
                                                 if (&&)
                                                      ((&&)
                                                        ((&&) (is_b64 a)
                                                          (is_b64 b))
                                                        (is_b64 c)) (is_b64 d)
                                                 then b64_decoded_len r
                                                        (add acc (S (S (S
                                                          O))))
                                                 else None)
                                            | _ ->
                                              if (&&)
                                                   ((&&)
                                                     ((&&) (is_b64 a)
                                                       (is_b64 b)) (is_b64 c))
                                                   (is_b64 d)
                                              then b64_decoded_len r
                                                     (add acc (S (S (S O))))
                                              else None)
                                         | _ ->
                                           if (&&)
                                                ((&&)
                                                  ((&&) (is_b64 a) (is_b64 b))
                                                  (is_b64 c)) (is_b64 d)
                                           then b64_decoded_len r
                                                  (add acc (S (S (S O))))
                                           else None)
                                      | _ ->
                                        if (&&)
                                             ((&&)
                                               ((&&) (is_b64 a) (is_b64 b))
                                               (is_b64 c)) (is_b64 d)
                                        then b64_decoded_len r
                                               (add acc (S (S (S O))))
                                        else None)
                                   | _ ->
                                     if (&&)
                                          ((&&) ((&&) (is_b64 a) (is_b64 b))
                                            (is_b64 c)) (is_b64 d)
                                     then b64_decoded_len r
                                            (add acc (S (S (S O))))
                                     else None))))
                       | XO _ ->
                         (match l2 with
                          | [] -> None
                          | d :: r ->
                            (match d with
                             | N0 ->
                               if (&&)
                                    ((&&) ((&&) (is_b64 a) (is_b64 b))
                                      (is_b64 c)) (is_b64 d)
                               then b64_decoded_len r (add acc (S (S (S O))))
                               else None
                             | Npos p4 ->
                               (match p4 with
                                | XI p5 ->
                                  (match p5 with
                                   | XO p6 ->
                                     (match p6 with
                                      | XI p7 ->
                                        (match p7 with
                                         | XI p8 ->
                                           (match p8 with
                                            | XI p9 ->
                                              (match p9 with
                                               | XH ->
                                                 (match r with
                                                  | [] ->
                                                    if (&&)
                                                         ((&&) (is_b64 a)
                                                           (is_b64 b))
                                                         (is_b64 c)
                                                    then Some
                                                           (add acc (S (S O)))
                                                    else None
                                                  | _ :: _ ->
                                                    if (&&)
                                                         ((&&)
                                                           ((&&) (is_b64 a)
                                                             (is_b64 b))
                                                           (is_b64 c))
                                                         (is_b64 d)
                                                    then b64_decoded_len r
                                                           (add acc (S (S (S
                                                             O))))
                                                    else None)
                                               | _ ->
                                                 if (&&)
                                                      ((&&)
                                                        ((&&) (is_b64 a)
                                                          (is_b64 b))
                                                        (is_b64 c)) (is_b64 d)
                                                 then b64_decoded_len r
                                                        (add acc (S (S (S
                                                          O))))
                                                 else None)
                                            | _ ->
                                              if (&&)
                                                   ((&&)
                                                     ((&&) (is_b64 a)
                                                       (is_b64 b)) (is_b64 c))
                                                   (is_b64 d)
                                              then b64_decoded_len r
                                                     (add acc (S (S (S O))))
                                              else None)
                                         | _ ->
                                           if (&&)
                                                ((&&)
                                                  ((&&) (is_b64 a) (is_b64 b))
                                                  (is_b64 c)) (is_b64 d)
                                           then b64_decoded_len r
                                                  (add acc (S (S (S O))))
                                           else None)
                                      | _ ->
                                        if (&&)
                                             ((&&)
                                               ((&&) (is_b64 a) (is_b64 b))
                                               (is_b64 c)) (is_b64 d)
                                        then b64_decoded_len r
                                               (add acc (S (S (S O))))
                                        else None)
                                   | _ ->
                                     if (&&)
                                          ((&&) ((&&) (is_b64 a) (is_b64 b))
                                            (is_b64 c)) (is_b64 d)
                                     then b64_decoded_len r
                                            (add acc (S (S (S O))))
                                     else None)
                                | _ ->
                                  if (&&)
                                       ((&&) ((&&) (is_b64 a) (is_b64 b))
                                         (is_b64 c)) (is_b64 d)
                                  then b64_decoded_len r
                                         (add acc (S (S (S O))))
                                  else None)))
                       | XH ->
                         (match l2 with
                          | [] -> None
                          | d :: r ->
                            (match d with
                             | N0 ->
                               if (&&)
                                    ((&&) ((&&) (is_b64 a) (is_b64 b))
                                      (is_b64 c)) (is_b64 d)
                               then b64_decoded_len r (add acc (S (S (S O))))
                               else None
                             | Npos p3 ->
                               (match p3 with
                                | XI p4 ->
                                  (match p4 with
                                   | XO p5 ->
                                     (match p5 with
                                      | XI p6 ->
                                        (match p6 with
                                         | XI p7 ->
                                           (match p7 with
                                            | XI p8 ->
                                              (match p8 with
                                               | XH ->
                                                 (match r with
                                                  | [] ->
                                                    if (&&)
                                                         ((&&) (is_b64 a)
                                                           (is_b64 b))
                                                         (is_b64 c)
                                                    then Some
                                                           (add acc (S (S O)))
                                                    else None
                                                  | _ :: _ ->
                                                    if (&&)
                                                         ((&&)
                                                           ((&&) (is_b64 a)
                                                             (is_b64 b))
                                                           (is_b64 c))
                                                         (is_b64 d)
                                                    then b64_decoded_len r
                                                           (add acc (S (S (S
                                                             O))))
                                                    else None)
                                               | _ ->
                                                 if (&&)
                                                      ((&&)
                                                        ((&&) (is_b64 a)
                                                          (is_b64 b))
                                                        (is_b64 c)) (is_b64 d)
                                                 then b64_decoded_len r
                                                        (add acc (S (S (S
                                                          O))))
                                                 else None)
                                            | _ ->
                                              if (&&)
                                                   ((&&)
                                                     ((&&) (is_b64 a)
                                                       (is_b64 b)) (is_b64 c))
                                                   (is_b64 d)
                                              then b64_decoded_len r
                                                     (add acc (S (S (S O))))
                                              else None)
                                         | _ ->
                                           if (&&)
                                                ((&&)
                                                  ((&&) (is_b64 a) (is_b64 b))
                                                  (is_b64 c)) (is_b64 d)
                                           then b64_decoded_len r
                                                  (add acc (S (S (S O))))
                                           else None)
                                      | _ ->
                                        if (&&)
                                             ((&&)
                                               ((&&) (is_b64 a) (is_b64 b))
                                               (is_b64 c)) (is_b64 d)
                                        then b64_decoded_len r
                                               (add acc (S (S (S O))))
                                        else None)
                                   | _ ->
                                     if (&&)
                                          ((&&) ((&&) (is_b64 a) (is_b64 b))
                                            (is_b64 c)) (is_b64 d)
                                     then b64_decoded_len r
                                            (add acc (S (S (S O))))
                                     else None)
                                | _ ->
                                  if (&&)
                                       ((&&) ((&&) (is_b64 a) (is_b64 b))
                                         (is_b64 c)) (is_b64 d)
                                  then b64_decoded_len r
                                         (add acc (S (S (S O))))
                                  else None))))
                    | XO _ ->
                      (match l2 with
                       | [] -> None
                       | d :: r ->
                         (match d with
                          | N0 ->
                            if (&&)
                                 ((&&) ((&&) (is_b64 a) (is_b64 b))
                                   (is_b64 c)) (is_b64 d)
                            then b64_decoded_len r (add acc (S (S (S O))))
                            else None
                          | Npos p3 ->
                            (match p3 with
                             | XI p4 ->
                               (match p4 with
                                | XO p5 ->
                                  (match p5 with
                                   | XI p6 ->
                                     (match p6 with
                                      | XI p7 ->
                                        (match p7 with
                                         | XI p8 ->
                                           (match p8 with
                                            | XH ->
                                              (match r with
                                               | [] ->
                                                 if (&&)
                                                      ((&&) (is_b64 a)
                                                        (is_b64 b)) (is_b64 c)
                                                 then Some (add acc (S (S O)))
                                                 else None
                                               | _ :: _ ->
                                                 if (&&)
                                                      ((&&)
                                                        ((&&) (is_b64 a)
                                                          (is_b64 b))
                                                        (is_b64 c)) (is_b64 d)
                                                 then b64_decoded_len r
                                                        (add acc (S (S (S
                                                          O))))
                                                 else None)
                                            | _ ->
                                              if (&&)
                                                   ((&&)
                                                     ((&&) (is_b64 a)
                                                       (is_b64 b)) (is_b64 c))
                                                   (is_b64 d)
                                              then b64_decoded_len r
                                                     (add acc (S (S (S O))))
                                              else None)
                                         | _ ->
                                           if (&&)
                                                ((&&)
                                                  ((&&) (is_b64 a) (is_b64 b))
                                                  (is_b64 c)) (is_b64 d)
                                           then b64_decoded_len r
                                                  (add acc (S (S (S O))))
                                           else None)
                                      | _ ->
                                        if (&&)
                                             ((&&)
                                               ((&&) (is_b64 a) (is_b64 b))
                                               (is_b64 c)) (is_b64 d)
                                        then b64_decoded_len r
                                               (add acc (S (S (S O))))
                                        else None)
                                   | _ ->
                                     if (&&)
                                          ((&&) ((&&) (is_b64 a) (is_b64 b))
                                            (is_b64 c)) (is_b64 d)
                                     then b64_decoded_len r
                                            (add acc (S (S (S O))))
                                     else None)
                                | _ ->
                                  if (&&)
                                       ((&&) ((&&) (is_b64 a) (is_b64 b))
                                         (is_b64 c)) (is_b64 d)
                                  then b64_decoded_len r
                                         (add acc (S (S (S O))))
                                  else None)
                             | _ ->
                               if (&&)
                                    ((&&) ((&&) (is_b64 a) (is_b64 b))
                                      (is_b64 c)) (is_b64 d)
                               then b64_decoded_len r (add acc (S (S (S O))))
                               else None)))
                    | XH ->
                      (match l2 with
                       | [] -> None
                       | d :: r ->
                         (match d with
                          | N0 ->
                            if (&&)
                                 ((&&) ((&&) (is_b64 a) (is_b64 b))
                                   (is_b64 c)) (is_b64 d)
                            then b64_decoded_len r (add acc (S (S (S O))))
                            else None
                          | Npos p2 ->
                            (match p2 with
                             | XI p3 ->
                               (match p3 with
                                | XO p4 ->
                                  (match p4 with
                                   | XI p5 ->
                                     (match p5 with
                                      | XI p6 ->
                                        (match p6 with
                                         | XI p7 ->
                                           (match p7 with
                                            | XH ->
                                              (match r with
                                               | [] ->
                                                 if (&&)
                                                      ((&&) (is_b64 a)
                                                        (is_b64 b)) (is_b64 c)
                                                 then Some (add acc (S (S O)))
                                                 else None
                                               | _ :: _ ->
                                                 if (&&)
                                                      ((&&)
                                                        ((&&) (is_b64 a)
                                                          (is_b64 b))
                                                        (is_b64 c)) (is_b64 d)
                                                 then b64_decoded_len r
                                                        (add acc (S (S (S
                                                          O))))
                                                 else None)
                                            | _ ->
                                              if (&&)
                                                   ((&&)
                                                     ((&&) (is_b64 a)
                                                       (is_b64 b)) (is_b64 c))
                                                   (is_b64 d)
                                              then b64_decoded_len r
                                                     (add acc (S (S (S O))))
                                              else None)
                                         | _ ->
                                           if (&&)
                                                ((&&)
                                                  ((&&) (is_b64 a) (is_b64 b))
                                                  (is_b64 c)) (is_b64 d)
                                           then b64_decoded_len r
                                                  (add acc (S (S (S O))))
                                           else None)
                                      | _ ->
                                        if (&&)
                                             ((&&)
                                               ((&&) (is_b64 a) (is_b64 b))
                                               (is_b64 c)) (is_b64 d)
                                        then b64_decoded_len r
                                               (add acc (S (S (S O))))
                                        else None)
                                   | _ ->
                                     if (&&)
                                          ((&&) ((&&) (is_b64 a) (is_b64 b))
                                            (is_b64 c)) (is_b64 d)
                                     then b64_decoded_len r
                                            (add acc (S (S (S O))))
                                     else None)
                                | _ ->
                                  if (&&)
                                       ((&&) ((&&) (is_b64 a) (is_b64 b))
                                         (is_b64 c)) (is_b64 d)
                                  then b64_decoded_len r
                                         (add acc (S (S (S O))))
                                  else None)
                             | _ ->
                               if (&&)
                                    ((&&) ((&&) (is_b64 a) (is_b64 b))
                                      (is_b64 c)) (is_b64 d)
                               then b64_decoded_len r (add acc (S (S (S O))))
                               else None))))
                 | XH ->
                   (match l2 with
                    | [] -> None
                    | d :: r ->
                      (match d with
                       | N0 ->
                         if (&&)
                              ((&&) ((&&) (is_b64 a) (is_b64 b)) (is_b64 c))
                              (is_b64 d)
                         then b64_decoded_len r (add acc (S (S (S O))))
                         else None
                       | Npos p1 ->
                         (match p1 with
                          | XI p2 ->
                            (match p2 with
                             | XO p3 ->
                               (match p3 with
                                | XI p4 ->
                                  (match p4 with
                                   | XI p5 ->
                                     (match p5 with
                                      | XI p6 ->
                                        (match p6 with
                                         | XH ->
                                           (match r with
                                            | [] ->
                                              if (&&)
                                                   ((&&) (is_b64 a)
                                                     (is_b64 b)) (is_b64 c)
                                              then Some (add acc (S (S O)))
                                              else None
                                            | _ :: _ ->
                                              if (&&)
                                                   ((&&)
                                                     ((&&) (is_b64 a)
                                                       (is_b64 b)) (is_b64 c))
                                                   (is_b64 d)
                                              then b64_decoded_len r
                                                     (add acc (S (S (S O))))
                                              else None)
                                         | _ ->
                                           if (&&)
                                                ((&&)
                                                  ((&&) (is_b64 a) (is_b64 b))
                                                  (is_b64 c)) (is_b64 d)
                                           then b64_decoded_len r
                                                  (add acc (S (S (S O))))
                                           else None)
                                      | _ ->
                                        if (&&)
                                             ((&&)
                                               ((&&) (is_b64 a) (is_b64 b))
                                               (is_b64 c)) (is_b64 d)
                                        then b64_decoded_len r
                                               (add acc (S (S (S O))))
                                        else None)
                                   | _ ->
                                     if (&&)
                                          ((&&) ((&&) (is_b64 a) (is_b64 b))
                                            (is_b64 c)) (is_b64 d)
                                     then b64_decoded_len r
                                            (add acc (S (S (S O))))
                                     else None)
                                | _ ->
                                  if (&&)
                                       ((&&) ((&&) (is_b64 a) (is_b64 b))
                                         (is_b64 c)) (is_b64 d)
                                  then b64_decoded_len r
                                         (add acc (S (S (S O))))
                                  else None)
                             | _ ->
                               if (&&)
                                    ((&&) ((&&) (is_b64 a) (is_b64 b))
                                      (is_b64 c)) (is_b64 d)
                               then b64_decoded_len r (add acc (S (S (S O))))
                               else None)
                          | _ ->
                            if (&&)
                                 ((&&) ((&&) (is_b64 a) (is_b64 b))
                                   (is_b64 c)) (is_b64 d)
                            then b64_decoded_len r (add acc (S (S (S O))))
                            else None))))
              | XO _ ->
                (match l2 with
                 | [] -> None
                 | d :: r ->
                   (match d with
                    | N0 ->
                      if (&&) ((&&) ((&&) (is_b64 a) (is_b64 b)) (is_b64 c))
                           (is_b64 d)
                      then b64_decoded_len r (add acc (S (S (S O))))
                      else None
                    | Npos p1 ->
                      (match p1 with
                       | XI p2 ->
                         (match p2 with
                          | XO p3 ->
                            (match p3 with
                             | XI p4 ->
                               (match p4 with
                                | XI p5 ->
                                  (match p5 with
                                   | XI p6 ->
                                     (match p6 with
                                      | XH ->
                                        (match r with
                                         | [] ->
                                           if (&&)
                                                ((&&) (is_b64 a) (is_b64 b))
                                                (is_b64 c)
                                           then Some (add acc (S (S O)))
                                           else None
                                         | _ :: _ ->
                                           if (&&)
                                                ((&&)
                                                  ((&&) (is_b64 a) (is_b64 b))
                                                  (is_b64 c)) (is_b64 d)
                                           then b64_decoded_len r
                                                  (add acc (S (S (S O))))
                                           else None)
                                      | _ ->
                                        if (&&)
                                             ((&&)
                                               ((&&) (is_b64 a) (is_b64 b))
                                               (is_b64 c)) (is_b64 d)
                                        then b64_decoded_len r
                                               (add acc (S (S (S O))))
                                        else None)
                                   | _ ->
                                     if (&&)
                                          ((&&) ((&&) (is_b64 a) (is_b64 b))
                                            (is_b64 c)) (is_b64 d)
                                     then b64_decoded_len r
                                            (add acc (S (S (S O))))
                                     else None)
                                | _ ->
                                  if (&&)
                                       ((&&) ((&&) (is_b64 a) (is_b64 b))
                                         (is_b64 c)) (is_b64 d)
                                  then b64_decoded_len r
                                         (add acc (S (S (S O))))
                                  else None)
                             | _ ->
                               if (&&)
                                    ((&&) ((&&) (is_b64 a) (is_b64 b))
                                      (is_b64 c)) (is_b64 d)
                               then b64_decoded_len r (add acc (S (S (S O))))
                               else None)
                          | _ ->
                            if (&&)
                                 ((&&) ((&&) (is_b64 a) (is_b64 b))
                                   (is_b64 c)) (is_b64 d)
                            then b64_decoded_len r (add acc (S (S (S O))))
                            else None)
                       | _ ->
                         if (&&)
                              ((&&) ((&&) (is_b64 a) (is_b64 b)) (is_b64 c))
                              (is_b64 d)
                         then b64_decoded_len r (add acc (S (S (S O))))
                         else None)))
              | XH ->
                (match l2 with
                 | [] -> None
                 | d :: r ->
                   (match d with
                    | N0 ->
                      if (&&) ((&&) ((&&) (is_b64 a) (is_b64 b)) (is_b64 c))
                           (is_b64 d)
                      then b64_decoded_len r (add acc (S (S (S O))))
                      else None
                    | Npos p0 ->
                      (match p0 with
                       | XI p1 ->
                         (match p1 with
                          | XO p2 ->
                            (match p2 with
                             | XI p3 ->
                               (match p3 with
                                | XI p4 ->
                                  (match p4 with
                                   | XI p5 ->
                                     (match p5 with
                                      | XH ->
                                        (match r with
                                         | [] ->
                                           if (&&)
                                                ((&&) (is_b64 a) (is_b64 b))
                                                (is_b64 c)
                                           then Some (add acc (S (S O)))
                                           else None
                                         | _ :: _ ->
                                           if (&&)
                                                ((&&)
                                                  ((&&) (is_b64 a) (is_b64 b))
                                                  (is_b64 c)) (is_b64 d)
                                           then b64_decoded_len r
                                                  (add acc (S (S (S O))))
                                           else None)
                                      | _ ->
                                        if (&&)
                                             ((&&)
                                               ((&&) (is_b64 a) (is_b64 b))
                                               (is_b64 c)) (is_b64 d)
                                        then b64_decoded_len r
                                               (add acc (S (S (S O))))
                                        else None)
                                   | _ ->
                                     if (&&)
                                          ((&&) ((&&) (is_b64 a) (is_b64 b))
                                            (is_b64 c)) (is_b64 d)
                                     then b64_decoded_len r
                                            (add acc (S (S (S O))))
                                     else None)
                                | _ ->
                                  if (&&)
                                       ((&&) ((&&) (is_b64 a) (is_b64 b))
                                         (is_b64 c)) (is_b64 d)
                                  then b64_decoded_len r
                                         (add acc (S (S (S O))))
                                  else None)
                             | _ ->
                               if (&&)
                                    ((&&) ((&&) (is_b64 a) (is_b64 b))
                                      (is_b64 c)) (is_b64 d)
                               then b64_decoded_len r (add acc (S (S (S O))))
                               else None)
                          | _ ->
                            if (&&)
                                 ((&&) ((&&) (is_b64 a) (is_b64 b))
                                   (is_b64 c)) (is_b64 d)
                            then b64_decoded_len r (add acc (S (S (S O))))
                            else None)
                       | _ ->
                         if (&&)
                              ((&&) ((&&) (is_b64 a) (is_b64 b)) (is_b64 c))
                              (is_b64 d)
                         then b64_decoded_len r (add acc (S (S (S O))))
                         else None)))))))

(** val b64_len : bytes -> nat option **)

let b64_len l =
  b64_decoded_len
    (filter (fun c ->
      negb
        ((||) (N.eqb c (Npos (XO (XI (XO XH)))))
          (N.eqb c (Npos (XI (XO (XI XH))))))) l) O

type rerr =
| E_None
| E_EOF
| E_InvalidChunk
| E_Malformed
| E_SigMismatch
| E_BadDigest
| E_InvalidTrailer
| E_UnexpectedEOF
| E_Panic

type trailer_kind =
| TCrc32
| TCrc32c

(** val trailer_name : trailer_kind -> bytes **)

let trailer_name = function
| TCrc32 ->
  bytes_of_string (String ((Ascii (false, false, false, true, true, true,
    true, false)), (String ((Ascii (true, false, true, true, false, true,
    false, false)), (String ((Ascii (true, false, false, false, false, true,
    true, false)), (String ((Ascii (true, false, true, true, false, true,
    true, false)), (String ((Ascii (false, true, false, true, true, true,
    true, false)), (String ((Ascii (true, false, true, true, false, true,
    false, false)), (String ((Ascii (true, true, false, false, false, true,
    true, false)), (String ((Ascii (false, false, false, true, false, true,
    true, false)), (String ((Ascii (true, false, true, false, false, true,
    true, false)), (String ((Ascii (true, true, false, false, false, true,
    true, false)), (String ((Ascii (true, true, false, true, false, true,
    true, false)), (String ((Ascii (true, true, false, false, true, true,
    true, false)), (String ((Ascii (true, false, true, false, true, true,
    true, false)), (String ((Ascii (true, false, true, true, false, true,
    true, false)), (String ((Ascii (true, false, true, true, false, true,
    false, false)), (String ((Ascii (true, true, false, false, false, true,
    true, false)), (String ((Ascii (false, true, false, false, true, true,
    true, false)), (String ((Ascii (true, true, false, false, false, true,
    true, false)), (String ((Ascii (true, true, false, false, true, true,
    false, false)), (String ((Ascii (false, true, false, false, true, true,
    false, false)), EmptyString))))))))))))))))))))))))))))))))))))))))
| TCrc32c ->
  bytes_of_string (String ((Ascii (false, false, false, true, true, true,
    true, false)), (String ((Ascii (true, false, true, true, false, true,
    false, false)), (String ((Ascii (true, false, false, false, false, true,
    true, false)), (String ((Ascii (true, false, true, true, false, true,
    true, false)), (String ((Ascii (false, true, false, true, true, true,
    true, false)), (String ((Ascii (true, false, true, true, false, true,
    false, false)), (String ((Ascii (true, true, false, false, false, true,
    true, false)), (String ((Ascii (false, false, false, true, false, true,
    true, false)), (String ((Ascii (true, false, true, false, false, true,
    true, false)), (String ((Ascii (true, true, false, false, false, true,
    true, false)), (String ((Ascii (true, true, false, true, false, true,
    true, false)), (String ((Ascii (true, true, false, false, true, true,
    true, false)), (String ((Ascii (true, false, true, false, true, true,
    true, false)), (String ((Ascii (true, false, true, true, false, true,
    true, false)), (String ((Ascii (true, false, true, true, false, true,
    false, false)), (String ((Ascii (true, true, false, false, false, true,
    true, false)), (String ((Ascii (false, true, false, false, true, true,
    true, false)), (String ((Ascii (true, true, false, false, false, true,
    true, false)), (String ((Ascii (true, true, false, false, true, true,
    false, false)), (String ((Ascii (false, true, false, false, true, true,
    false, false)), (String ((Ascii (true, true, false, false, false, true,
    true, false)), EmptyString))))))))))))))))))))))))))))))))))))))))))

(** val trailer_sum : trailer_kind -> bytes -> bytes **)

let trailer_sum t data =
  base64 (be32 (match t with
                | TCrc32 -> crc32 data
                | TCrc32c -> crc32c data))

(** val valid_checksum : trailer_kind -> bytes -> bool **)

let valid_checksum _ c =
  match b64_len c with
  | Some n0 ->
    (match n0 with
     | O -> false
     | S n1 ->
       (match n1 with
        | O -> false
        | S n2 ->
          (match n2 with
           | O -> false
           | S n3 ->
             (match n3 with
              | O -> false
              | S n4 -> (match n4 with
                         | O -> true
                         | S _ -> false)))))
  | None -> false

type cst = { stash : bytes option; left : z; prevSig : bytes;
             parsedSig : bytes; hbuf : bytes; cbuf : bytes; firstHdr : 
             bool; isEOF : bool; trailerSig : bytes; parsedChecksum : 
             bytes }

(** val init : bytes -> cst **)

let init seed =
  { stash = None; left = Z0; prevSig = seed; parsedSig = []; hbuf = [];
    cbuf = []; firstHdr = true; isEOF = false; trailerSig = [];
    parsedChecksum = [] }

(** val zeroLenSig : bytes **)

let zeroLenSig =
  bytes_of_string (String ((Ascii (true, false, true, false, false, true,
    true, false)), (String ((Ascii (true, true, false, false, true, true,
    false, false)), (String ((Ascii (false, true, false, false, false, true,
    true, false)), (String ((Ascii (false, false, false, false, true, true,
    false, false)), (String ((Ascii (true, true, false, false, false, true,
    true, false)), (String ((Ascii (false, false, true, false, true, true,
    false, false)), (String ((Ascii (false, false, true, false, true, true,
    false, false)), (String ((Ascii (false, true, false, false, true, true,
    false, false)), (String ((Ascii (true, false, false, true, true, true,
    false, false)), (String ((Ascii (false, false, false, true, true, true,
    false, false)), (String ((Ascii (false, true, true, false, false, true,
    true, false)), (String ((Ascii (true, true, false, false, false, true,
    true, false)), (String ((Ascii (true, false, false, false, true, true,
    false, false)), (String ((Ascii (true, true, false, false, false, true,
    true, false)), (String ((Ascii (true, false, false, false, true, true,
    false, false)), (String ((Ascii (false, false, true, false, true, true,
    false, false)), (String ((Ascii (true, false, false, true, true, true,
    false, false)), (String ((Ascii (true, false, false, false, false, true,
    true, false)), (String ((Ascii (false, true, true, false, false, true,
    true, false)), (String ((Ascii (false, true, false, false, false, true,
    true, false)), (String ((Ascii (false, true, true, false, false, true,
    true, false)), (String ((Ascii (false, false, true, false, true, true,
    false, false)), (String ((Ascii (true, true, false, false, false, true,
    true, false)), (String ((Ascii (false, false, false, true, true, true,
    false, false)), (String ((Ascii (true, false, false, true, true, true,
    false, false)), (String ((Ascii (true, false, false, true, true, true,
    false, false)), (String ((Ascii (false, true, true, false, true, true,
    false, false)), (String ((Ascii (false, true, true, false, false, true,
    true, false)), (String ((Ascii (false, true, false, false, false, true,
    true, false)), (String ((Ascii (true, false, false, true, true, true,
    false, false)), (String ((Ascii (false, true, false, false, true, true,
    false, false)), (String ((Ascii (false, false, true, false, true, true,
    false, false)), (String ((Ascii (false, true, false, false, true, true,
    false, false)), (String ((Ascii (true, true, true, false, true, true,
    false, false)), (String ((Ascii (true, false, false, false, false, true,
    true, false)), (String ((Ascii (true, false, true, false, false, true,
    true, false)), (String ((Ascii (false, false, true, false, true, true,
    false, false)), (String ((Ascii (true, false, false, false, true, true,
    false, false)), (String ((Ascii (true, false, true, false, false, true,
    true, false)), (String ((Ascii (false, false, true, false, true, true,
    false, false)), (String ((Ascii (false, true, true, false, true, true,
    false, false)), (String ((Ascii (false, false, true, false, true, true,
    false, false)), (String ((Ascii (true, false, false, true, true, true,
    false, false)), (String ((Ascii (false, true, false, false, false, true,
    true, false)), (String ((Ascii (true, false, false, true, true, true,
    false, false)), (String ((Ascii (true, true, false, false, true, true,
    false, false)), (String ((Ascii (false, false, true, false, true, true,
    false, false)), (String ((Ascii (true, true, false, false, false, true,
    true, false)), (String ((Ascii (true, false, false, false, false, true,
    true, false)), (String ((Ascii (false, false, true, false, true, true,
    false, false)), (String ((Ascii (true, false, false, true, true, true,
    false, false)), (String ((Ascii (true, false, true, false, true, true,
    false, false)), (String ((Ascii (true, false, false, true, true, true,
    false, false)), (String ((Ascii (true, false, false, true, true, true,
    false, false)), (String ((Ascii (true, false, false, false, true, true,
    false, false)), (String ((Ascii (false, true, false, false, false, true,
    true, false)), (String ((Ascii (true, true, true, false, true, true,
    false, false)), (String ((Ascii (false, false, false, true, true, true,
    false, false)), (String ((Ascii (true, false, true, false, true, true,
    false, false)), (String ((Ascii (false, true, false, false, true, true,
    false, false)), (String ((Ascii (false, true, false, false, false, true,
    true, false)), (String ((Ascii (false, false, false, true, true, true,
    false, false)), (String ((Ascii (true, false, true, false, true, true,
    false, false)), (String ((Ascii (true, false, true, false, true, true,
    false, false)),
    EmptyString))))))))))))))))))))))))))))))))))))))))))))))))))))))))))))))))))))))))))))))))))))))))))))))))))))))))))))))))))))))))))))))))

(** val chunkSigKw : bytes **)

let chunkSigKw =
  bytes_of_string (String ((Ascii (true, true, false, false, false, true,
    true, false)), (String ((Ascii (false, false, false, true, false, true,
    true, false)), (String ((Ascii (true, false, true, false, true, true,
    true, false)), (String ((Ascii (false, true, true, true, false, true,
    true, false)), (String ((Ascii (true, true, false, true, false, true,
    true, false)), (String ((Ascii (true, false, true, true, false, true,
    false, false)), (String ((Ascii (true, true, false, false, true, true,
    true, false)), (String ((Ascii (true, false, false, true, false, true,
    true, false)), (String ((Ascii (true, true, true, false, false, true,
    true, false)), (String ((Ascii (false, true, true, true, false, true,
    true, false)), (String ((Ascii (true, false, false, false, false, true,
    true, false)), (String ((Ascii (false, false, true, false, true, true,
    true, false)), (String ((Ascii (true, false, true, false, true, true,
    true, false)), (String ((Ascii (false, true, false, false, true, true,
    true, false)), (String ((Ascii (true, false, true, false, false, true,
    true, false)), (String ((Ascii (true, false, true, true, true, true,
    false, false)), EmptyString))))))))))))))))))))))))))))))))

(** val trailerSigKw : bytes **)

let trailerSigKw =
  bytes_of_string (String ((Ascii (false, false, false, true, true, true,
    true, false)), (String ((Ascii (true, false, true, true, false, true,
    false, false)), (String ((Ascii (true, false, false, false, false, true,
    true, false)), (String ((Ascii (true, false, true, true, false, true,
    true, false)), (String ((Ascii (false, true, false, true, true, true,
    true, false)), (String ((Ascii (true, false, true, true, false, true,
    false, false)), (String ((Ascii (false, false, true, false, true, true,
    true, false)), (String ((Ascii (false, true, false, false, true, true,
    true, false)), (String ((Ascii (true, false, false, false, false, true,
    true, false)), (String ((Ascii (true, false, false, true, false, true,
    true, false)), (String ((Ascii (false, false, true, true, false, true,
    true, false)), (String ((Ascii (true, false, true, false, false, true,
    true, false)), (String ((Ascii (false, true, false, false, true, true,
    true, false)), (String ((Ascii (true, false, true, true, false, true,
    false, false)), (String ((Ascii (true, true, false, false, true, true,
    true, false)), (String ((Ascii (true, false, false, true, false, true,
    true, false)), (String ((Ascii (true, true, true, false, false, true,
    true, false)), (String ((Ascii (false, true, true, true, false, true,
    true, false)), (String ((Ascii (true, false, false, false, false, true,
    true, false)), (String ((Ascii (false, false, true, false, true, true,
    true, false)), (String ((Ascii (true, false, true, false, true, true,
    true, false)), (String ((Ascii (false, true, false, false, true, true,
    true, false)), (String ((Ascii (true, false, true, false, false, true,
    true, false)), EmptyString))))))))))))))))))))))))))))))))))))))))))))))

(** val chunk_signature :
    (bytes -> bytes) -> (bytes -> bytes -> bytes) -> (bytes -> bytes) ->
    bytes -> bytes -> bytes -> bytes -> bytes **)

let chunk_signature sha257 hmac257 hex0 key stsPayload prev data =
  hex0
    (hmac257 key
      (app stsPayload
        (app ((Npos (XO (XI (XO XH)))) :: [])
          (app prev
            (app ((Npos (XO (XI (XO XH)))) :: [])
              (app zeroLenSig
                (app ((Npos (XO (XI (XO XH)))) :: []) (hex0 (sha257 data)))))))))

(** val trailer_signature :
    (bytes -> bytes) -> (bytes -> bytes -> bytes) -> (bytes -> bytes) ->
    bytes -> bytes -> trailer_kind -> bytes -> bytes -> bytes **)

let trailer_signature sha257 hmac257 hex0 key stsTrailer t prev checksum =
  hex0
    (hmac257 key
      (app stsTrailer
        (app ((Npos (XO (XI (XO XH)))) :: [])
          (app prev
            (app ((Npos (XO (XI (XO XH)))) :: [])
              (hex0
                (sha257
                  (app (trailer_name t)
                    (app ((Npos (XO (XI (XO (XI (XI XH)))))) :: [])
                      (app checksum ((Npos (XO (XI (XO XH)))) :: [])))))))))))

(** val check_sig :
    (bytes -> bytes) -> (bytes -> bytes -> bytes) -> (bytes -> bytes) ->
    bytes -> bytes -> cst -> cst * bool **)

let check_sig sha257 hmac257 hex0 key stsPayload s =
  let sig0 =
    chunk_signature sha257 hmac257 hex0 key stsPayload s.prevSig s.hbuf
  in
  let ok = beq sig0 s.parsedSig in
  ({ stash = s.stash; left = s.left; prevSig = sig0; parsedSig =
  (if ok then [] else s.parsedSig); hbuf = []; cbuf = s.cbuf; firstHdr =
  s.firstHdr; isEOF = s.isEOF; trailerSig = s.trailerSig; parsedChecksum =
  s.parsedChecksum }, ok)

(** val hash_data : cst -> bytes -> cst **)

let hash_data s d =
  { stash = s.stash; left = s.left; prevSig = s.prevSig; parsedSig =
    s.parsedSig; hbuf = (app s.hbuf d); cbuf = (app s.cbuf d); firstHdr =
    s.firstHdr; isEOF = s.isEOF; trailerSig = s.trailerSig; parsedChecksum =
    s.parsedChecksum }

(** val set_left : cst -> z -> cst **)

let set_left s l =
  { stash = s.stash; left = l; prevSig = s.prevSig; parsedSig = s.parsedSig;
    hbuf = s.hbuf; cbuf = s.cbuf; firstHdr = s.firstHdr; isEOF = s.isEOF;
    trailerSig = s.trailerSig; parsedChecksum = s.parsedChecksum }

(** val set_stash : cst -> bytes option -> cst **)

let set_stash s st =
  { stash = st; left = s.left; prevSig = s.prevSig; parsedSig = s.parsedSig;
    hbuf = s.hbuf; cbuf = s.cbuf; firstHdr = s.firstHdr; isEOF = s.isEOF;
    trailerSig = s.trailerSig; parsedChecksum = s.parsedChecksum }

(** val set_parsed : cst -> bytes -> cst **)

let set_parsed s sig0 =
  { stash = s.stash; left = s.left; prevSig = s.prevSig; parsedSig = sig0;
    hbuf = s.hbuf; cbuf = s.cbuf; firstHdr = s.firstHdr; isEOF = s.isEOF;
    trailerSig = s.trailerSig; parsedChecksum = s.parsedChecksum }

(** val set_eof : cst -> bool -> cst **)

let set_eof s b =
  { stash = s.stash; left = s.left; prevSig = s.prevSig; parsedSig =
    s.parsedSig; hbuf = s.hbuf; cbuf = s.cbuf; firstHdr = s.firstHdr; isEOF =
    b; trailerSig = s.trailerSig; parsedChecksum = s.parsedChecksum }

(** val reset_hash : cst -> cst **)

let reset_hash s =
  { stash = s.stash; left = s.left; prevSig = s.prevSig; parsedSig =
    s.parsedSig; hbuf = []; cbuf = s.cbuf; firstHdr = s.firstHdr; isEOF =
    s.isEOF; trailerSig = s.trailerSig; parsedChecksum = s.parsedChecksum }

type ph =
| PH_skip of cst
| PH_err of rerr
| PH_ok of cst * z * bytes * z

(** val parse_header : trailer_kind option -> cst -> bytes -> ph **)

let parse_header trailer s p =
  let stashLen = match s.stash with
                 | Some st -> length st
                 | None -> O in
  if Nat.ltb (S (S (S (S (S (S (S (S (S (S (S (S (S (S (S (S (S (S (S (S (S
       (S (S (S (S (S (S (S (S (S (S (S (S (S (S (S (S (S (S (S (S (S (S (S
       (S (S (S (S (S (S (S (S (S (S (S (S (S (S (S (S (S (S (S (S (S (S (S
       (S (S (S (S (S (S (S (S (S (S (S (S (S (S (S (S (S (S (S (S (S (S (S
       (S (S (S (S (S (S (S (S (S (S (S (S (S (S (S (S (S (S (S (S (S (S (S
       (S (S (S (S (S (S (S (S (S (S (S (S (S (S (S (S (S (S (S (S (S (S (S
       (S (S (S (S (S (S (S (S (S (S (S (S (S (S (S (S (S (S (S (S (S (S (S
       (S (S (S (S (S (S (S (S (S (S (S (S (S (S (S (S (S (S (S (S (S (S (S
       (S (S (S (S (S (S (S (S (S (S (S (S (S (S (S (S (S (S (S (S (S (S (S
       (S (S (S (S (S (S (S (S (S (S (S (S (S (S (S (S (S (S (S (S (S (S (S
       (S (S (S (S (S (S (S (S (S (S (S (S (S (S (S (S (S (S (S (S (S (S (S
       (S (S (S (S (S (S (S (S (S (S (S (S (S (S (S (S (S (S (S (S (S (S (S
       (S (S (S (S (S (S (S (S (S (S (S (S (S (S (S (S (S (S (S (S (S (S (S
       (S (S (S (S (S (S (S (S (S (S (S (S (S (S (S (S (S (S (S (S (S (S (S
       (S (S (S (S (S (S (S (S (S (S (S (S (S (S (S (S (S (S (S (S (S (S (S
       (S (S (S (S (S (S (S (S (S (S (S (S (S (S (S (S (S (S (S (S (S (S (S
       (S (S (S (S (S (S (S (S (S (S (S (S (S (S (S (S (S (S (S (S (S (S (S
       (S (S (S (S (S (S (S (S (S (S (S (S (S (S (S (S (S (S (S (S (S (S (S
       (S (S (S (S (S (S (S (S (S (S (S (S (S (S (S (S (S (S (S (S (S (S (S
       (S (S (S (S (S (S (S (S (S (S (S (S (S (S (S (S (S (S (S (S (S (S (S
       (S (S (S (S (S (S (S (S (S (S (S (S (S (S (S (S (S (S (S (S (S (S (S
       (S (S (S (S (S (S (S (S (S (S (S (S (S (S (S (S (S (S (S (S (S (S (S
       (S (S (S (S (S (S (S (S (S (S (S (S (S (S (S (S (S (S (S (S (S (S (S
       (S (S (S (S (S (S (S (S (S (S (S (S (S (S (S (S (S (S (S (S (S (S (S
       (S (S (S (S (S (S (S (S (S (S (S (S (S (S (S (S (S (S (S (S (S (S (S
       (S (S (S (S (S (S (S (S (S (S (S (S (S (S (S (S (S (S (S (S (S (S (S
       (S (S (S (S (S (S (S (S (S (S (S (S (S (S (S (S (S (S (S (S (S (S (S
       (S (S (S (S (S (S (S (S (S (S (S (S (S (S (S (S (S (S (S (S (S (S (S
       (S (S (S (S (S (S (S (S (S (S (S (S (S (S (S (S (S (S (S (S (S (S (S
       (S (S (S (S (S (S (S (S (S (S (S (S (S (S (S (S (S (S (S (S (S (S (S
       (S (S (S (S (S (S (S (S (S (S (S (S (S (S (S (S (S (S (S (S (S (S (S
       (S (S (S (S (S (S (S (S (S (S (S (S (S (S (S (S (S (S (S (S (S (S (S
       (S (S (S (S (S (S (S (S (S (S (S (S (S (S (S (S (S (S (S (S (S (S (S
       (S (S (S (S (S (S (S (S (S (S (S (S (S (S (S (S (S (S (S (S (S (S (S
       (S (S (S (S (S (S (S (S (S (S (S (S (S (S (S (S (S (S (S (S (S (S (S
       (S (S (S (S (S (S (S (S (S (S (S (S (S (S (S (S (S (S (S (S (S (S (S
       (S (S (S (S (S (S (S (S (S (S (S (S (S (S (S (S (S (S (S (S (S (S (S
       (S (S (S (S (S (S (S (S (S (S (S (S (S (S (S (S (S (S (S (S (S (S (S
       (S (S (S (S (S (S (S (S (S (S (S (S (S (S (S (S (S (S (S (S (S (S (S
       (S (S (S (S (S (S (S (S (S (S (S (S (S (S (S (S (S (S (S (S (S (S (S
       (S (S (S (S (S (S (S (S (S (S (S (S (S (S (S (S (S (S (S (S (S (S (S
       (S (S (S (S (S (S (S (S (S (S (S (S (S (S (S (S (S (S (S (S (S (S (S
       (S (S (S (S (S (S (S (S (S (S (S (S (S (S (S (S (S (S (S (S (S (S (S
       (S (S (S (S (S (S (S (S (S (S (S (S (S (S (S (S (S (S (S (S (S (S (S
       (S (S (S (S (S (S (S (S (S (S (S (S (S (S
       O))))))))))))))))))))))))))))))))))))))))))))))))))))))))))))))))))))))))))))))))))))))))))))))))))))))))))))))))))))))))))))))))))))))))))))))))))))))))))))))))))))))))))))))))))))))))))))))))))))))))))))))))))))))))))))))))))))))))))))))))))))))))))))))))))))))))))))))))))))))))))))))))))))))))))))))))))))))))))))))))))))))))))))))))))))))))))))))))))))))))))))))))))))))))))))))))))))))))))))))))))))))))))))))))))))))))))))))))))))))))))))))))))))))))))))))))))))))))))))))))))))))))))))))))))))))))))))))))))))))))))))))))))))))))))))))))))))))))))))))))))))))))))))))))))))))))))))))))))))))))))))))))))))))))))))))))))))))))))))))))))))))))))))))))))))))))))))))))))))))))))))))))))))))))))))))))))))))))))))))))))))))))))))))))))))))))))))))))))))))))))))))))))))))))))))))))))))))))))))))))))))))))))))))))))))))))))))))))))))))))))))))))))))))))))))))))))))))))))))))))))))))))))))))))))))))))))))))))))))))))))))))))))))))))))))))))))))))))))))))))))))))))))))))))))))))))))))))))))))))))))))))))))))))))))))))))
       stashLen
  then PH_err E_InvalidChunk
  else let header = match s.stash with
                    | Some st -> app st p
                    | None -> p in
       let s0 = set_stash s None in
       let on_eof =
         if s.isEOF
         then PH_err E_InvalidChunk
         else PH_skip (set_stash s0 (Some header))
       in
       let skip_k = fun exp l k0 ->
         match read_and_skip exp l with
         | R_ok r -> k0 r
         | R_eof -> on_eof
         | R_bad -> PH_err E_Malformed
       in
       let until_k = fun d l k0 ->
         match read_until d l [] with
         | Some p0 -> let (a, r) = p0 in k0 a r
         | None -> on_eof
       in
       let k0 = fun r0 skip ->
         until_k (Npos (XI (XI (XO (XI (XI XH)))))) r0 (fun sizeStr r1 ->
           match parse_hex sizeStr with
           | Some size ->
             if Z.ltb size Z0
             then PH_err E_InvalidChunk
             else skip_k chunkSigKw r1 (fun r2 ->
                    until_k (Npos (XI (XO (XI XH)))) r2 (fun sig0 r3 ->
                      if Z.eqb size Z0
                      then (match trailer with
                            | Some t ->
                              skip_k ((Npos (XO (XI (XO XH)))) :: []) r3
                                (fun r4 ->
                                until_k (Npos (XO (XI (XO (XI (XI XH)))))) r4
                                  (fun tname r5 ->
                                  if negb (beq tname (trailer_name t))
                                  then PH_err E_InvalidChunk
                                  else until_k (Npos (XI (XO (XI XH)))) r5
                                         (fun checksum r6 ->
                                         if negb (valid_checksum t checksum)
                                         then PH_err E_InvalidTrailer
                                         else skip_k ((Npos (XO (XI (XO
                                                XH)))) :: []) r6 (fun r7 ->
                                                until_k (Npos (XO (XI (XO (XI
                                                  (XI XH)))))) r7
                                                  (fun tsp r8 ->
                                                  if negb
                                                       (beq tsp trailerSigKw)
                                                  then PH_err E_InvalidChunk
                                                  else until_k (Npos (XI (XO
                                                         (XI XH)))) r8
                                                         (fun tsig r9 ->
                                                         skip_k ((Npos (XO
                                                           (XI (XO
                                                           XH)))) :: ((Npos
                                                           (XI (XO (XI
                                                           XH)))) :: ((Npos
                                                           (XO (XI (XO
                                                           XH)))) :: []))) r9
                                                           (fun _ -> PH_ok
                                                           ({ stash = None;
                                                           left = s.left;
                                                           prevSig =
                                                           s.prevSig;
                                                           parsedSig =
                                                           s.parsedSig;
                                                           hbuf = s.hbuf;
                                                           cbuf = s.cbuf;
                                                           firstHdr =
                                                           s.firstHdr;
                                                           isEOF = s.isEOF;
                                                           trailerSig = tsig;
                                                           parsedChecksum =
                                                           checksum }, Z0,
                                                           sig0, Z0))))))))
                            | None ->
                              skip_k ((Npos (XO (XI (XO XH)))) :: ((Npos (XI
                                (XO (XI XH)))) :: ((Npos (XO (XI (XO
                                XH)))) :: []))) r3 (fun _ -> PH_ok (s0, Z0,
                                sig0, Z0)))
                      else skip_k ((Npos (XO (XI (XO XH)))) :: []) r3
                             (fun _ ->
                             match index_crlf (skipn skip header) O with
                             | Some ind ->
                               PH_ok ({ stash = None; left = s.left;
                                 prevSig = s.prevSig; parsedSig =
                                 s.parsedSig; hbuf = s.hbuf; cbuf = s.cbuf;
                                 firstHdr = false; isEOF = s.isEOF;
                                 trailerSig = s.trailerSig; parsedChecksum =
                                 s.parsedChecksum }, size, sig0,
                                 (Z.sub
                                   (Z.of_nat (add (add ind skip) (S (S O))))
                                   (Z.of_nat stashLen)))
                             | None -> PH_err E_Panic)))
           | None -> PH_err E_InvalidChunk)
       in
       if s.firstHdr
       then k0 header O
       else skip_k ((Npos (XI (XO (XI XH)))) :: ((Npos (XO (XI (XO
              XH)))) :: [])) header (fun r -> k0 r (S (S O)))

(** val par :
    (bytes -> bytes) -> (bytes -> bytes -> bytes) -> (bytes -> bytes) ->
    bytes -> bytes -> bytes -> trailer_kind option -> nat -> cst -> bytes ->
    (bytes * rerr) * cst **)

let rec par sha257 hmac257 hex0 key stsPayload stsTrailer trailer fuel s p =
  match fuel with
  | O -> (([], E_Panic), s)
  | S f ->
    let (s1, ok) =
      match s.parsedSig with
      | [] -> (s, true)
      | _ :: _ -> check_sig sha257 hmac257 hex0 key stsPayload s
    in
    if negb ok
    then (([], E_SigMismatch), s1)
    else (match parse_header trailer s1 p with
          | PH_skip s2 -> (([], E_None), (set_left s2 Z0))
          | PH_err e -> (([], e), s1)
          | PH_ok (s2, size, sig0, off) ->
            let s3 = set_parsed s2 sig0 in
            if Z.eqb size Z0
            then let (s4, ok2) =
                   check_sig sha257 hmac257 hex0 key stsPayload
                     (reset_hash s3)
                 in
                 if negb ok2
                 then (([], E_SigMismatch), s4)
                 else (match trailer with
                       | Some t ->
                         if negb
                              (beq (trailer_sum t s4.cbuf) s4.parsedChecksum)
                         then (([], E_BadDigest), s4)
                         else if negb
                                   (beq
                                     (trailer_signature sha257 hmac257 hex0
                                       key stsTrailer t s4.prevSig
                                       s4.parsedChecksum) s4.trailerSig)
                              then (([], E_SigMismatch), s4)
                              else (([], E_EOF), s4)
                       | None -> (([], E_EOF), s4))
            else if (||) (Z.ltb off Z0) (Z.ltb (Z.of_nat (length p)) off)
                 then (([], E_Panic), s3)
                 else let data = skipn (Z.to_nat off) p in
                      let n0 = Z.of_nat (length data) in
                      if Z.ltb size n0
                      then let d = firstn (Z.to_nat size) data in
                           let (p0, s5) =
                             par sha257 hmac257 hex0 key stsPayload
                               stsTrailer trailer f
                               (hash_data (set_left s3 Z0) d)
                               (skipn (Z.to_nat size) data)
                           in
                           let (out, e) = p0 in (((app d out), e), s5)
                      else ((data, E_None),
                             (hash_data (set_left s3 (Z.sub size n0)) data)))

(** val read :
    (bytes -> bytes) -> (bytes -> bytes -> bytes) -> (bytes -> bytes) ->
    bytes -> bytes -> bytes -> trailer_kind option -> cst -> bytes -> bool ->
    (bytes * rerr) * cst **)

let read sha257 hmac257 hex0 key stsPayload stsTrailer trailer s frag eof =
  let s0 = set_eof s eof in
  let n0 = Z.of_nat (length frag) in
  if Z.ltb s0.left n0
  then let k0 = Z.to_nat s0.left in
       let d = firstn k0 frag in
       let s1 = if Z.ltb Z0 s0.left then hash_data s0 d else s0 in
       let (p, s2) =
         par sha257 hmac257 hex0 key stsPayload stsTrailer trailer (S
           (length frag)) s1 (skipn k0 frag)
       in
       let (out, e) = p in (((app d out), e), s2)
  else let s1 = hash_data (set_left s0 (Z.sub s0.left n0)) frag in
       ((frag, (if eof then E_UnexpectedEOF else E_None)), s1)

(** val run :
    (bytes -> bytes) -> (bytes -> bytes -> bytes) -> (bytes -> bytes) ->
    bytes -> bytes -> bytes -> trailer_kind option -> cst -> (bytes * bool)
    list -> bytes -> bytes * rerr **)

let rec run sha257 hmac257 hex0 key stsPayload stsTrailer trailer s frags acc =
  match frags with
  | [] ->
    let (p, _) =
      read sha257 hmac257 hex0 key stsPayload stsTrailer trailer s [] true
    in
    let (out, e) = p in ((app acc out), e)
  | p :: r ->
    let (f, eof) = p in
    let (p0, s') =
      read sha257 hmac257 hex0 key stsPayload stsTrailer trailer s f eof
    in
    let (out, e) = p0 in
    (match e with
     | E_None ->
       run sha257 hmac257 hex0 key stsPayload stsTrailer trailer s' r
         (app acc out)
     | _ -> ((app acc out), e))

type uerr =
| U_None
| U_EOF
| U_Malformed
| U_UnexpectedEOF
| U_Checksum
| U_Panic

type ust = { rest : bytes; ustash : bytes; uoff : nat; hashed : bytes }

(** val read_line : bytes -> bytes -> (bytes * bytes) option **)

let rec read_line l acc =
  match l with
  | [] -> None
  | c :: r ->
    if N.eqb c (Npos (XO (XI (XO XH))))
    then Some ((app acc (c :: [])), r)
    else read_line r (app acc (c :: []))

(** val read_trailer : trailer_kind -> ust -> uerr **)

let read_trailer kind s =
  match read_until (Npos (XI (XO (XI XH)))) s.rest [] with
  | Some p ->
    let (buf, r1) = p in
    (match r1 with
     | [] -> U_UnexpectedEOF
     | a :: l ->
       (match l with
        | [] -> U_UnexpectedEOF
        | b :: l0 ->
          (match l0 with
           | [] -> U_UnexpectedEOF
           | c :: _ ->
             if negb
                  (beq (a :: (b :: (c :: []))) ((Npos (XO (XI (XO
                    XH)))) :: ((Npos (XI (XO (XI XH)))) :: ((Npos (XO (XI (XO
                    XH)))) :: []))))
             then U_Malformed
             else let t = trim buf in
                  (match read_until (Npos (XO (XI (XO (XI (XI XH)))))) t [] with
                   | Some p0 ->
                     let (name, value) = p0 in
                     if existsb (N.eqb (Npos (XO (XI (XO (XI (XI XH)))))))
                          value
                     then U_Malformed
                     else if negb (beq name (trailer_name kind))
                          then U_Malformed
                          else if beq value (trailer_sum kind s.hashed)
                               then U_EOF
                               else U_Checksum
                   | None -> U_Malformed))))
  | None -> U_UnexpectedEOF

(** val chunk_loop :
    trailer_kind -> nat -> nat -> ust -> bytes -> (bytes * uerr) * ust **)

let rec chunk_loop kind fuel b s out =
  match fuel with
  | O -> (([], U_Panic), s)
  | S f ->
    (match read_line s.rest [] with
     | Some p ->
       let (line, r1) = p in
       (match parse_hex (trim line) with
        | Some size ->
          if Z.eqb size Z0
          then let s1 = { rest = r1; ustash = s.ustash; uoff = s.uoff;
                 hashed = s.hashed }
               in
               (match read_trailer kind s1 with
                | U_EOF -> ((out, U_EOF), s1)
                | x -> (([], x), s1))
          else if Z.ltb size Z0
               then (([], U_Malformed), s)
               else if Z.ltb (Z.of_nat (length r1)) size
                    then (([], U_UnexpectedEOF), s)
                    else let n0 = Z.to_nat size in
                         let payload = firstn n0 r1 in
                         let r2 = skipn n0 r1 in
                         let s2 = { rest = r2; ustash = s.ustash; uoff =
                           s.uoff; hashed = (app s.hashed payload) }
                         in
                         (match read_and_skip ((Npos (XI (XO (XI
                                  XH)))) :: ((Npos (XO (XI (XO XH)))) :: []))
                                  r2 with
                          | R_ok r3 ->
                            let room = sub b s.uoff in
                            let tk = Nat.min room n0 in
                            let out' = app out (firstn tk payload) in
                            if Nat.ltb tk n0
                            then ((out', U_None), { rest = r3; ustash =
                                   (skipn tk payload); uoff = O; hashed =
                                   s2.hashed })
                            else chunk_loop kind f b { rest = r3; ustash =
                                   s.ustash; uoff = (add s.uoff tk); hashed =
                                   s2.hashed } out'
                          | R_eof -> (([], U_UnexpectedEOF), s2)
                          | R_bad -> (([], U_Malformed), s2))
        | None -> (([], U_Malformed), s))
     | None -> (([], U_Malformed), s))

(** val uread : trailer_kind -> ust -> nat -> (bytes * uerr) * ust **)

let uread kind s b =
  match s.ustash with
  | [] -> chunk_loop kind (S (length s.rest)) b s []
  | n0 :: l ->
    let st = n0 :: l in
    let n1 = Nat.min b (length st) in
    if Nat.ltb n1 (length st)
    then (((firstn n1 st), U_None), { rest = s.rest; ustash = (skipn n1 st);
           uoff = O; hashed = s.hashed })
    else chunk_loop kind (S (length s.rest)) b { rest = s.rest; ustash =
           s.ustash; uoff = (add s.uoff n1); hashed = s.hashed }
           (firstn n1 st)

(** val urun :
    trailer_kind -> nat -> ust -> nat list -> nat -> bytes -> bytes * uerr **)

let rec urun kind fuel s bufs dflt acc =
  match fuel with
  | O -> (acc, U_Panic)
  | S f ->
    (match bufs with
     | [] ->
       let bufs' = [] in
       let (p, s') = uread kind s dflt in
       let (out, e) = p in
       (match e with
        | U_None -> urun kind f s' bufs' dflt (app acc out)
        | _ -> ((app acc out), e))
     | x :: r ->
       let (p, s') = uread kind s x in
       let (out, e) = p in
       (match e with
        | U_None -> urun kind f s' r dflt (app acc out)
        | _ -> ((app acc out), e)))

(** val uinit : bytes -> ust **)

let uinit stream =
  { rest = stream; ustash = []; uoff = O; hashed = [] }

(** val signing_key : bytes -> bytes -> bytes -> bytes **)

let signing_key secret date8 region =
  hmac256
    (hmac256
      (hmac256
        (hmac256
          (app
            (bytes_of_string (String ((Ascii (true, false, false, false,
              false, false, true, false)), (String ((Ascii (true, true, true,
              false, true, false, true, false)), (String ((Ascii (true, true,
              false, false, true, false, true, false)), (String ((Ascii
              (false, false, true, false, true, true, false, false)),
              EmptyString))))))))) secret) date8) region)
      (bytes_of_string (String ((Ascii (true, true, false, false, true, true,
        true, false)), (String ((Ascii (true, true, false, false, true, true,
        false, false)), EmptyString))))))
    (bytes_of_string (String ((Ascii (true, false, false, false, false, true,
      true, false)), (String ((Ascii (true, true, true, false, true, true,
      true, false)), (String ((Ascii (true, true, false, false, true, true,
      true, false)), (String ((Ascii (false, false, true, false, true, true,
      false, false)), (String ((Ascii (true, true, true, true, true, false,
      true, false)), (String ((Ascii (false, true, false, false, true, true,
      true, false)), (String ((Ascii (true, false, true, false, false, true,
      true, false)), (String ((Ascii (true, false, false, false, true, true,
      true, false)), (String ((Ascii (true, false, true, false, true, true,
      true, false)), (String ((Ascii (true, false, true, false, false, true,
      true, false)), (String ((Ascii (true, true, false, false, true, true,
      true, false)), (String ((Ascii (false, false, true, false, true, true,
      true, false)), EmptyString)))))))))))))))))))))))))

(** val run_signed :
    bytes -> bytes -> bytes -> trailer_kind option -> bytes -> (bytes * bool)
    list -> bytes * rerr **)

let run_signed key stsPayload stsTrailer tr seed frags =
  run sha256 hmac256 hex key stsPayload stsTrailer tr (init seed) frags []

(** val run_unsigned :
    trailer_kind -> bytes -> nat list -> nat -> bytes * uerr **)

let run_unsigned kind stream bufs dflt =
  urun kind (S (S (length stream))) (uinit stream) bufs dflt []
