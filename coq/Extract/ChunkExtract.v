(* Extraction of the chunk-reader models for volume correspondence runs.
   ExtrOcamlBasic only (bool, option, unit, prod, list, sumbool, sumor mapped to OCaml's); no Extract Constant;
   N, Z, positive, nat, string stay the extracted inductives. *)
From Coq Require Import NArith ZArith List Bool String Extraction ExtrOcamlBasic.
From VGW Require Import Base.Bytes Crypto.Sha256 Crypto.Crc Model.SignedChunk Model.UnsignedChunk Model.Pipeline.
Import ListNotations.
Open Scope N_scope.

(* getSigningKey(secret, region, date) *)
Definition signing_key (secret date8 region : bytes) : bytes :=
  hmac256 (hmac256 (hmac256 (hmac256 (bytes_of_string "AWS4" ++ secret) date8) region) (bytes_of_string "s3"))
          (bytes_of_string "aws4_request").

Definition run_signed (key stsPayload stsTrailer : bytes) (tr : option trailer_kind) (seed : bytes)
                      (frags : list (bytes * bool)) : bytes * rerr :=
  run sha256 hmac256 hex key stsPayload stsTrailer tr (init seed) frags [].

Definition run_unsigned (kind : trailer_kind) (stream : bytes) (bufs : list nat) (dflt : nat) : bytes * uerr :=
  urun kind (S (S (List.length stream))) (uinit stream) bufs dflt [].

(* the upload pipeline with the chunk-reader models plugged in; digests are supplied by the driver *)
Definition run_upload (sha256hex md5b64 : bytes -> bytes) (ck : calgo -> bytes -> bytes)
                      (key stsPayload stsTrailer seed : bytes) (u : upload) : outcome :=
  upload_outcome sha256hex md5b64 ck
    (fun tr frags => run_signed key stsPayload stsTrailer tr seed frags)
    (fun k stream => run_unsigned k stream [] 32768%nat) u.

Extraction "chunkmodel.ml" signing_key run_signed run_unsigned run_upload sha256 hmac256 crc32 crc32c base64.
