(* Spec for C14: the policy language, stated over decoded statements. *)
From Coq Require Import String Ascii List Bool.
From VGW Require Import Base.GoStr Model.Glob Spec.GlobSpec Model.Policy.
Import ListNotations.
Open Scope string_scope.

Definition s2l := list_ascii_of_string.

(* principals match by exact id or "*" *)
Definition principal_matches (ps : list string) (who : string) : Prop := In "*" ps \/ In who ps.

(* actions match by exact name, "s3:*", or a trailing-"*" prefix *)
Definition action_matches (acts : list string) (a : string) : Prop :=
  In "s3:*" acts \/ In a acts \/ exists x pre, In x acts /\ x = pre ++ "*" /\ has_prefix a pre = true.

(* resources match by glob *)
Definition resource_matches (rs : list string) (r : string) : Prop := exists p, In p rs /\ glob (s2l p) (s2l r).

Definition stmt_matches (s : stmt) (who act r : string) : Prop :=
  principal_matches (princ s) who /\ action_matches (acts s) act /\ resource_matches (ress s) r.

(* allowed exactly when at least one Allow statement matches and no Deny statement matches *)
Definition allowed (l : list stmt) (who act r : string) : Prop :=
  (exists s, In s l /\ effect s = "Allow" /\ stmt_matches s who act r) /\
  ~ (exists s, In s l /\ effect s = "Deny" /\ stmt_matches s who act r).

(* a well-formed statement for [bucket], given the existing accounts *)
Definition wf_stmt (accounts : list string) (bucket : string) (s : stmt) : Prop :=
  (effect s = "Allow" \/ effect s = "Deny") /\
  princ s <> [] /\ ((forall p, In p (princ s) -> p = "*") \/ (forall p, In p (princ s) -> p <> "*" /\ In p accounts)) /\
  ress s <> [] /\ (forall r, In r (ress s) -> names_bucket bucket r = true) /\
  acts s <> [] /\ (forall a, In a (acts s) -> action_kind_ok (ress s) a = true).
