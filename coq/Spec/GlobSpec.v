(* Spec for the resource glob of C14: '*' matches any run of bytes, '?' exactly one, anything else itself. *)
From Coq Require Import Ascii List.
From VGW Require Import Model.Glob.
Import ListNotations.

Inductive glob : str -> str -> Prop :=
| g_nil : glob [] []
| g_star_skip : forall p s, glob p s -> glob ("*"%char :: p) s
| g_star_eat : forall p c s, glob ("*"%char :: p) s -> glob ("*"%char :: p) (c :: s)
| g_q : forall p c s, glob p s -> glob ("?"%char :: p) (c :: s)
| g_lit : forall p c s, c <> "*"%char -> c <> "?"%char -> glob p s -> glob (c :: p) (c :: s).
