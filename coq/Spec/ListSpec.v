(* Spec for C07: the S3 listing rule over a set of keys, and the keys of a directory tree. *)
From Coq Require Import String Ascii List Arith Bool.
From VGW Require Import Base.GoStr Model.Walk.
Import ListNotations.
Open Scope string_scope.

(* keys stored in a tree, in directory (walk) order: files, and directories that are objects, as "name/" *)
Fixpoint keys_at (path : string) (t : tree) : list string :=
  match t with
  | F true => [path]
  | F false => []
  | D b kids =>
      ((if b && negb (String.eqb path ".") then [(path ++ "/")%string] else []) ++
      (fix go (k : list (string * tree)) : list string :=
         match k with [] => [] | (n, c) :: r => (keys_at (pjoin path n) c ++ go r)%list end) kids)%list
  end.

(* the bucket's keys: top-level bookkeeping names are not keys *)
Definition bucket_keys (t : tree) (skipdirs : list string) : list string :=
  match t with
  | D _ kids => flat_map (fun nc => if existsb (String.eqb (fst nc)) skipdirs then [] else keys_at (fst nc) (snd nc)) kids
  | F _ => []
  end.

Fixpoint sorted_b (l : list string) : bool :=
  match l with
  | a :: ((b :: _) as r) => str_ltb a b && sorted_b r
  | _ => true
  end.

(* an entry of a listing: an object key or a common prefix *)
Inductive entry := EObj (k : string) | ECp (p : string).
Definition etext (e : entry) : string := match e with EObj k => k | ECp p => p end.
Definition entry_eqb (a b : entry) : bool :=
  match a, b with EObj x, EObj y | ECp x, ECp y => String.eqb x y | _, _ => false end.

Definition entry_of (prefix delim key : string) : entry :=
  if String.eqb delim "" then EObj key else
  let '(before, _, found) := str_cut (trim_prefix key prefix) delim in
  if found then ECp (prefix ++ before ++ delim) else EObj key.

Fixpoint dedup_adj (l : list entry) : list entry :=
  match l with
  | a :: ((b :: _) as r) => if entry_eqb a b then dedup_adj r else a :: dedup_adj r
  | _ => l
  end.

(* all entries after the marker, in ascending order (keys must be sorted ascending) *)
Definition entries_after (sorted_keys : list string) (prefix delim marker : string) : list entry :=
  let es := dedup_adj (map (entry_of prefix delim) (filter (fun k => has_prefix k prefix) sorted_keys)) in
  filter (fun e => String.eqb marker "" || str_ltb marker (etext e)) es.

Definition objs_of (l : list entry) : list string := flat_map (fun e => match e with EObj k => [k] | ECp _ => [] end) l.
Definition cps_of (l : list entry) : list string := flat_map (fun e => match e with ECp p => [p] | EObj _ => [] end) l.

(* one page: at most max entries; truncated iff entries remain; next marker = the last entry of the page *)
Definition s3_list (sorted_keys : list string) (prefix delim marker : string) (max : nat) : result :=
  let es := entries_after sorted_keys prefix delim marker in
  let page := firstn max es in
  let more := Nat.ltb max (List.length es) && negb (Nat.eqb max 0) in
  {| r_objs := objs_of page; r_cps := cps_of page; r_trunc := more;
     r_next := if more then etext (last page (EObj "")) else "" |}.
