(* Spec for C17: the account store is a map; every acknowledged change is visible to every later lookup. *)
From Coq Require Import List ZArith String Bool.
From VGW Require Import Model.IamCache.
Import ListNotations.

Section Spec.
  Variables (root : string) (root_acct : account).

  Definition spec_step (m : amap account) (o : op) : amap account * out :=
    match o with
    | Create k a => if String.eqb k root then (m, Exists) else
                    match find m k with Some _ => (m, Exists) | None => (put m k a, OK) end
    | Update k p => match find m k with None => (m, NoSuchUser) | Some a => (put m k (upd a p), OK) end
    | Delete k => (remove m k, OK)
    | Lookup k => if String.eqb k root then (m, Found root_acct) else
                  match find m k with Some a => (m, Found a) | None => (m, NoSuchUser) end
    | Tick _ => (m, OK)
    end.

  Fixpoint spec_run (m : amap account) (ops : list op) : list out :=
    match ops with [] => [] | o :: r => let '(m', x) := spec_step m o in x :: spec_run m' r end.
End Spec.
