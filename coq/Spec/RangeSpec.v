(* Spec for C13: what a Range header denotes, and which responses the property admits. *)
From Coq Require Import String Ascii List ZArith Lia Bool.
From VGW Require Import Base.GoStr Model.Range.
Import ListNotations.
Open Scope string_scope.
Open Scope Z_scope.

(* the header is  bytes=<num>-<num?>  in the integer syntax of the implementation (DESIGN §9.1) *)
Definition denotes (hdr : string) (a : Z) (ob : option Z) : Prop :=
  exists sa sb, hdr = "bytes=" ++ sa ++ "-" ++ sb /\
    has_char "=" sa = false /\ has_char "-" sa = false /\
    has_char "=" sb = false /\ has_char "-" sb = false /\
    parse_int10 sa = Some a /\
    ((sb = "" /\ ob = None) \/ (exists b, parse_int10 sb = Some b /\ ob = Some b /\ a <= b)).

(* the first position is readable even when the part after '-' is not a number *)
Definition first_pos (hdr : string) (a : Z) : Prop :=
  exists sa sb, hdr = "bytes=" ++ sa ++ "-" ++ sb /\
    has_char "=" sa = false /\ has_char "-" sa = false /\
    has_char "=" sb = false /\ has_char "-" sb = false /\ parse_int10 sa = Some a.

Definition spec_ok (size : Z) (hdr : string) (r : resp) : Prop :=
  (status r = 206 /\ exists a ob, denotes hdr a ob /\ a < size /\
      let e := match ob with Some b => Z.min b (size - 1) | None => size - 1 end in
      boff r = a /\ blen r = e - a + 1 /\ clen r = e - a + 1 /\ crange r = Some (a, e, size))
  \/ (status r = 416 /\ exists a, first_pos hdr a /\ size <= a)
  \/ (status r = 200 /\ (forall a ob, denotes hdr a ob -> size <= a) /\
      boff r = 0 /\ blen r = size /\ clen r = size /\ crange r = None).

(* executable reading of [denotes]/[first_pos], used only to evaluate the Spec on observations of the
   implementation (search aid); its agreement with the Prop is proved in Proofs/RangeProof.v *)
Definition shape_b (hdr : string) : option (string * string) :=
  match split_char "=" hdr with
  | [u; r] => if String.eqb u "bytes" then
                match split_char "-" r with [sa; sb] => Some (sa, sb) | _ => None end
              else None
  | _ => None
  end.

Definition first_pos_b (hdr : string) : option Z :=
  match shape_b hdr with Some (sa, _) => parse_int10 sa | None => None end.

Definition denotes_b (hdr : string) : option (Z * option Z) :=
  match shape_b hdr with
  | Some (sa, sb) =>
      match parse_int10 sa with
      | None => None
      | Some a => if String.eqb sb "" then Some (a, None) else
                  match parse_int10 sb with
                  | Some b => if a <=? b then Some (a, Some b) else None
                  | None => None
                  end
      end
  | None => None
  end.

Definition opt3_eqb (x y : option (Z * Z * Z)) : bool :=
  match x, y with
  | None, None => true
  | Some (a, b, c), Some (a', b', c') => (a =? a') && (b =? b') && (c =? c')
  | _, _ => false
  end.

Definition spec_okb (size : Z) (hdr : string) (r : resp) : bool :=
  if status r =? 206 then
    match denotes_b hdr with
    | Some (a, ob) =>
        let e := match ob with Some b => Z.min b (size - 1) | None => size - 1 end in
        (a <? size) && (boff r =? a) && (blen r =? e - a + 1) && (clen r =? e - a + 1)
        && opt3_eqb (crange r) (Some (a, e, size))
    | None => false
    end
  else if status r =? 416 then
    match first_pos_b hdr with Some a => size <=? a | None => false end
  else if status r =? 200 then
    (match denotes_b hdr with Some (a, _) => size <=? a | None => true end)
    && (boff r =? 0) && (blen r =? size) && (clen r =? size) && opt3_eqb (crange r) None
  else false.
