(* Executable SHA-256 and HMAC-SHA256 over lists of bytes (N < 256). Used only to run the chunk-reader models
   on real byte streams; no theorem depends on cryptographic properties (they are stated over Section
   variables). Validated against Go's crypto/sha256 and crypto/hmac by the correspondence runs. *)
From Coq Require Import NArith List Ascii String.
From VGW Require Import Base.Bytes.
Import ListNotations.
Open Scope N_scope.

Definition mask32 := 4294967295.
Definition add32 (a b : N) := N.land (a + b) mask32.
Definition rotr (n x : N) := N.lor (N.shiftr x n) (N.land (N.shiftl x (32 - n)) mask32).
Definition shr (n x : N) := N.shiftr x n.
Definition not32 (x : N) := N.lxor x mask32.
Definition ch (x y z : N) := N.lxor (N.land x y) (N.land (not32 x) z).
Definition maj (x y z : N) := N.lxor (N.lxor (N.land x y) (N.land x z)) (N.land y z).
Definition bsig0 x := N.lxor (N.lxor (rotr 2 x) (rotr 13 x)) (rotr 22 x).
Definition bsig1 x := N.lxor (N.lxor (rotr 6 x) (rotr 11 x)) (rotr 25 x).
Definition ssig0 x := N.lxor (N.lxor (rotr 7 x) (rotr 18 x)) (shr 3 x).
Definition ssig1 x := N.lxor (N.lxor (rotr 17 x) (rotr 19 x)) (shr 10 x).

Definition K : list N := [
 0x428a2f98;0x71374491;0xb5c0fbcf;0xe9b5dba5;0x3956c25b;0x59f111f1;0x923f82a4;0xab1c5ed5;
 0xd807aa98;0x12835b01;0x243185be;0x550c7dc3;0x72be5d74;0x80deb1fe;0x9bdc06a7;0xc19bf174;
 0xe49b69c1;0xefbe4786;0x0fc19dc6;0x240ca1cc;0x2de92c6f;0x4a7484aa;0x5cb0a9dc;0x76f988da;
 0x983e5152;0xa831c66d;0xb00327c8;0xbf597fc7;0xc6e00bf3;0xd5a79147;0x06ca6351;0x14292967;
 0x27b70a85;0x2e1b2138;0x4d2c6dfc;0x53380d13;0x650a7354;0x766a0abb;0x81c2c92e;0x92722c85;
 0xa2bfe8a1;0xa81a664b;0xc24b8b70;0xc76c51a3;0xd192e819;0xd6990624;0xf40e3585;0x106aa070;
 0x19a4c116;0x1e376c08;0x2748774c;0x34b0bcb5;0x391c0cb3;0x4ed8aa4a;0x5b9cca4f;0x682e6ff3;
 0x748f82ee;0x78a5636f;0x84c87814;0x8cc70208;0x90befffa;0xa4506ceb;0xbef9a3f7;0xc67178f2].
Definition H0 : list N := [0x6a09e667;0xbb67ae85;0x3c6ef372;0xa54ff53a;0x510e527f;0x9b05688c;0x1f83d9ab;0x5be0cd19].

(* big-endian word from 4 bytes *)
Fixpoint words_of_bytes (b : list N) : list N :=
  match b with
  | a :: b1 :: c :: d :: r => (N.shiftl a 24 + N.shiftl b1 16 + N.shiftl c 8 + d) :: words_of_bytes r
  | _ => []
  end.
Definition bytes_of_word (w : N) : list N :=
  [N.land (N.shiftr w 24) 255; N.land (N.shiftr w 16) 255; N.land (N.shiftr w 8) 255; N.land w 255].

(* message schedule with a sliding window of the last 16 words (oldest first) *)
Fixpoint schedule (n : nat) (win : list N) : list N :=
  match n with
  | O => []
  | S n' =>
    match win with
    | [w0;w1;w2;w3;w4;w5;w6;w7;w8;w9;w10;w11;w12;w13;w14;w15] =>
        let x := add32 (add32 (ssig1 w14) w9) (add32 (ssig0 w1) w0) in
        x :: schedule n' [w1;w2;w3;w4;w5;w6;w7;w8;w9;w10;w11;w12;w13;w14;w15;x]
    | _ => []
    end
  end.

Definition round (st : list N) (k w : N) : list N :=
  match st with
  | [a;b;c;d;e;f;g;h] =>
    let t1 := add32 (add32 (add32 h (bsig1 e)) (add32 (ch e f g) k)) w in
    let t2 := add32 (bsig0 a) (maj a b c) in
    [add32 t1 t2; a; b; c; add32 d t1; e; f; g]
  | _ => st
  end.

Fixpoint rounds (st : list N) (ks ws : list N) : list N :=
  match ks, ws with
  | k :: ks', w :: ws' => rounds (round st k w) ks' ws'
  | _, _ => st
  end.

Definition compress (h : list N) (block : list N) : list N :=
  let w16 := words_of_bytes block in
  let w := w16 ++ schedule 48 w16 in
  map (fun p => add32 (fst p) (snd p)) (combine h (rounds h K w)).

Fixpoint blocks (fuel : nat) (h : list N) (msg : list N) : list N :=
  match fuel with
  | O => h
  | S f => match msg with
           | [] => h
           | _ => blocks f (compress h (firstn 64 msg)) (skipn 64 msg)
           end
  end.

Definition pad (msg : list N) : list N :=
  let l := N.of_nat (List.length msg) in
  let zeros := N.to_nat ((119 - (l mod 64)) mod 64) in
  let bitlen := l * 8 in
  msg ++ [128] ++ repeat 0 zeros ++
    [N.land (N.shiftr bitlen 56) 255; N.land (N.shiftr bitlen 48) 255; N.land (N.shiftr bitlen 40) 255; N.land (N.shiftr bitlen 32) 255;
     N.land (N.shiftr bitlen 24) 255; N.land (N.shiftr bitlen 16) 255; N.land (N.shiftr bitlen 8) 255; N.land bitlen 255].

Definition sha256 (msg : list N) : list N :=
  let p := pad msg in
  flat_map bytes_of_word (blocks (S (Nat.div (List.length p) 64)) H0 p).

Definition hmac256 (key msg : list N) : list N :=
  let k0 := if Nat.ltb 64 (List.length key) then sha256 key else key in
  let k := k0 ++ repeat 0 (64 - List.length k0) in
  let ipad := map (fun b => N.lxor b 0x36) k in
  let opad := map (fun b => N.lxor b 0x5c) k in
  sha256 (opad ++ sha256 (ipad ++ msg)).

Definition hexdigit (n : N) : N := if n <? 10 then 48 + n else 87 + n.
Definition hex (b : list N) : list N := flat_map (fun x => [hexdigit (N.shiftr x 4); hexdigit (N.land x 15)]) b.


Example sha_abc : string_of_bytes (hex (sha256 (bytes_of_string "abc"))) =
  "ba7816bf8f01cfea414140de5dae2223b00361a396177a9cb410ff61f20015ad"%string.
Proof. vm_compute. reflexivity. Qed.
Example sha_empty : string_of_bytes (hex (sha256 [])) =
  "e3b0c44298fc1c149afbf4c8996fb92427ae41e4649b934ca495991b7852b855"%string.
Proof. vm_compute. reflexivity. Qed.
Example sha_two_blocks : string_of_bytes (hex (sha256 (bytes_of_string "abcdbcdecdefdefgefghfghighijhijkijkljklmklmnlmnomnopnopq"))) =
  "248d6a61d20638b8e5c026930c3e6039a33ce45964ff2167f6ecedd419db06c1"%string.
Proof. vm_compute. reflexivity. Qed.
(* RFC 4231 test case 2 *)
Example hmac_rfc4231_2 : string_of_bytes (hex (hmac256 (bytes_of_string "Jefe") (bytes_of_string "what do ya want for nothing?"))) =
  "5bdcc146bf60754e6a042426089575c75a003f089d2739839dec58b964ec3843"%string.
Proof. vm_compute. reflexivity. Qed.
