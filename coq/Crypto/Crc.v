(* CRC-32 (IEEE), CRC-32C and base64, executable; validated against Go by the correspondence runs *)
From Coq Require Import NArith List Bool String.
From VGW Require Import Base.Bytes.
Import ListNotations.
Open Scope N_scope.

Fixpoint crc_bits (poly : N) (n : nat) (c : N) : N :=
  match n with O => c | S n' => crc_bits poly n' (if N.testbit c 0 then N.lxor (N.shiftr c 1) poly else N.shiftr c 1) end.
Definition crc_byte (poly c b : N) : N := crc_bits poly 8 (N.lxor c b).
Definition crc32_gen (poly : N) (l : bytes) : N := N.lxor (fold_left (crc_byte poly) l 0xFFFFFFFF) 0xFFFFFFFF.
Definition crc32 := crc32_gen 0xEDB88320.
Definition crc32c := crc32_gen 0x82F63B78.
Definition be32 (w : N) : bytes := [N.land (N.shiftr w 24) 255; N.land (N.shiftr w 16) 255; N.land (N.shiftr w 8) 255; N.land w 255].

Definition b64c (n : N) : N :=
  if n <? 26 then 65 + n else if n <? 52 then 97 + (n - 26) else if n <? 62 then 48 + (n - 52) else if n =? 62 then 43 else 47.
Fixpoint base64 (l : bytes) : bytes :=
  match l with
  | a :: b :: c :: r => let v := a * 65536 + b * 256 + c in
      [b64c (N.land (N.shiftr v 18) 63); b64c (N.land (N.shiftr v 12) 63); b64c (N.land (N.shiftr v 6) 63); b64c (N.land v 63)] ++ base64 r
  | [a; b] => let v := a * 65536 + b * 256 in [b64c (N.land (N.shiftr v 18) 63); b64c (N.land (N.shiftr v 12) 63); b64c (N.land (N.shiftr v 6) 63); 61]
  | [a] => let v := a * 65536 in [b64c (N.land (N.shiftr v 18) 63); b64c (N.land (N.shiftr v 12) 63); 61; 61]
  | [] => []
  end.

(* base64.StdEncoding.DecodeString accepts exactly: groups of 4 alphabet characters, last group may end in = or ==;
   (newlines \r \n are ignored by Go's decoder). Returns the decoded length, None = error. Only the length matters
   to IsValidChecksum. *)
Definition is_b64 (c : N) : bool :=
  ((65 <=? c) && (c <=? 90)) || ((97 <=? c) && (c <=? 122)) || ((48 <=? c) && (c <=? 57)) || (c =? 43) || (c =? 47).
Definition b64val (c : N) : N :=
  if (65 <=? c) && (c <=? 90) then c - 65 else if (97 <=? c) && (c <=? 122) then c - 71
  else if (48 <=? c) && (c <=? 57) then c + 4 else if c =? 43 then 62 else 63.
Fixpoint b64_decoded_len (l : bytes) (acc : nat) : option nat :=
  match l with
  | [] => Some acc
  | [a; b; 61; 61] => if is_b64 a && is_b64 b then Some (acc + 1)%nat else None
  | [a; b; c; 61] => if is_b64 a && is_b64 b && is_b64 c then Some (acc + 2)%nat else None
  | a :: b :: c :: d :: r => if is_b64 a && is_b64 b && is_b64 c && is_b64 d then b64_decoded_len r (acc + 3)%nat else None
  | _ => None
  end.

(* Go's decoder skips \r and \n anywhere; trailing bits are not checked (non-strict mode) *)
Definition b64_len (l : bytes) : option nat := b64_decoded_len (filter (fun c => negb ((c =? 10) || (c =? 13))) l) 0.

Example crc_check : crc32 (bytes_of_string "123456789"%string) = 0xCBF43926. Proof. vm_compute. reflexivity. Qed.
Example crc32c_check : crc32c (bytes_of_string "123456789"%string) = 0xE3069283. Proof. vm_compute. reflexivity. Qed.
