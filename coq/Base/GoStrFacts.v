From Coq Require Import String Ascii List ZArith Lia Bool.
From VGW Require Import Base.GoStr.
Import ListNotations.
Open Scope string_scope.

Lemma append_nil_r (s : string) : s ++ "" = s.
Proof. induction s; cbn; congruence. Qed.

Lemma append_assoc (a b c : string) : (a ++ b) ++ c = a ++ (b ++ c).
Proof. induction a; cbn; congruence. Qed.

Lemma has_char_app c a b : has_char c (a ++ b) = has_char c a || has_char c b.
Proof. induction a; cbn; [reflexivity|]. rewrite IHa, orb_assoc. reflexivity. Qed.

(* the accumulator only prefixes the first piece *)
Lemma split_char_acc_hd c s : forall acc,
  exists h t, split_char_acc c s "" = h :: t /\ split_char_acc c s acc = (acc ++ h) :: t.
Proof.
  induction s as [|a s IH]; intros acc; cbn.
  - exists "", []. rewrite append_nil_r. split; reflexivity.
  - destruct (Ascii.eqb a c) eqn:E.
    + exists "", (split_char_acc c s ""). rewrite append_nil_r. split; reflexivity.
    + destruct (IH (String a "")) as [h [t [H0 H1]]].
      destruct (IH (acc ++ String a "")) as [h' [t' [H0' H1']]].
      rewrite H0 in H0'. inversion H0'; subst h' t'.
      exists (String a h), t. split.
      * rewrite H1. reflexivity.
      * rewrite H1', append_assoc. reflexivity.
Qed.

(* uniqueness: joining c-free pieces and splitting gives the pieces back *)
Lemma split_join c : forall l, l <> [] -> Forall (fun p => has_char c p = false) l ->
  split_char c (join_char c l) = l.
Proof.
  unfold split_char.
  induction l as [|x l IH]; intros Hne Hall; [congruence|].
  inversion Hall as [|? ? Hx Hl]; subst.
  destruct l as [|y l].
  - cbn. clear IH Hne Hall Hl. 
    assert (G : forall acc, split_char_acc c x acc = [acc ++ x]).
    { induction x as [|a x IHx]; intros acc; cbn.
      - rewrite append_nil_r. reflexivity.
      - cbn in Hx. apply orb_false_iff in Hx. destruct Hx as [Ha Hx]. rewrite Ha.
        rewrite (IHx Hx), append_assoc. reflexivity. }
    apply (G "").
  - assert (IH' : split_char_acc c (join_char c (y :: l)) "" = y :: l) by (apply IH; [congruence|assumption]).
    change (join_char c (x :: y :: l)) with (x ++ String c (join_char c (y :: l))).
    clear IH Hne Hall Hl.
    assert (G : forall acc, split_char_acc c (x ++ String c (join_char c (y :: l))) acc = (acc ++ x) :: y :: l).
    { induction x as [|a x IHx]; intros acc; cbn.
      - rewrite Ascii.eqb_refl, append_nil_r. f_equal. exact IH'.
      - cbn in Hx. apply orb_false_iff in Hx. destruct Hx as [Ha Hx]. rewrite Ha.
        rewrite (IHx Hx), append_assoc. reflexivity. }
    apply (G "").
Qed.

Lemma join_cons c x l : l <> [] -> join_char c (x :: l) = x ++ String c (join_char c l).
Proof. destruct l; [congruence|reflexivity]. Qed.

(* splitting yields c-free pieces whose join is the input *)
Lemma split_char_sound c s :
  join_char c (split_char c s) = s /\ Forall (fun p => has_char c p = false) (split_char c s) /\ split_char c s <> [].
Proof.
  unfold split_char. induction s as [|a s IH]; cbn [split_char_acc append].
  - repeat split; [constructor; [reflexivity|constructor]|congruence].
  - destruct IH as [J [F N]]. destruct (Ascii.eqb a c) eqn:E.
    + apply Ascii.eqb_eq in E; subst a.
      split; [|split].
      * rewrite join_cons by exact N. rewrite J. reflexivity.
      * constructor; [reflexivity|assumption].
      * congruence.
    + destruct (split_char_acc_hd c s (String a "")) as [h [t [H0 H1]]].
      rewrite H1. rewrite H0 in J, F.
      pose proof (Forall_inv F) as Fh. pose proof (Forall_inv_tail F) as Ft. cbn beta in Fh.
      split; [|split].
      * destruct t as [|y t].
        -- cbn in *. rewrite J. reflexivity.
        -- rewrite join_cons by congruence. rewrite join_cons in J by congruence.
           rewrite append_assoc. cbn [append]. rewrite J. reflexivity.
      * constructor; [cbn; rewrite E, Fh; reflexivity | assumption].
      * congruence.
Qed.

Lemma split_char_two c s u r :
  split_char c s = [u; r] <-> s = u ++ String c r /\ has_char c u = false /\ has_char c r = false.
Proof.
  split.
  - intros H. destruct (split_char_sound c s) as [J [F _]]. rewrite H in J, F. cbn in J.
    inversion F as [|? ? Fu F']; subst. inversion F' as [|? ? Fr _]; subst. auto.
  - intros [E [Hu Hr]]. subst s. change (u ++ String c r) with (join_char c [u; r]).
    apply split_join; [congruence|]. repeat constructor; assumption.
Qed.
