(* byte strings as lists of N (< 256), with the bufio-style primitives the chunk readers use *)
From Coq Require Import NArith ZArith List Bool String Ascii.
Import ListNotations.
Open Scope N_scope.

Definition bytes := list N.

Fixpoint beq (a b : bytes) : bool :=
  match a, b with [], [] => true | x :: a', y :: b' => (x =? y) && beq a' b' | _, _ => false end.

Definition bytes_of_string (s : string) : bytes := map N_of_ascii (list_ascii_of_string s).
Definition string_of_bytes (b : bytes) : string := string_of_list_ascii (map ascii_of_N b).

(* result of reading from an in-memory snapshot: rest / ran out of bytes / wrong byte *)
Inductive rd := R_ok (rest : bytes) | R_eof | R_bad.

(* readAndSkip(rdr, exp...) *)
Fixpoint read_and_skip (exp l : bytes) : rd :=
  match exp with
  | [] => R_ok l
  | e :: exp' => match l with [] => R_eof | x :: l' => if x =? e then read_and_skip exp' l' else R_bad end
  end.

(* ReadString(d) with the delimiter trimmed: None = delimiter not found (io.EOF) *)
Fixpoint read_until (d : N) (l acc : bytes) : option (bytes * bytes) :=
  match l with [] => None | x :: l' => if x =? d then Some (acc, l') else read_until d l' (acc ++ [x]) end.

Definition hexval (c : N) : option Z :=
  if (48 <=? c) && (c <=? 57) then Some (Z.of_N c - 48)%Z
  else if (97 <=? c) && (c <=? 102) then Some (Z.of_N c - 87)%Z
  else if (65 <=? c) && (c <=? 70) then Some (Z.of_N c - 55)%Z else None.

(* digits with Go's 64-bit overflow cut-off: None as soon as the value leaves the int64 range *)
Fixpoint hexdigits (l : bytes) (acc : Z) : option Z :=
  match l with
  | [] => Some acc
  | c :: l' => match hexval c with
               | Some d => let v := (acc * 16 + d)%Z in
                           if (v <=? 9223372036854775808)%Z then hexdigits l' v else None
               | None => None
               end
  end.

(* strconv.ParseInt(s, 16, 64): None = any error *)
Definition parse_hex (l : bytes) : option Z :=
  match l with
  | [] => None
  | c :: r =>
    let '(neg, body) := if c =? 43 then (false, r) else if c =? 45 then (true, r) else (false, l) in
    match body with
    | [] => None
    | _ => match hexdigits body 0%Z with
           | None => None
           | Some v => let v' := if neg then (- v)%Z else v in
                       if ((-9223372036854775808 <=? v') && (v' <=? 9223372036854775807))%Z then Some v' else None
           end
    end
  end.

(* bytes.Index(l, "\r\n") *)
Fixpoint index_crlf (l : bytes) (i : nat) : option nat :=
  match l with
  | 13 :: ((10 :: _) as r) => Some i
  | _ :: r => index_crlf r (S i)
  | [] => None
  end.

(* strings.TrimSpace on ASCII *)
Definition is_space (c : N) : bool := (c =? 32) || ((9 <=? c) && (c <=? 13)).
Fixpoint trim_l (l : bytes) : bytes := match l with c :: r => if is_space c then trim_l r else l | [] => [] end.
Definition trim (l : bytes) : bytes := rev (trim_l (rev (trim_l l))).
