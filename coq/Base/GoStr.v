(* L0: Go string helpers over Coq strings (Go strings are byte strings; Coq string = list of 8-bit ascii). *)
From Coq Require Import String Ascii List ZArith NArith Lia Bool.
Import ListNotations.
Open Scope string_scope.

(* bytes given as numbers -> string (used by generated case files for non-printable data) *)
Fixpoint bs (l : list N) : string :=
  match l with [] => EmptyString | n :: r => String (ascii_of_N n) (bs r) end.

Fixpoint str_bytes (s : string) : list N :=
  match s with EmptyString => [] | String a r => N_of_ascii a :: str_bytes r end.

(* strings.Split(s, sep) for a one-byte separator: always n+1 pieces. *)
Fixpoint split_char_acc (c : ascii) (s : string) (acc : string) : list string :=
  match s with
  | EmptyString => [acc]
  | String a r =>
      if Ascii.eqb a c then acc :: split_char_acc c r EmptyString
      else split_char_acc c r (acc ++ String a EmptyString)
  end.
Definition split_char (c : ascii) (s : string) : list string := split_char_acc c s EmptyString.

Fixpoint join_char (c : ascii) (l : list string) : string :=
  match l with
  | [] => EmptyString
  | [x] => x
  | x :: r => x ++ String c (join_char c r)
  end.

Fixpoint has_char (c : ascii) (s : string) : bool :=
  match s with EmptyString => false | String a r => Ascii.eqb a c || has_char c r end.

(* argument order follows Go: strings.HasPrefix(s, prefix) etc. *)
Fixpoint has_prefix (s p : string) : bool :=
  match p, s with
  | EmptyString, _ => true
  | String a p', String b s' => Ascii.eqb a b && has_prefix s' p'
  | _, _ => false
  end.

Fixpoint drop (n : nat) (s : string) : string :=
  match n, s with O, _ => s | S n', String _ r => drop n' r | S _, EmptyString => EmptyString end.

Fixpoint take (n : nat) (s : string) : string :=
  match n, s with O, _ => EmptyString | S n', String a r => String a (take n' r) | S _, EmptyString => EmptyString end.

Definition has_suffix (s x : string) : bool :=
  Nat.leb (String.length x) (String.length s) &&
  String.eqb (drop (String.length s - String.length x) s) x.

Definition trim_prefix (s p : string) : string :=
  if has_prefix s p then drop (String.length p) s else s.

Definition trim_suffix (s x : string) : string :=
  if has_suffix s x then take (String.length s - String.length x) s else s.

(* strings.Index: position of the first occurrence *)
Fixpoint index_from (fuel : nat) (s needle : string) (i : nat) : option nat :=
  match fuel with
  | O => None
  | S f => if has_prefix s needle then Some i else
           match s with EmptyString => None | String _ r => index_from f r needle (S i) end
  end.
Definition str_index (s needle : string) : option nat := index_from (S (String.length s)) s needle 0.
Definition str_contains (s needle : string) : bool := match str_index s needle with Some _ => true | None => false end.

(* strings.Cut(s, sep) *)
Definition str_cut (s sep : string) : string * string * bool :=
  match str_index s sep with
  | Some i => (take i s, drop (i + String.length sep) s, true)
  | None => (s, EmptyString, false)
  end.

(* strings.LastIndex *)
Fixpoint last_index_from (fuel : nat) (s needle : string) (i : nat) (acc : option nat) : option nat :=
  match fuel with
  | O => acc
  | S f => let acc' := if has_prefix s needle then Some i else acc in
           match s with EmptyString => acc' | String _ r => last_index_from f r needle (S i) acc' end
  end.
Definition str_last_index (s needle : string) : option nat := last_index_from (S (String.length s)) s needle 0 None.

Definition lower_ascii (c : ascii) : ascii :=
  let n := N_of_ascii c in if (N.leb 65 n && N.leb n 90)%bool then ascii_of_N (n + 32) else c.
Fixpoint str_lower (s : string) : string :=
  match s with EmptyString => EmptyString | String c r => String (lower_ascii c) (str_lower r) end.

(* byte-wise order: Go's < on strings *)
Fixpoint str_ltb (a b : string) : bool :=
  match a, b with
  | EmptyString, EmptyString => false
  | EmptyString, String _ _ => true
  | String _ _, EmptyString => false
  | String x a', String y b' =>
      if N.ltb (N_of_ascii x) (N_of_ascii y) then true
      else if N.ltb (N_of_ascii y) (N_of_ascii x) then false
      else str_ltb a' b'
  end.
Definition str_leb (a b : string) : bool := negb (str_ltb b a).

(* digits *)
Definition digit_val (a : ascii) : option Z :=
  let n := Z.of_N (N_of_ascii a) in
  if (48 <=? n)%Z && (n <=? 57)%Z then Some (n - 48)%Z else None.

Fixpoint digits_acc (s : string) (acc : Z) : option Z :=
  match s with
  | EmptyString => Some acc
  | String a r => match digit_val a with
                  | Some d => digits_acc r (acc * 10 + d)
                  | None => None
                  end
  end.

Definition int64_max : Z := 9223372036854775807.
Definition int64_min : Z := -9223372036854775808.

(* strconv.ParseInt(s, 10, 64): None models any non-nil error (syntax or range).
   Go >= 1.13 accepts underscores only with base 0, so base 10 has none. *)
Definition parse_int10 (s : string) : option Z :=
  match s with
  | EmptyString => None
  | String a r =>
      let '(neg, body) :=
        if Ascii.eqb a "+"%char then (false, r)
        else if Ascii.eqb a "-"%char then (true, r)
        else (false, s) in
      match body with
      | EmptyString => None
      | _ => match digits_acc body 0 with
             | None => None
             | Some v => let v' := if neg then (- v)%Z else v in
                         if (int64_min <=? v')%Z && (v' <=? int64_max)%Z then Some v' else None
             end
      end
  end.

(* decimal rendering of an integer (fmt %v of an int64) *)
Fixpoint pos_digits (fuel : nat) (n : Z) (acc : string) : string :=
  match fuel with
  | O => acc
  | S f => let d := (n mod 10)%Z in
           let acc' := String (ascii_of_N (Z.to_N (48 + d))) acc in
           if (n <? 10)%Z then acc' else pos_digits f (n / 10)%Z acc'
  end.
Definition z_to_string (n : Z) : string :=
  if (n <? 0)%Z then String "-"%char (pos_digits 40 (- n) EmptyString) else pos_digits 40 n EmptyString.

Example pi1 : parse_int10 "+5" = Some 5%Z. Proof. reflexivity. Qed.
Example pi2 : parse_int10 "9223372036854775808" = None. Proof. reflexivity. Qed.
Example pi3 : parse_int10 "-" = None. Proof. reflexivity. Qed.
Example sp1 : split_char "-" "12-34-" = ["12"; "34"; ""]. Proof. reflexivity. Qed.
Example zs1 : z_to_string (-120) = "-120". Proof. reflexivity. Qed.
Example zs2 : z_to_string 0 = "0". Proof. reflexivity. Qed.
