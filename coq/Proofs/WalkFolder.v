(* C07, grouping below a prefix: listing one folder. With prefix "q/" and delimiter "/", the walk of the directory q returns, for
   every marker and page size, exactly the page the S3 rule demands of the keys stored below q: each object directly in the
   folder as a key, each sub-directory once as a common prefix "q/name/". *)
From Coq Require Import String Ascii List Arith NArith Lia Bool.
From VGW Require Import Base.GoStr Model.Walk Spec.ListSpec Proofs.WalkProof Proofs.WalkFlat Proofs.WalkRefine Proofs.WalkPage Proofs.WalkDelim.
Import ListNotations.
Open Scope string_scope.

Lemma has_prefix_app : forall p x, has_prefix (p ++ x) p = true.
Proof. induction p as [|a p IH]; intros x; cbn [String.append has_prefix]; [apply has_prefix_empty|]. rewrite Ascii.eqb_refl. apply IH. Qed.

Lemma trim_prefix_app : forall p x, trim_prefix (p ++ x) p = x.
Proof. intros p x. unfold trim_prefix. rewrite has_prefix_app. apply drop_append. Qed.

Lemma has_prefix_refl : forall p, has_prefix p p = true.
Proof. intros p. rewrite <- (append_nil_r p) at 1. apply has_prefix_app. Qed.

Lemma trim_prefix_refl : forall p, trim_prefix p p = "".
Proof. intros p. rewrite <- (append_nil_r p) at 1. apply trim_prefix_app. Qed.

Definition ptnode (P : string) (nt : string * tree) : string * kind :=
  match snd nt with
  | F b => (P ++ fst nt, if b then KObj else KNone)
  | D _ _ => (P ++ fst nt ++ "/", KCp)
  end.

Section Folder.
  Variables (marker : string) (max : nat) (q : string).
  Let P := q ++ "/".
  Hypothesis Hq : q <> ".".

  Lemma pjoin_P : forall n, pjoin q n = P ++ n.
  Proof. intros n. unfold pjoin, P. destruct (String.eqb q ".") eqn:E; [apply String.eqb_eq in E; congruence|]. rewrite append_assoc. reflexivity. Qed.

  Lemma P_nonempty : String.eqb P "" = false.
  Proof. unfold P. destruct q; reflexivity. Qed.

  Lemma walk_kid_dstep_P : forall n t s, n <> "." -> n <> "" -> noslash n ->
    walk_node P "/" marker max [] (pjoin q n) n t s = dstep marker max (ptnode P (n, t)) s.
  Proof.
    intros n t s Hd He Hs.
    assert (Hnd : String.eqb (pjoin q n) "." = false) by (apply String.eqb_neq; apply pjoin_not_dot; assumption).
    assert (E : forall x : ctl * st, (let '(c, s1) := x in (c, s1)) = x) by (intros [? ?]; reflexivity).
    destruct t as [b|b kids].
    - cbn [walk_node]. rewrite E. unfold cb. rewrite Hnd. cbn [existsb]. rewrite andb_false_r.
      cbn [is_dir isobj]. rewrite pjoin_P. rewrite has_prefix_app, trim_prefix_app, P_nonempty, cut_noslash by exact Hs.
      cbn [String.eqb negb andb Ascii.eqb Bool.eqb].
      unfold dstep, ptnode, dbody. cbn [fst snd].
      destruct (pastMarker s).
      + destruct b; reflexivity.
      + destruct (String.eqb (P ++ n) marker); [reflexivity|]. destruct (str_ltb (P ++ n) marker); [reflexivity|]. destruct b; reflexivity.
    - cbn [walk_node]. unfold cb. rewrite Hnd. cbn [existsb]. rewrite andb_false_r.
      cbn [is_dir isobj]. rewrite pjoin_P. rewrite !append_assoc. rewrite has_prefix_app, trim_prefix_app, P_nonempty.
      cbn [String.eqb negb andb Ascii.eqb Bool.eqb].
      replace (n ++ "/") with (n ++ "/" ++ "") by reflexivity.
      rewrite contains_slash by exact Hs. cbn [andb]. repeat rewrite has_prefix_app. repeat rewrite trim_prefix_app. cbn [negb]. rewrite cut_slash by exact Hs.
      cbn [String.append]. unfold dstep, ptnode, dbody, emit_cp. cbn [fst snd]. fold (mark_past s). fold (trunc_stop s).
      destruct (pastMarker s).
      + destruct (String.eqb (P ++ n ++ "/") marker); [reflexivity|].
        destruct (negb (String.eqb marker "") && has_prefix marker (P ++ n ++ "/")); [reflexivity|].
        destruct (pastMax s); reflexivity.
      + destruct (String.eqb (P ++ n ++ "/") marker); [reflexivity|]. destruct (str_ltb (P ++ n ++ "/") marker); [reflexivity|].
        destruct (negb (String.eqb marker "") && has_prefix marker (P ++ n ++ "/")); [reflexivity|].
        destruct (pastMax s); reflexivity.
  Qed.

  Definition kids_ok (kids : list (string * tree)) : Prop :=
    forall n t, In (n, t) kids -> n <> "." /\ n <> "" /\ noslash n /\ names_ok t.

  Lemma walk_folder_drun : forall name b kids s, kids <> [] -> kids_ok kids ->
    walk_node P "/" marker max [] q name (D b kids) s = drun marker max (map (ptnode P) kids) s.
  Proof.
    intros name b kids s Hne Hk. cbn [walk_node].
    assert (Hcb : cb P "/" marker max [] q name (D b kids) s = (Cont, s)).
    { unfold cb. rewrite (proj2 (String.eqb_neq q ".") Hq). cbn [existsb]. rewrite andb_false_r. cbn [is_dir].
      change (q ++ "/") with P. rewrite has_prefix_refl, trim_prefix_refl, P_nonempty.
      cbn [negb andb String.eqb Ascii.eqb Bool.eqb nkids]. destruct kids; [congruence|reflexivity]. }
    rewrite Hcb. clear Hcb Hne.
    revert s. induction kids as [|[n k] r IHr]; intros s; [reflexivity|].
    cbn [map drun]. destruct (Hk n k (or_introl eq_refl)) as [H1 [H2 [H3 _]]].
    rewrite (walk_kid_dstep_P n k s H1 H2 H3).
    pose proof (dstep_ctl marker max (ptnode P (n, k)) s) as Hc. destruct (dstep marker max (ptnode P (n, k)) s) as [c s1]. cbn [fst] in Hc.
    destruct Hc as [Hc|Hc]; subst c; [|reflexivity].
    apply IHr. intros n' t' Hin. apply (Hk n' t'). right. exact Hin.
  Qed.

  (* ---------- the keys below the folder and their entries *)
  Lemma entry_file_P : forall n, noslash n -> entry_of P "/" (P ++ n) = EObj (P ++ n).
  Proof. intros n Hn. unfold entry_of. cbn [String.eqb]. rewrite trim_prefix_app, cut_noslash by exact Hn. reflexivity. Qed.

  Lemma entry_under_P : forall n r, noslash n -> entry_of P "/" ((P ++ n) ++ "/" ++ r) = ECp (P ++ n ++ "/").
  Proof. intros n r Hn. unfold entry_of. cbn [String.eqb]. rewrite append_assoc, trim_prefix_app, cut_slash by exact Hn. reflexivity. Qed.

  Definition fcount (nt : string * tree) : nat := List.length (keys_at (P ++ fst nt) (snd nt)).

  Lemma P_not_dot : forall n, P ++ n <> ".".
  Proof. intros n. unfold P. destruct q as [|a q']; cbn [String.append]; [discriminate|]. intros H. inversion H. destruct q'; discriminate. Qed.

  Lemma entries_kid_P : forall n t, noslash n -> names_ok t ->
    map (entry_of P "/") (keys_at (P ++ n) t) = repeat (to_entry (ptnode P (n, t))) (fcount (n, t)).
  Proof.
    intros n t Hs Hn. unfold fcount. cbn [fst snd]. apply map_const. intros k Hk.
    pose proof (keys_shape t (P ++ n) k Hn (P_not_dot n) Hk) as Hsh. destruct t as [b|b kids].
    - subst k. rewrite entry_file_P by exact Hs. unfold to_entry, ptnode. cbn [fst snd].
      destruct b; [reflexivity|destruct Hk].
    - destruct Hsh as [r Hr]. subst k. rewrite entry_under_P by exact Hs. reflexivity.
  Qed.

  Definition fkeys (kids : list (string * tree)) : list string := flat_map (fun nt => keys_at (P ++ fst nt) (snd nt)) kids.
  Definition fnodes (kids : list (string * tree)) : list (string * bool) := flat_map (fun nt => nodes_at (P ++ fst nt) (snd nt)) kids.

  Lemma keys_folder : forall kids, keys_at q (D false kids) = fkeys kids.
  Proof.
    intros kids. rewrite keys_at_dir by exact Hq. cbn [app]. unfold fkeys.
    induction kids as [|[n c] r IH]; [reflexivity|]. cbn [flat_map fst snd]. rewrite IH, pjoin_P. reflexivity.
  Qed.

  Lemma nodes_folder : forall b kids, nodes_at q (D b kids) = (P, b) :: fnodes kids.
  Proof.
    intros b kids. cbn [nodes_at]. rewrite (proj2 (String.eqb_neq q ".") Hq). cbn [app]. f_equal. unfold fnodes.
    induction kids as [|[n c] r IH]; [reflexivity|]. cbn [flat_map fst snd]. rewrite IH, pjoin_P. reflexivity.
  Qed.

  Lemma nodes_head_P : forall n t, exists o rest, nodes_at (P ++ n) t = (fst (ptnode P (n, t)), o) :: rest.
  Proof.
    intros n t. destruct t as [b|b kids]; cbn [nodes_at ptnode fst snd].
    - exists b, []. destruct b; reflexivity.
    - rewrite (proj2 (String.eqb_neq (P ++ n) ".") (P_not_dot n)). cbn [app]. rewrite append_assoc. eexists. eexists. reflexivity.
  Qed.

  Lemma top_in_nodes_P : forall kids y, In y (map fst (map (ptnode P) kids)) -> In y (map fst (fnodes kids)).
  Proof.
    induction kids as [|[n t] r IH]; intros y Hy; [destruct Hy|].
    destruct (nodes_head_P n t) as [o [rest Hh]].
    unfold fnodes. cbn [flat_map fst snd]. fold (fnodes r). rewrite map_app. apply in_or_app.
    cbn [map] in Hy. destruct Hy as [Hy|Hy].
    - left. rewrite Hh. left. exact Hy.
    - right. apply IH. exact Hy.
  Qed.

  Lemma top_sorted_P : forall kids, sorted_b (map fst (fnodes kids)) = true -> sorted_b (map fst (map (ptnode P) kids)) = true.
  Proof.
    induction kids as [|[n t] r IH]; intros Hs; [reflexivity|].
    destruct (nodes_head_P n t) as [o [rest Hh]].
    unfold fnodes in Hs. cbn [flat_map fst snd] in Hs. fold (fnodes r) in Hs. rewrite map_app in Hs.
    cbn [map]. apply sorted_cons_all.
    - apply IH. eapply sorted_app_r. exact Hs.
    - intros y Hy. rewrite Hh in Hs. cbn [map fst app] in Hs.
      apply (sorted_head_lt _ (map fst rest ++ map fst (fnodes r))); [exact Hs|]. apply in_or_app. right. apply top_in_nodes_P. exact Hy.
  Qed.

  Lemma entries_top_P : forall kids, kids_ok kids ->
    map (entry_of P "/") (fkeys kids) = expand (map (fun nt => (to_entry (ptnode P nt), fcount nt)) kids).
  Proof.
    induction kids as [|[n t] r IH]; intros Hk; [reflexivity|].
    destruct (Hk n t (or_introl eq_refl)) as [H1 [H2 [H3 H4]]].
    unfold fkeys. cbn [flat_map map fst snd]. fold (fkeys r). unfold expand. cbn [flat_map fst snd].
    fold (expand (map (fun nt => (to_entry (ptnode P nt), fcount nt)) r)).
    rewrite map_app, entries_kid_P by assumption. f_equal.
    apply IH. intros n' t' Hin. apply (Hk n' t'). right. exact Hin.
  Qed.

  Definition folder_keyed (kids : list (string * tree)) : Prop :=
    forall n t, In (n, t) kids -> is_dir t = true -> keys_at (P ++ n) t <> [].

  Lemma keyed_entries_P : forall kids, folder_keyed kids ->
    map fst (filter (fun ec : entry * nat => negb (Nat.eqb (snd ec) 0)) (map (fun nt => (to_entry (ptnode P nt), fcount nt)) kids)) =
    map to_entry (filter keyed (map (ptnode P) kids)).
  Proof.
    induction kids as [|[n t] r IH]; intros Hk; [reflexivity|]. cbn [map filter fst snd].
    assert (Hc : negb (Nat.eqb (fcount (n, t)) 0) = keyed (ptnode P (n, t))).
    { unfold fcount, keyed, ptnode. cbn [fst snd]. destruct t as [b|b kids'].
      - destruct b; reflexivity.
      - cbn [snd]. specialize (Hk n (D b kids') (or_introl eq_refl) eq_refl).
        destruct (keys_at (P ++ n) (D b kids')); [congruence|reflexivity]. }
    rewrite Hc. assert (IH' := IH (fun n' t' Hin => Hk n' t' (or_intror Hin))).
    destruct (keyed (ptnode P (n, t))); cbn [map fst]; rewrite IH'; reflexivity.
  Qed.

  Lemma fkeys_prefix : forall kids, kids_ok kids -> forall k, In k (fkeys kids) -> has_prefix k P = true.
  Proof.
    intros kids Hk k Hin. unfold fkeys in Hin. apply in_flat_map in Hin. destruct Hin as [[n t] [Hnt Hin]]. cbn [fst snd] in Hin.
    destruct (Hk n t Hnt) as [_ [_ [_ Hn]]].
    pose proof (keys_shape t (P ++ n) k Hn (P_not_dot n) Hin) as Hsh. destruct t; [subst k; apply has_prefix_app|].
    destruct Hsh as [r Hr]. subst k. rewrite append_assoc. apply has_prefix_app.
  Qed.

  Lemma spec_entries_P : forall kids, kids_ok kids -> folder_keyed kids -> sorted_b (map fst (fnodes kids)) = true ->
    entries_after (fkeys kids) P "/" marker = Es marker (String.eqb marker "") (map (ptnode P) kids).
  Proof.
    intros kids Hk Hdk Hs. unfold entries_after.
    rewrite (filter_all_in (fun k => has_prefix k P)) by (apply fkeys_prefix; exact Hk).
    rewrite entries_top_P by exact Hk. rewrite dedup_blocks.
    - rewrite keyed_entries_P by exact Hdk. apply after_entries.
    - apply top_distinct. apply top_sorted_P. exact Hs.
  Qed.

  Lemma tn_nonempty_P : forall kids e, In e (map (ptnode P) kids) -> fst e <> "".
  Proof.
    intros kids e He. apply in_map_iff in He. destruct He as [[n t] [He Hin]]. subst e.
    unfold ptnode, P. cbn [fst snd]. destruct t; cbn [fst]; destruct q; cbn [String.append]; discriminate.
  Qed.

  (* the result the walk wrapper builds from the final state *)
  Definition result_of (s : st) : result :=
    {| r_objs := objs s; r_cps := sort_strs (cps s); r_trunc := truncated s; r_next := if truncated s then newMarker s else "" |}.
  Definition init_st : st :=
    {| objs := []; cps := []; pastMarker := String.eqb marker ""; pastMax := false; truncated := false; newMarker := "" |}.

  Theorem folder_refines : forall name kids,
    kids <> [] -> kids_ok kids -> folder_keyed kids -> sorted_b (map fst (nodes_at q (D false kids))) = true -> 0 < max ->
    let '(c, s) := walk_node P "/" marker max [] q name (D false kids) init_st in
    c <> Fail /\ result_of s = s3_list (keys_at q (D false kids)) P "/" marker max.
  Proof.
    intros name kids Hne Hk Hdk Hs Hmax.
    rewrite nodes_folder in Hs. cbn [map fst] in Hs. assert (Hsn : sorted_b (map fst (fnodes kids)) = true) by (eapply sorted_tail; exact Hs).
    rewrite keys_folder. rewrite (walk_folder_drun name false kids init_st Hne Hk).
    set (tn := map (ptnode P) kids).
    assert (Hts : sorted_b (map fst tn) = true) by (apply top_sorted_P; exact Hsn).
    pose proof (spec_entries_P kids Hk Hdk Hsn) as Hspec. fold tn in Hspec.
    assert (HI : DInv max init_st []).
    { unfold DInv, init_st. cbn [objs cps truncated pastMax newMarker List.length objs_of cps_of flat_map rev].
      repeat split; try lia; try discriminate. }
    assert (Hpm : pastMarker init_st = true -> marker = "" \/ forall e, In e tn -> str_ltb marker (fst e) = true).
    { unfold init_st. cbn [pastMarker]. intros H. left. apply String.eqb_eq. exact H. }
    pose proof (dpage marker max Hmax tn init_st [] Hts (tn_nonempty_P kids) HI Hpm) as Hp.
    pose proof (drun_ctl marker max tn init_st) as Hc.
    destruct (drun marker max tn init_st) as [c s']. cbn [fst snd] in Hp, Hc.
    unfold Post in Hp. cbv zeta in Hp. cbn [List.length app] in Hp. rewrite Nat.sub_0_r in Hp. unfold init_st in Hp. cbn [pastMarker] in Hp.
    destruct Hp as [H1 [H2 [H3 H4]]]. split; [destruct Hc as [Hc|Hc]; subst c; discriminate|].
    unfold result_of, s3_list. rewrite Hspec. cbv zeta. rewrite (proj2 (Nat.eqb_neq max 0)) by lia. cbn [negb]. rewrite andb_true_r.
    rewrite H1, H2, H3. rewrite sort_rev.
    - destruct (Nat.ltb max (List.length (Es marker (String.eqb marker "") tn))) eqn:Et; [|reflexivity].
      rewrite (H4 H3). reflexivity.
    - apply sorted_cps. rewrite <- firstn_map. apply firstn_sorted. apply Es_sorted. exact Hts.
  Qed.
End Folder.

(* ---------- the walk wrapper: the prefix "q/" resolves to the directory q *)
Lemma last_index_slash : forall q fuel i acc, String.length q < fuel ->
  last_index_from fuel (q ++ "/") "/" i acc = Some (i + String.length q).
Proof.
  induction q as [|a q IH]; intros fuel i acc Hf; (destruct fuel as [|f]; [cbn [String.length] in Hf; lia|]).
  - cbn [String.append last_index_from has_prefix Ascii.eqb Bool.eqb andb String.length]. rewrite Nat.add_0_r.
    destruct f; cbn [last_index_from has_prefix]; reflexivity.
  - cbn [String.append last_index_from String.length]. cbn [String.length] in Hf.
    rewrite IH by lia. f_equal. lia.
Qed.

Theorem folder_walk : forall t q kids marker max,
  q <> "." -> q <> "" ->
  forallb valid_seg (split_slash q "") = true -> resolve t (split_slash q "") = Some (D false kids) ->
  kids <> [] -> kids_ok kids -> folder_keyed q kids -> sorted_b (map fst (nodes_at q (D false kids))) = true ->
  walk t (q ++ "/") "/" marker max [] true = Some (s3_list (keys_at q (D false kids)) (q ++ "/") "/" marker max).
Proof.
  intros t q kids marker max Hq Hqe Hv Hr Hne Hk Hdk Hs. unfold walk. destruct (Nat.eqb max 0) eqn:E0.
  - apply Nat.eqb_eq in E0. subst max. unfold s3_list. cbn [firstn objs_of cps_of flat_map]. rewrite andb_false_r. reflexivity.
  - apply Nat.eqb_neq in E0. unfold str_last_index. rewrite last_index_slash by (rewrite length_append; cbn [String.length]; lia).
    cbn [Nat.add]. destruct q as [|a q'] eqn:Eq; [congruence|]. rewrite <- Eq in *. 
    assert (Hlen : String.length q = S (String.length q')) by (rewrite Eq; reflexivity). rewrite Hlen, <- Hlen. rewrite take_append.
    rewrite (proj2 (String.eqb_neq q ".") Hq). rewrite Hv, Hr.
    pose proof (folder_refines marker max q Hq (last_seg (split_slash q "") "") kids Hne Hk Hdk Hs ltac:(lia)) as Hf.
    unfold init_st in Hf.
    destruct (walk_node (q ++ "/") "/" marker max [] q (last_seg (split_slash q "") "") (D false kids) _) as [c s].
    destruct Hf as [Hc Hres]. unfold result_of in Hres. rewrite Hres. destruct c; try reflexivity. congruence.
Qed.

(* ---------- bookkeeping directories: a prefix that leads into one lists nothing *)
Theorem bookkeeping_prefix_empty : forall t sd r delim marker max skip flag,
  In sd skip -> r <> "" -> (r = sd \/ has_prefix r (sd ++ "/") = true) ->
  walk t (r ++ "/") delim marker max skip flag = Some empty_result.
Proof.
  intros t sd r delim marker max skip flag Hin Hr Hsd. unfold walk. destruct (Nat.eqb max 0); [reflexivity|].
  unfold str_last_index. rewrite last_index_slash by (rewrite length_append; cbn [String.length]; lia).
  cbn [Nat.add]. destruct r as [|a r'] eqn:Er; [congruence|]. rewrite <- Er in *.
  assert (Hlen : String.length r = S (String.length r')) by (rewrite Er; reflexivity). rewrite Hlen, <- Hlen. rewrite take_append.
  assert (Hex : existsb (fun sd0 => String.eqb r sd0 || has_prefix r (sd0 ++ "/")) skip = true).
  { apply existsb_exists. exists sd. split; [exact Hin|]. destruct Hsd as [H|H]; [subst sd; rewrite String.eqb_refl; reflexivity|rewrite H; apply orb_true_r]. }
  rewrite Hex. reflexivity.
Qed.

Lemma last_index_noslash : forall w fuel i acc, has_char "/" w = false ->
  last_index_from fuel w "/" i acc = acc.
Proof.
  induction w as [|a w IH]; intros fuel i acc Hw; destruct fuel as [|f]; try reflexivity.
  cbn [has_char] in Hw. apply orb_false_iff in Hw. destruct Hw as [Ha Hw].
  cbn [last_index_from has_prefix]. rewrite Ascii.eqb_sym in Ha. rewrite Ha. cbn [andb]. apply IH. exact Hw.
Qed.

Lemma last_index_slash_mid_from : forall q w fuel i acc, has_char "/" w = false -> String.length q < fuel ->
  last_index_from fuel (q ++ "/" ++ w) "/" i acc = Some (i + String.length q).
Proof.
  induction q as [|a q IH]; intros w fuel i acc Hw Hf; (destruct fuel as [|f]; [cbn [String.length] in Hf; lia|]).
  - cbn [String.append last_index_from has_prefix Ascii.eqb Bool.eqb andb String.length]. rewrite Nat.add_0_r.
    assert (Hp : has_prefix w "" = true) by (destruct w; reflexivity). rewrite Hp.
    apply last_index_noslash. exact Hw.
  - change (String a q ++ "/" ++ w) with (String a (q ++ "/" ++ w)).
    cbn [last_index_from String.length]. cbn [String.length] in Hf.
    rewrite IH by (try assumption; lia). f_equal. lia.
Qed.

Lemma last_index_slash_mid : forall q w, has_char "/" w = false ->
  last_index_from (S (String.length (q ++ "/" ++ w))) (q ++ "/" ++ w) "/" 0 None = Some (String.length q).
Proof.
  intros q w Hw. rewrite last_index_slash_mid_from; [reflexivity|exact Hw|].
  rewrite length_append. lia.
Qed.

(* a prefix whose directory part r is no path (an element that is empty, "." or ".."): the walk answers the empty page, whatever the
   tree, delimiter, marker and page size (the code before repair 24e8de4 answered an error there) *)
Theorem invalid_root_empty_page : forall t r w delim marker max skip flag,
  r <> "" -> r <> "." -> has_char "/" w = false -> forallb valid_seg (split_slash r "") = false ->
  walk t (r ++ "/" ++ w) delim marker max skip flag = Some empty_result.
Proof.
  intros t r w delim marker max skip flag Hr Hrd Hw Hinv. unfold walk. destruct (Nat.eqb max 0); [reflexivity|].
  assert (Hli : str_last_index (r ++ "/" ++ w) "/" = Some (String.length r)).
  { unfold str_last_index. apply last_index_slash_mid; assumption. }
  clear Hw.
  rewrite Hli. destruct r as [|a r'] eqn:Er; [congruence|]. rewrite <- Er in *.
  assert (Hlen : String.length r = S (String.length r')) by (rewrite Er; reflexivity). rewrite Hlen, <- Hlen. rewrite take_append.
  destruct (existsb _ skip); [reflexivity|].
  destruct (String.eqb r ".") eqn:Edot.
  - apply String.eqb_eq in Edot. congruence.
  - rewrite Hinv. reflexivity.
Qed.
