From Coq Require Import List Arith Bool Lia.
From VGW Require Import Model.CrashDirObj.
Import ListNotations.

Lemma fold_not_object : forall ws s, is_object s = false -> (forall w, In w ws -> w <> W_etag) -> is_object (fold_left do_dwrite ws s) = false.
Proof.
  induction ws as [|w ws IH]; intros s Hs Hn; [exact Hs|]. cbn [fold_left]. apply IH.
  - destruct w; cbn [do_dwrite is_object]; try exact Hs. exfalso. apply (Hn W_etag); [left; reflexivity|reflexivity].
  - intros w' Hin. apply Hn. right. exact Hin.
Qed.

Lemma firstn_in {A} : forall n (l : list A) x, In x (firstn n l) -> In x l.
Proof. induction n as [|n IH]; intros [|a l] x H; cbn [firstn] in H; try destruct H; [left; assumption|right; apply IH; assumption]. Qed.

Lemma firstn_app_le {A} : forall n (a b : list A), n <= length a -> firstn n (a ++ b) = firstn n a.
Proof. intros n a b H. rewrite firstn_app. replace (n - length a) with 0 by lia. cbn [firstn]. apply app_nil_r. Qed.

(* a FIRST upload of a directory object is all or nothing: killed after any number of its attribute writes the key either is not an
   object (nothing is listed) or carries the complete new state *)
Theorem first_upload_atomic : forall new n,
  let s0 := {| is_object := false; umeta := [] |} in
  shows (killed_after s0 new n) = None \/ killed_after s0 new n = fold_left do_dwrite (upload_writes s0 new) s0.
Proof.
  intros new n s0. unfold killed_after, upload_writes. cbn [umeta s0 map app].
  set (st := map (fun kv => W_store (fst kv) (snd kv)) new).
  destruct (Nat.le_gt_cases n (length st)) as [Hle|Hgt].
  - left. unfold shows. rewrite firstn_app_le by exact Hle. rewrite fold_not_object; [reflexivity|reflexivity|].
    intros w Hin. apply firstn_in in Hin. unfold st in Hin. apply in_map_iff in Hin. destruct Hin as [kv [E _]]. subst w. discriminate.
  - right. rewrite firstn_all2; [reflexivity|]. rewrite app_length. cbn [length]. lia.
Qed.

(* an upload over an existing directory object is not: there is a kill point after which the key is listed with neither the old nor
   the new user metadata (known finding c11:state:dirobj-overwrite) *)
Theorem overwrite_not_atomic :
  let s0 := {| is_object := true; umeta := [(1, 10); (2, 20)] |} in
  let new := [(1, 11); (3, 30)] in
  exists n, match shows (killed_after s0 new n) with
            | Some m => same_meta m (umeta s0) = false /\ same_meta m new = false
            | None => False
            end.
Proof. exists 1. vm_compute. split; reflexivity. Qed.
