(* First refinement layer for C07: on an order-compatible tree (directory order = key order) the unpaginated,
   unfiltered listing is exactly the S3 listing rule applied to the tree's keys. *)
From Coq Require Import String Ascii List Arith NArith Lia Bool.
From VGW Require Import Base.GoStr Model.Walk Spec.ListSpec Proofs.WalkProof Proofs.WalkFlat.
Import ListNotations.
Open Scope string_scope.
Open Scope list_scope.

Lemma has_prefix_empty k : has_prefix k "" = true.
Proof. destruct k; reflexivity. Qed.

Lemma str_ltb_irrefl a : str_ltb a a = false.
Proof. induction a as [|c a IH]; cbn; [reflexivity|]. rewrite N.ltb_irrefl. exact IH. Qed.

Lemma insert_sorted_head a l : sorted_b (a :: l) = true -> insert_sorted a l = a :: l.
Proof.
  destruct l as [|b r]; cbn; [reflexivity|]. intros H. apply andb_true_iff in H. destruct H as [H _]. rewrite H. reflexivity.
Qed.

Lemma sorted_tail a l : sorted_b (a :: l) = true -> sorted_b l = true.
Proof. destruct l as [|b r]; cbn; [reflexivity|]. intros H. apply andb_true_iff in H. tauto. Qed.

Lemma sort_sorted l : sorted_b l = true -> sort_strs l = l.
Proof.
  unfold sort_strs. induction l as [|a l IH]; intros H; cbn [fold_right]; [reflexivity|].
  rewrite IH by (eapply sorted_tail; eauto). apply insert_sorted_head. exact H.
Qed.

Lemma filter_all {A} (f : A -> bool) l : (forall x, f x = true) -> filter f l = l.
Proof. intros H. induction l as [|x l IH]; cbn; [reflexivity|]. rewrite H, IH. reflexivity. Qed.

Lemma dedup_sorted_objs l : sorted_b l = true -> dedup_adj (map EObj l) = map EObj l.
Proof.
  induction l as [|a l IH]; intros H; [reflexivity|].
  destruct l as [|b r]; [reflexivity|].
  cbn [map dedup_adj entry_eqb]. cbn [sorted_b] in H. apply andb_true_iff in H. destruct H as [Hab Hr].
  destruct (String.eqb a b) eqn:E.
  - apply String.eqb_eq in E. subst. rewrite str_ltb_irrefl in Hab. discriminate.
  - f_equal. apply IH. exact Hr.
Qed.

Lemma objs_of_map l : objs_of (map EObj l) = l.
Proof. induction l as [|a l IH]; cbn; [reflexivity|]. unfold objs_of in IH. rewrite IH. reflexivity. Qed.
Lemma cps_of_map l : cps_of (map EObj l) = [].
Proof. induction l as [|a l IH]; cbn; [reflexivity|]. exact IH. Qed.

Lemma s3_list_all keys max : sorted_b keys = true -> List.length keys < max ->
  s3_list keys "" "" "" max = {| r_objs := keys; r_cps := []; r_trunc := false; r_next := "" |}.
Proof.
  intros Hs Hl. unfold s3_list, entries_after.
  rewrite (filter_all (fun k => has_prefix k "")) by apply has_prefix_empty.
  assert (M : map (entry_of "" "") keys = map EObj keys) by (apply map_ext; intros; reflexivity).
  rewrite M, dedup_sorted_objs by exact Hs.
  rewrite filter_all by (intros; reflexivity).
  rewrite firstn_all2 by (rewrite map_length; lia).
  rewrite map_length, objs_of_map, cps_of_map.
  assert (L : Nat.ltb max (List.length keys) = false) by (apply Nat.ltb_ge; lia).
  rewrite L. reflexivity.
Qed.

Theorem unpaginated_refines : forall b kids max, names_ok (D b kids) ->
  sorted_b (keys_at "." (D b kids)) = true ->
  List.length (keys_at "." (D b kids)) + 1 < max ->
  walk (D b kids) "" "" "" max [] true =
    Some (s3_list (sort_strs (keys_at "." (D b kids))) "" "" "" max).
Proof.
  intros b kids max Hn Hs Hl. rewrite walk_all_flat by assumption.
  rewrite sort_sorted by exact Hs. rewrite s3_list_all by (try assumption; lia). reflexivity.
Qed.
