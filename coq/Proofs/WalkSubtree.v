(* C07, the tree fact behind listing a folder: in a tree whose names are path segments without "/" and whose sibling names are
   distinct, the keys of the bucket that carry the prefix "q/" are exactly the keys stored below the directory q resolves to. *)
From Coq Require Import String Ascii List Arith NArith Lia Bool.
From VGW Require Import Base.GoStr Model.Walk Spec.ListSpec Proofs.WalkProof Proofs.WalkFlat Proofs.WalkRefine Proofs.WalkPage Proofs.WalkDelim Proofs.WalkFolder.
Import ListNotations.
Open Scope string_scope.

(* ---------- strings *)
Lemma has_prefix_strip : forall a x y, has_prefix (a ++ x) (a ++ y) = has_prefix x y.
Proof. induction a as [|c a IH]; intros x y; cbn [String.append has_prefix]; [reflexivity|]. rewrite Ascii.eqb_refl. apply IH. Qed.

Lemma has_prefix_longer : forall s x, x <> "" -> has_prefix s (s ++ x) = false.
Proof.
  induction s as [|c s IH]; intros x Hx; cbn [String.append has_prefix].
  - destruct x; [congruence|reflexivity].
  - rewrite Ascii.eqb_refl. apply IH. exact Hx.
Qed.

(* a name without "/" followed by nothing or by "/..." carries the prefix "s/..." only when it is s *)
Lemma seg_prefix_same : forall n s w z, noslash n -> noslash s -> (w = "" \/ exists r, w = "/" ++ r) ->
  has_prefix (n ++ w) (s ++ "/" ++ z) = true -> n = s.
Proof.
  induction n as [|a n IH]; intros s w z Hn Hs Hw H.
  - destruct s as [|b s]; [reflexivity|]. cbn [String.append] in H.
    destruct Hw as [Hw|[r Hw]]; subst w; cbn [has_prefix String.append] in H; [discriminate|].
    apply andb_true_iff in H. destruct H as [H _]. apply Ascii.eqb_eq in H. subst b.
    unfold noslash in Hs. cbn [has_char] in Hs. rewrite Ascii.eqb_refl in Hs. discriminate.
  - destruct s as [|b s]; cbn [String.append has_prefix] in H.
    + apply andb_true_iff in H. destruct H as [H _]. apply Ascii.eqb_eq in H. subst a.
      unfold noslash in Hn. cbn [has_char] in Hn. rewrite Ascii.eqb_refl in Hn. discriminate.
    + apply andb_true_iff in H. destruct H as [Hab H]. apply Ascii.eqb_eq in Hab. subst b. f_equal.
      unfold noslash in Hn, Hs. cbn [has_char] in Hn, Hs. apply orb_false_iff in Hn, Hs.
      apply (IH s w z); [apply Hn|apply Hs|exact Hw|exact H].
Qed.

(* ---------- trees whose names are segments and whose siblings differ *)
Fixpoint segs_ok_tree (t : tree) : Prop :=
  match t with
  | F _ => True
  | D _ kids => (fix go (k : list (string * tree)) : Prop :=
                   match k with [] => True | (n, c) :: r => noslash n /\ (forall m c', In (m, c') r -> m <> n) /\ segs_ok_tree c /\ go r end) kids
  end.

Fixpoint jpath (path : string) (segs : list string) : string :=
  match segs with [] => path | s :: r => jpath (pjoin path s) r end.

(* the keys below a child all start with the child's path, followed by nothing or by "/..." *)
Lemma keys_child_shape : forall t path k, names_ok t -> path <> "." -> In k (keys_at path t) ->
  exists w, k = path ++ w /\ (w = "" \/ exists r, w = "/" ++ r).
Proof.
  intros t path k Hn Hp Hin. pose proof (keys_shape t path k Hn Hp Hin) as H. destruct t.
  - exists "". rewrite append_nil_r. split; [exact H|left; reflexivity].
  - destruct H as [r Hr]. exists ("/" ++ r). split; [exact Hr|right; exists r; reflexivity].
Qed.

Definition kids_keys (path : string) (kids : list (string * tree)) : list string :=
  flat_map (fun nc => keys_at (pjoin path (fst nc)) (snd nc)) kids.

Lemma keys_at_kids : forall path b kids, keys_at path (D b kids) =
  ((if b && negb (String.eqb path ".") then [(path ++ "/")%string] else []) ++ kids_keys path kids)%list.
Proof.
  intros path b kids. cbn [keys_at]. f_equal. unfold kids_keys.
  induction kids as [|[n c] r IH]; [reflexivity|]. cbn [flat_map fst snd]. rewrite IH. reflexivity.
Qed.

Fixpoint distinct_names (kids : list (string * tree)) : Prop :=
  match kids with [] => True | (n, _) :: r => (forall m c', In (m, c') r -> m <> n) /\ distinct_names r end.

Lemma filter_kids : forall kids Pfx path s1 c1,
  (forall n c, In (n, c) kids -> n <> s1 -> forall k, In k (keys_at (pjoin path n) c) -> has_prefix k Pfx = false) ->
  lookup kids s1 = Some c1 -> distinct_names kids ->
  filter (fun k => has_prefix k Pfx) (kids_keys path kids) = filter (fun k => has_prefix k Pfx) (keys_at (pjoin path s1) c1).
Proof.
  induction kids as [|[n c] r IH]; intros Pfx path s1 c1 Hother Hl Hd; [discriminate|].
  unfold kids_keys. cbn [flat_map fst snd]. fold (kids_keys path r). rewrite filter_app.
  cbn [lookup] in Hl. destruct Hd as [Hd1 Hd2]. destruct (String.eqb n s1) eqn:E.
  - apply String.eqb_eq in E. subst n. inversion Hl; subst c1.
    rewrite (filter_none_in _ (kids_keys path r)); [apply app_nil_r|].
    intros k Hk. unfold kids_keys in Hk. apply in_flat_map in Hk. destruct Hk as [[m c'] [Hin Hk]]. cbn [fst snd] in Hk.
    apply (Hother m c'); [right; exact Hin|apply (Hd1 m c'); exact Hin|exact Hk].
  - apply String.eqb_neq in E. rewrite (filter_none_in _ (keys_at (pjoin path n) c)).
    + cbn [app]. apply IH; [|exact Hl|exact Hd2]. intros m c' Hin Hm k Hk. apply (Hother m c'); [right; exact Hin|exact Hm|exact Hk].
    + intros k Hk. apply (Hother n c); [left; reflexivity|exact E|exact Hk].
Qed.

(* the prefix that jpath builds below a child path: the child path followed by nothing or by "/..." *)
Lemma jpath_ext : forall segs path, path <> "." -> (forall s, In s segs -> s <> "." /\ s <> "") ->
  exists z, jpath path segs = path ++ z /\ (z = "" \/ exists r, z = "/" ++ r).
Proof.
  induction segs as [|s r IH]; intros path Hp Hs.
  - exists "". rewrite append_nil_r. split; [reflexivity|left; reflexivity].
  - cbn [jpath]. destruct (Hs s (or_introl eq_refl)) as [H1 H2].
    destruct (IH (pjoin path s) (pjoin_not_dot _ _ H1 H2) (fun s' Hin => Hs s' (or_intror Hin))) as [z [Hz Hz']].
    assert (Hj : pjoin path s = path ++ "/" ++ s).
    { unfold pjoin. destruct (String.eqb path ".") eqn:E; [apply String.eqb_eq in E; congruence|reflexivity]. }
    exists ("/" ++ s ++ z). split; [rewrite Hz, Hj, !append_assoc; reflexivity|right; exists (s ++ z); reflexivity].
Qed.

Lemma pjoin_base : forall path, exists base, forall n, pjoin path n = base ++ n.
Proof.
  intros path. unfold pjoin. destruct (String.eqb path "."); [exists ""; reflexivity|].
  exists (path ++ "/"). intros n. rewrite append_assoc. reflexivity.
Qed.

Lemma names_ok_kid : forall kids n c, (fix go (k : list (string * tree)) : Prop :=
     match k with [] => True | (n, c) :: r => n <> "." /\ n <> "" /\ names_ok c /\ go r end) kids ->
  In (n, c) kids -> n <> "." /\ n <> "" /\ names_ok c.
Proof.
  induction kids as [|[m c'] r IH]; intros n c H Hin; [destruct Hin|]. destruct H as [H1 [H2 [H3 H4]]].
  destruct Hin as [Hin|Hin]; [inversion Hin; subst; tauto|apply IH; assumption].
Qed.

Lemma segs_ok_kid : forall kids n c, (fix go (k : list (string * tree)) : Prop :=
     match k with [] => True | (n, c) :: r => noslash n /\ (forall m c', In (m, c') r -> m <> n) /\ segs_ok_tree c /\ go r end) kids ->
  In (n, c) kids -> noslash n /\ segs_ok_tree c.
Proof.
  induction kids as [|[m c'] r IH]; intros n c H Hin; [destruct Hin|]. destruct H as [H1 [H2 [H3 H4]]].
  destruct Hin as [Hin|Hin]; [inversion Hin; subst; tauto|apply IH; assumption].
Qed.

Lemma segs_ok_distinct : forall kids, (fix go (k : list (string * tree)) : Prop :=
     match k with [] => True | (n, c) :: r => noslash n /\ (forall m c', In (m, c') r -> m <> n) /\ segs_ok_tree c /\ go r end) kids ->
  distinct_names kids.
Proof. induction kids as [|[m c'] r IH]; intros H; [exact I|]. destruct H as [H1 [H2 [H3 H4]]]. split; [exact H2|apply IH; exact H4]. Qed.

Lemma lookup_in : forall kids s c, lookup kids s = Some c -> In (s, c) kids.
Proof.
  induction kids as [|[m c'] r IH]; intros s c H; [discriminate|]. cbn [lookup] in H. destruct (String.eqb m s) eqn:E.
  - apply String.eqb_eq in E. inversion H; subst. left. reflexivity.
  - right. apply IH. exact H.
Qed.

Theorem subtree_keys : forall segs t path node,
  names_ok t -> segs_ok_tree t -> (forall s, In s segs -> noslash s /\ s <> "" /\ s <> ".") -> segs <> [] ->
  resolve t segs = Some node -> is_dir node = true ->
  filter (fun k => has_prefix k (jpath path segs ++ "/")) (keys_at path t) = keys_at (jpath path segs) node.
Proof.
  induction segs as [|s1 rest IH]; intros t path node Hn Hso Hsegs Hne Hr Hdir; [congruence|].
  destruct t as [b|b kids]; [discriminate|]. cbn [resolve] in Hr.
  destruct (lookup kids s1) as [c1|] eqn:Hl; [|discriminate].
  destruct (Hsegs s1 (or_introl eq_refl)) as [Hs1 [Hs1e Hs1d]].
  assert (Hp1 : pjoin path s1 <> ".") by (apply pjoin_not_dot; assumption).
  cbn [jpath]. set (P := jpath (pjoin path s1) rest ++ "/").
  destruct (jpath_ext rest (pjoin path s1) Hp1 (fun s' Hin => let '(conj _ (conj a b0)) := Hsegs s' (or_intror Hin) in conj b0 a)) as [z [Hz Hz']].
  assert (HP : exists z', P = pjoin path s1 ++ "/" ++ z').
  { unfold P. rewrite Hz. destruct Hz' as [Hz'|[r Hz']]; subst z.
    - exists "". rewrite append_nil_r. reflexivity.
    - exists (r ++ "/"). rewrite !append_assoc. reflexivity. }
  destruct HP as [z' HP].
  cbn [names_ok] in Hn. cbn [segs_ok_tree] in Hso.
  rewrite keys_at_kids, filter_app.
  (* the directory's own key *)
  assert (Hown : filter (fun k => has_prefix k P) (if b && negb (String.eqb path ".") then [path ++ "/"] else []) = []).
  { destruct (b && negb (String.eqb path ".")) eqn:Eb; [|reflexivity]. cbn [filter].
    apply andb_true_iff in Eb. destruct Eb as [_ Eb]. apply negb_true_iff in Eb.
    assert (Hj : pjoin path s1 = path ++ "/" ++ s1) by (unfold pjoin; rewrite Eb; reflexivity).
    rewrite HP, Hj.
    assert (E : (path ++ "/" ++ s1) ++ "/" ++ z' = (path ++ "/") ++ (s1 ++ "/" ++ z')) by (rewrite !append_assoc; reflexivity).
    rewrite E, has_prefix_longer; [reflexivity|]. destruct s1; [congruence|discriminate]. }
  rewrite Hown. cbn [app].
  rewrite (filter_kids kids P path s1 c1); [| |exact Hl|apply segs_ok_distinct; exact Hso].
  - pose proof (lookup_in kids s1 c1 Hl) as Hin1.
    destruct (names_ok_kid kids s1 c1 Hn Hin1) as [_ [_ Hn1]]. destruct (segs_ok_kid kids s1 c1 Hso Hin1) as [_ Hso1].
    destruct rest as [|s2 rest'].
    + (* the directory itself: every key below it carries the prefix *)
      inversion Hr; subst node. cbn [jpath]. apply filter_all_in. intros k Hk.
      pose proof (keys_shape c1 (pjoin path s1) k Hn1 Hp1 Hk) as Hsh. destruct c1 as [b1|b1 k1]; [discriminate|].
      destruct Hsh as [r Hr']. subst k. unfold P. cbn [jpath]. rewrite <- append_assoc. apply has_prefix_app.
    + apply (IH c1 (pjoin path s1) node Hn1 Hso1); [intros s' Hin; apply Hsegs; right; exact Hin|discriminate|exact Hr|exact Hdir].
  - (* the other children *)
    intros n c Hin Hns k Hk.
    destruct (names_ok_kid kids n c Hn Hin) as [Hnd [Hne' Hnc]]. destruct (segs_ok_kid kids n c Hso Hin) as [Hnn _].
    destruct (keys_child_shape c (pjoin path n) k Hnc (pjoin_not_dot _ _ Hnd Hne') Hk) as [w [Hw Hw']]. subst k.
    rewrite HP. destruct (pjoin_base path) as [base Hb]. rewrite !Hb. rewrite !append_assoc. rewrite has_prefix_strip.
    destruct (has_prefix (n ++ w) (s1 ++ "/" ++ z')) eqn:E; [|reflexivity].
    exfalso. apply Hns. apply (seg_prefix_same n s1 w z'); assumption.
Qed.

(* ---------- the path string and its segments *)
Fixpoint sconcat (l : list string) : string := match l with [] => "" | s :: r => "/" ++ s ++ sconcat r end.

Lemma jpath_join : forall l p, p <> "." -> (forall s, In s l -> s <> "." /\ s <> "") -> jpath p l = p ++ sconcat l.
Proof.
  induction l as [|s r IH]; intros p Hp Hl; cbn [jpath sconcat]; [rewrite append_nil_r; reflexivity|].
  destruct (Hl s (or_introl eq_refl)) as [H1 H2].
  rewrite IH; [|apply pjoin_not_dot; assumption|intros s' Hin; apply Hl; right; exact Hin].
  unfold pjoin. destruct (String.eqb p ".") eqn:E; [apply String.eqb_eq in E; congruence|]. rewrite !append_assoc. reflexivity.
Qed.

Lemma split_join : forall s acc, exists hd tl, split_slash s acc = hd :: tl /\ hd ++ sconcat tl = acc ++ s.
Proof.
  induction s as [|a s IH]; intros acc; cbn [split_slash].
  - exists acc, []. split; [reflexivity|reflexivity].
  - destruct (Ascii.eqb a "/") eqn:E.
    + apply Ascii.eqb_eq in E. subst a. destruct (IH "") as [hd [tl [H1 H2]]]. exists acc, (hd :: tl). split; [rewrite H1; reflexivity|].
      cbn [sconcat]. rewrite H2. reflexivity.
    + destruct (IH (acc ++ String a "")) as [hd [tl [H1 H2]]]. exists hd, tl. split; [exact H1|]. rewrite H2, append_assoc. reflexivity.
Qed.

Lemma has_char_app : forall c a b, has_char c (a ++ b) = has_char c a || has_char c b.
Proof. induction a as [|x a IH]; intros b; cbn [String.append has_char]; [reflexivity|]. rewrite IH, orb_assoc. reflexivity. Qed.

Lemma split_noslash : forall s acc x, noslash acc -> In x (split_slash s acc) -> noslash x.
Proof.
  induction s as [|a s IH]; intros acc x Ha Hin; cbn [split_slash] in Hin.
  - destruct Hin as [Hin|[]]. subst x. exact Ha.
  - destruct (Ascii.eqb a "/") eqn:E.
    + destruct Hin as [Hin|Hin]; [subst x; exact Ha|apply (IH "" x); [reflexivity|exact Hin]].
    + apply (IH (acc ++ String a "") x); [|exact Hin]. unfold noslash in *. rewrite has_char_app, Ha. cbn [has_char orb]. rewrite E. reflexivity.
Qed.

Lemma valid_seg_spec : forall s, valid_seg s = true -> s <> "" /\ s <> ".".
Proof.
  intros s H. unfold valid_seg in H. apply andb_true_iff in H. destruct H as [H _]. apply andb_true_iff in H. destruct H as [H1 H2].
  apply negb_true_iff in H1, H2. apply String.eqb_neq in H1, H2. tauto.
Qed.

Lemma jpath_split : forall q, q <> "" -> forallb valid_seg (split_slash q "") = true -> jpath "." (split_slash q "") = q.
Proof.
  intros q Hq Hv. destruct (split_join q "") as [hd [tl [H1 H2]]]. rewrite H1 in Hv |- *. cbn [forallb] in Hv. apply andb_true_iff in Hv. destruct Hv as [Hh Ht].
  cbn [jpath]. assert (Hp : pjoin "." hd = hd) by reflexivity. rewrite Hp.
  destruct (valid_seg_spec hd Hh) as [Hh1 Hh2].
  rewrite jpath_join; [exact H2|exact Hh2|]. intros s Hs. rewrite forallb_forall in Ht. destruct (valid_seg_spec s (Ht s Hs)). tauto.
Qed.

(* the S3 rule looks at the keys through the prefix filter only *)
Lemma entries_after_filter : forall K P d m, entries_after K P d m = entries_after (filter (fun k => has_prefix k P) K) P d m.
Proof.
  intros K P d m. unfold entries_after. f_equal. f_equal. f_equal.
  induction K as [|k K IH]; [reflexivity|]. cbn [filter]. destruct (has_prefix k P) eqn:E; cbn [filter]; [rewrite E; f_equal; exact IH|exact IH].
Qed.

Lemma s3_list_filter : forall K P d m max, s3_list K P d m max = s3_list (filter (fun k => has_prefix k P) K) P d m max.
Proof. intros. unfold s3_list. rewrite entries_after_filter. reflexivity. Qed.

(* resolving a path keeps the tree's good properties *)
Lemma resolve_ok : forall segs t node, names_ok t -> segs_ok_tree t -> resolve t segs = Some node -> names_ok node /\ segs_ok_tree node.
Proof.
  induction segs as [|s r IH]; intros t node Hn Hs Hr; cbn [resolve] in Hr; [inversion Hr; subst; tauto|].
  destruct t as [b|b kids]; [discriminate|]. destruct (lookup kids s) as [c|] eqn:Hl; [|discriminate].
  pose proof (lookup_in kids s c Hl) as Hin. cbn [names_ok] in Hn. cbn [segs_ok_tree] in Hs.
  destruct (names_ok_kid kids s c Hn Hin) as [_ [_ H1]]. destruct (segs_ok_kid kids s c Hs Hin) as [_ H2]. apply (IH c node H1 H2 Hr).
Qed.

Lemma kids_ok_of : forall (q : string) b kids, names_ok (D b kids) -> segs_ok_tree (D b kids) -> kids_ok kids.
Proof.
  intros q b kids Hn Hs n t Hin. cbn [names_ok] in Hn. cbn [segs_ok_tree] in Hs.
  destruct (names_ok_kid kids n t Hn Hin) as [H1 [H2 H3]]. destruct (segs_ok_kid kids n t Hs Hin) as [H4 _]. tauto.
Qed.

(* listing a folder of the bucket: the statement over the bucket's whole key set *)
Theorem folder_walk_bucket : forall t q kids marker max,
  names_ok t -> segs_ok_tree t -> sorted_b (keys_at "." t) = true ->
  q <> "." -> q <> "" ->
  forallb valid_seg (split_slash q "") = true -> resolve t (split_slash q "") = Some (D false kids) ->
  kids <> [] -> folder_keyed q kids -> sorted_b (map fst (nodes_at q (D false kids))) = true ->
  walk t (q ++ "/") "/" marker max [] true = Some (s3_list (sort_strs (keys_at "." t)) (q ++ "/") "/" marker max).
Proof.
  intros t q kids marker max Hn Hso Hks Hq Hqe Hv Hr Hne Hdk Hs.
  destruct (resolve_ok _ _ _ Hn Hso Hr) as [Hn' Hso'].
  rewrite (folder_walk t q kids marker max Hq Hqe Hv Hr Hne (kids_ok_of q false kids Hn' Hso') Hdk Hs).
  rewrite sort_sorted by exact Hks. rewrite (s3_list_filter (keys_at "." t)).
  assert (Hsegs : forall s, In s (split_slash q "") -> noslash s /\ s <> "" /\ s <> ".").
  { intros s Hin. split; [apply (split_noslash q "" s); [reflexivity|exact Hin]|]. rewrite forallb_forall in Hv. apply valid_seg_spec. apply Hv. exact Hin. }
  assert (Hsne : split_slash q "" <> []). { destruct (split_join q "") as [hd [tl [H1 _]]]. rewrite H1. discriminate. }
  pose proof (subtree_keys (split_slash q "") t "." (D false kids) Hn Hso Hsegs Hsne Hr eq_refl) as Hf.
  rewrite (jpath_split q Hqe Hv) in Hf. rewrite Hf. reflexivity.
Qed.

(* ---------- following the markers of a folder listing: every entry of the folder once, in order *)
Fixpoint fwpages (t : tree) (P m : string) (max fuel : nat) : list string * list string :=
  match fuel with
  | O => ([], [])
  | S f => match walk t P "/" m max [] true with
           | Some r => let rest := if r_trunc r then fwpages t P (r_next r) max f else ([], []) in
                       ((r_objs r ++ fst rest)%list, (r_cps r ++ snd rest)%list)
           | None => ([], [])
           end
  end.

Theorem folder_pages_all : forall t q kids max fuel,
  q <> "." -> q <> "" ->
  forallb valid_seg (split_slash q "") = true -> resolve t (split_slash q "") = Some (D false kids) ->
  kids <> [] -> kids_ok kids -> folder_keyed q kids -> sorted_b (map fst (nodes_at q (D false kids))) = true ->
  0 < max -> List.length kids < fuel ->
  let E := entries_after (keys_at q (D false kids)) (q ++ "/") "/" "" in
  fwpages t (q ++ "/") "" max fuel = (objs_of E, cps_of E).
Proof.
  intros t q kids max fuel Hq Hqe Hv Hr Hne Hk Hdk Hs Hmax Hf. cbv zeta.
  set (P := q ++ "/"). set (K := keys_at q (D false kids)). set (E := entries_after K P "/" "").
  assert (Hsn : sorted_b (map fst (fnodes q kids)) = true).
  { rewrite (nodes_folder q Hq) in Hs. cbn [map fst] in Hs. eapply sorted_tail. exact Hs. }
  assert (Hspec : forall m, entries_after K P "/" m = Es m (String.eqb m "") (map (ptnode P) kids)).
  { intros m. unfold K. rewrite (keys_folder q Hq). apply (spec_entries_P m q Hq kids Hk Hdk Hsn). }
  assert (HE : E = Es "" true (map (ptnode P) kids)) by (unfold E; rewrite Hspec; reflexivity).
  assert (Hes : forall m, entries_after K P "/" m = filter (egt m) E).
  { intros m. unfold E. rewrite !Hspec. rewrite <- (after_entries m (map (ptnode P) kids)). change (String.eqb "" "") with true. unfold Es.
    assert (Hall : filter (elig "" true) (map (ptnode P) kids) = filter keyed (map (ptnode P) kids)).
    { apply filter_ext. intros e. unfold elig. cbn [orb]. apply andb_true_r. }
    rewrite Hall. reflexivity. }
  assert (Hts : sorted_b (map fst (map (ptnode P) kids)) = true) by (apply top_sorted_P; assumption).
  assert (Hwp : forall f m, fwpages t P m max f = (objs_of (epages E m max f), cps_of (epages E m max f))).
  { induction f as [|f IH]; intros m; cbn [fwpages epages]; [reflexivity|].
    unfold P. rewrite (folder_walk t q kids m max Hq Hqe Hv Hr Hne Hk Hdk Hs). fold P. fold K.
    unfold s3_list. rewrite Hes. cbv zeta. cbn [r_objs r_cps r_trunc r_next].
    replace (negb (Nat.eqb max 0)) with true by (symmetry; apply negb_true_iff; apply Nat.eqb_neq; lia). rewrite andb_true_r.
    rewrite objs_of_app, cps_of_app.
    destruct (Nat.ltb max (List.length (filter (egt m) E))); [rewrite IH|]; reflexivity. }
  rewrite Hwp. rewrite (epages_all E max).
  - rewrite filter_all_in by (intros; reflexivity). reflexivity.
  - rewrite HE. apply Es_sorted. exact Hts.
  - intros e He. rewrite HE in He. unfold Es in He. apply in_map_iff in He. destruct He as [x [Hx Hin]]. subst e.
    rewrite etext_to_entry. apply filter_In in Hin. eapply tn_nonempty_P; [exact Hq|apply Hin].
  - exact Hmax.
  - rewrite filter_all_in by (intros; reflexivity). rewrite HE. unfold Es. rewrite map_length.
    pose proof (filter_len (elig "" true) (map (ptnode P) kids)) as Hl. rewrite map_length in Hl. lia.
Qed.
