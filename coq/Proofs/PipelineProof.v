From Coq Require Import NArith ZArith List Bool String Lia.
From VGW Require Import Base.Bytes Crypto.Crc Model.SignedChunk Model.UnsignedChunk Model.Pipeline Proofs.ChunkAccept.
Import ListNotations.

Section P.
  Variables (sha256hex : bytes -> bytes) (md5b64 : bytes -> bytes) (cksum : calgo -> bytes -> bytes).
  Variable run_signed : option trailer_kind -> list (bytes * bool) -> bytes * rerr.
  Variable run_unsigned : trailer_kind -> bytes -> bytes * uerr.
  Notation outcome_of := (upload_outcome sha256hex md5b64 cksum run_signed run_unsigned).
  Notation decoded_of := (decoded run_signed run_unsigned).

  (* every declared integrity value equals the value computed over the bytes received, the stored bytes are exactly the
     decoded bytes, and their number is exactly the declared length *)
  Definition all_verified (u : upload) (d : bytes) : Prop :=
    decoded_of u = inl d /\
    Z.of_nat (List.length d) = u_declared u /\
    (forall h, u_sha256 u = Some h -> sha256hex (u_wire u) = h) /\
    (forall m, u_md5 u = Some m -> md5b64 d = m) /\
    (forall a v, u_cksum u = Some (a, v) -> cksum a d = v).

  Lemma commit_sound : forall u d, outcome_of u = Committed d -> all_verified u d.
  Proof.
    intros u d H. unfold upload_outcome in H.
    destruct (decoded_of u) as [d0|e] eqn:D; [|discriminate].
    destruct (u_declared u <? Z.of_nat (List.length d0))%Z eqn:L1; [discriminate|].
    destruct (match u_sha256 u with Some h => beq (sha256hex (u_wire u)) h | None => true end) eqn:S; cbn [negb] in H; [|discriminate].
    destruct (match u_md5 u with Some m => negb (beq (md5b64 d0) m) | None => false end) eqn:M; [discriminate|].
    destruct (match u_cksum u with Some (a, v) => negb (beq (cksum a d0) v) | None => false end) eqn:C; [discriminate|].
    destruct (Z.of_nat (List.length d0) <? u_declared u)%Z eqn:L2; [discriminate|].
    inversion H; subst d0. apply Z.ltb_ge in L1, L2.
    split; [exact D|]. split; [lia|]. split; [|split].
    - intros h Hh. rewrite Hh in S. apply beq_eq. exact S.
    - intros m Hm. rewrite Hm in M. apply negb_false_iff in M. apply beq_eq. exact M.
    - intros a v Hc. rewrite Hc in C. apply negb_false_iff in C. apply beq_eq. exact C.
  Qed.

  Lemma beq_refl : forall a, beq a a = true.
  Proof. induction a as [|x a IH]; cbn; [reflexivity|]. rewrite N.eqb_refl. exact IH. Qed.

  (* and conversely: when everything matches the upload commits exactly the decoded bytes *)
  Lemma commit_complete : forall u d, all_verified u d -> outcome_of u = Committed d.
  Proof.
    intros u d [D [L [S [M C]]]]. unfold upload_outcome. rewrite D.
    assert (L1 : (u_declared u <? Z.of_nat (List.length d))%Z = false) by (apply Z.ltb_ge; lia).
    assert (L2 : (Z.of_nat (List.length d) <? u_declared u)%Z = false) by (apply Z.ltb_ge; lia).
    rewrite L1, L2.
    destruct (u_sha256 u) as [h|]; [rewrite (S h eq_refl), beq_refl|]; cbn [negb];
    (destruct (u_md5 u) as [m|]; [rewrite (M m eq_refl), beq_refl|]); cbn [negb];
    (destruct (u_cksum u) as [[a v]|]; [rewrite (C a v eq_refl), beq_refl|]); reflexivity.
  Qed.

  (* a failed request leaves the key exactly as it was: absent stays absent, old content stays *)
  Lemma failure_preserves : forall u e before, outcome_of u = Failed e ->
    key_after sha256hex md5b64 cksum run_signed run_unsigned before u = before.
  Proof. intros u e before H. unfold key_after. rewrite H. reflexivity. Qed.

  Lemma committed_is_new : forall u d before, outcome_of u = Committed d ->
    key_after sha256hex md5b64 cksum run_signed run_unsigned before u = Some d.
  Proof. intros u d before H. unfold key_after. rewrite H. reflexivity. Qed.
End P.

(* with the signed reader of Model.SignedChunk plugged in: a committed signed upload went through the final chunk with the
   whole signature chain (and trailer) verified *)
Section Signed.
  Variables (sha256 : bytes -> bytes) (hmac256 : bytes -> bytes -> bytes) (hex : bytes -> bytes).
  Variables (key stsPayload stsTrailer seed : bytes).
  Variables (sha256hex : bytes -> bytes) (md5b64 : bytes -> bytes) (cksum : calgo -> bytes -> bytes).
  Variable run_unsigned : trailer_kind -> bytes -> bytes * uerr.
  Definition run_signed_inst (tr : option trailer_kind) (frags : list (bytes * bool)) :=
    run sha256 hmac256 hex key stsPayload stsTrailer tr (init seed) frags [].

  Lemma signed_commit_chain : forall u d,
    upload_outcome sha256hex md5b64 cksum run_signed_inst run_unsigned u = Committed d ->
    (u_mode u = Signed -> exists s', final_accepted sha256 hmac256 hex key stsPayload stsTrailer None s') /\
    (forall k, u_mode u = SignedTrailer k -> exists s', final_accepted sha256 hmac256 hex key stsPayload stsTrailer (Some k) s').
  Proof.
    intros u d H. apply commit_sound in H. destruct H as [D _]. unfold decoded in D. split.
    - intros Hm. rewrite Hm in D. unfold run_signed_inst in D.
      destruct (run sha256 hmac256 hex key stsPayload stsTrailer None (init seed) (u_frags u) []) as [out e] eqn:R.
      destruct e; try discriminate. eapply run_eof_inv. exact R.
    - intros k Hm. rewrite Hm in D. unfold run_signed_inst in D.
      destruct (run sha256 hmac256 hex key stsPayload stsTrailer (Some k) (init seed) (u_frags u) []) as [out e] eqn:R.
      destruct e; try discriminate. eapply run_eof_inv. exact R.
  Qed.
End Signed.
