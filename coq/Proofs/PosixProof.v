From Coq Require Import String Ascii List Arith Bool ZArith Lia.
From VGW Require Import Base.GoStr Model.Walk Model.Paths Model.Posix.
Import ListNotations.
Open Scope string_scope.

Lemma kfind_kput_same k s x : kfind (kput k s x) s = Some x.
Proof.
  induction k as [|[m t] r IH]; cbn.
  - rewrite String.eqb_refl. reflexivity.
  - destruct (String.eqb m s) eqn:E.
    + cbn. rewrite String.eqb_refl. reflexivity.
    + destruct (str_ltb s m); cbn.
      * rewrite String.eqb_refl. reflexivity.
      * rewrite E. exact IH.
Qed.

Definition is_dir_look (l : look) : Prop := exists a k, l = L_node (ND a k).

(* writing a node below an existing directory makes it readable at that path *)
Lemma lookp_setp : forall p t x, p <> [] -> is_dir_look (lookp t (removelast p)) -> lookp (setp t p x) p = L_node x.
Proof.
  induction p as [|s r IH]; intros t x Hne Hd; [congruence|].
  destruct r as [|s2 r2].
  - cbn in Hd. destruct Hd as [a [k E]]. inversion E; subst t. cbn. rewrite kfind_kput_same. destruct (kfind k s); reflexivity.
  - assert (R : removelast (s :: s2 :: r2) = s :: removelast (s2 :: r2)) by reflexivity. rewrite R in Hd.
    destruct Hd as [a [k E]]. cbn [lookp] in E.
    destruct t as [b at_|at_ kt]; [discriminate|].
    destruct (kfind kt s) as [c|] eqn:F; [|discriminate].
    cbn [setp]. rewrite F. cbn [lookp]. rewrite kfind_kput_same.
    apply IH; [discriminate|]. exists a, k. exact E.
Qed.

(* setting a node below a bucket keeps the bucket a directory *)
Lemma bucket_ok_setp : forall root b r x, bucket_ok root b = true -> r <> [] -> bucket_ok (setp root (b :: r) x) b = true.
Proof.
  intros root b r x H Hr. unfold bucket_ok in *. cbn [lookp] in *.
  destruct root as [bl a|a k]; [discriminate|].
  destruct (kfind k b) as [c|] eqn:F; [|discriminate].
  cbn [setp]. rewrite F. rewrite kfind_kput_same.
  destruct r as [|s r']; [congruence|].
  destruct c as [bl' a'|a' k']; [cbn in H; discriminate|]. cbn. reflexivity.
Qed.

(* MkdirAll succeeded: the path is a directory afterwards *)
Lemma mkdir_all_dir : forall fuel t p t1, mkdir_all fuel t p = Some t1 -> is_dir_look (lookp t1 p).
Proof.
  induction fuel as [|f IH]; intros t p t1 H; [discriminate|]. cbn [mkdir_all] in H.
  destruct (lookp t p) as [[bl a|a k]| |] eqn:L.
  - discriminate.
  - inversion H; subst. rewrite L. eexists; eexists; reflexivity.
  - destruct p as [|s r]; [cbn in L; discriminate|].
    destruct (mkdir_all f t (removelast (s :: r))) as [t'|] eqn:M; [|discriminate].
    assert (E1 : t1 = setp t' (s :: r) (ND [] [])) by congruence. rewrite E1.
    rewrite lookp_setp; [eexists; eexists; reflexivity|discriminate|eapply IH; exact M].
  - destruct p as [|s r]; [cbn in L; discriminate|].
    destruct (mkdir_all f t (removelast (s :: r))) as [t'|] eqn:M; [|discriminate].
    assert (E1 : t1 = setp t' (s :: r) (ND [] [])) by congruence. rewrite E1.
    rewrite lookp_setp; [eexists; eexists; reflexivity|discriminate|eapply IH; exact M].
Qed.

(* the user metadata read back from the attribute list written by PutObject is the supplied metadata (sorted by key) *)
Lemma drop_meta_prefix k : drop 11 ("X-Amz-Meta." ++ k) = k.
Proof. reflexivity. Qed.
Lemma is_meta_prefix k : is_meta ("X-Amz-Meta." ++ k) = true.
Proof. unfold is_meta. cbn. destruct k; reflexivity. Qed.

Lemma filter_meta_attrs meta : filter (fun kv => is_meta (fst kv)) (meta_attrs meta) = meta_attrs meta.
Proof.
  unfold meta_attrs. induction meta as [|[k v] r IH]; [reflexivity|].
  cbn [map filter fst snd]. rewrite is_meta_prefix. f_equal. exact IH.
Qed.

Lemma strip_meta_attrs meta : map (fun kv => (drop 11 (fst kv), snd kv)) (meta_attrs meta) = meta.
Proof.
  unfold meta_attrs. induction meta as [|[k v] r IH]; [reflexivity|].
  cbn [map fst snd]. rewrite drop_meta_prefix. f_equal. exact IH.
Qed.

Lemma user_meta_of_put blob ctype meta :
  user_meta (("etag", etag_of blob) :: (if String.eqb ctype "" then [] else [("content-type", ctype)]) ++ meta_attrs meta) = sort_attrs meta.
Proof.
  unfold user_meta. f_equal.
  assert (E : filter (fun kv => is_meta (fst kv)) (("etag", etag_of blob) :: (if String.eqb ctype "" then [] else [("content-type", ctype)]) ++ meta_attrs meta)
              = meta_attrs meta).
  { cbn [filter fst]. change (is_meta "etag") with false. cbv iota.
    destruct (String.eqb ctype ""); cbn [app filter fst].
    - apply filter_meta_attrs.
    - change (is_meta "content-type") with false. cbv iota. apply filter_meta_attrs. }
  rewrite E. apply strip_meta_attrs.
Qed.

Lemma lookp_through_bucket : forall t b s r x, lookp t (b :: s :: r) = L_node x -> bucket_ok t b = true.
Proof.
  intros t b s r x H. unfold bucket_ok. cbn [lookp] in *.
  destruct t as [bl a|a k]; [discriminate|].
  destruct (kfind k b) as [c|]; [|discriminate].
  destruct c as [bl' a'|a' k']; [discriminate|]. reflexivity.
Qed.

Lemma aget_meta_attrs_ctype meta : aget (meta_attrs meta) "content-type" = None.
Proof. induction meta as [|[k v] r IH]; cbn; [reflexivity|exact IH]. Qed.
Lemma aget_meta_attrs_etag meta : aget (meta_attrs meta) "etag" = None.
Proof. induction meta as [|[k v] r IH]; cbn; [reflexivity|exact IH]. Qed.

(* what GetObject answers for a file node written by PutObject *)
Lemma get_of_put_node : forall root' b key blob ctype meta,
  ends_slash key = false -> valid_object_name key = true -> segs key <> [] ->
  lookp root' (b :: segs key) = L_node (NF blob (("etag", etag_of blob) :: (if String.eqb ctype "" then [] else [("content-type", ctype)]) ++ meta_attrs meta)) ->
  snd (step root' (GetObject b key)) =
    O_get (Some blob) (etag_of blob) (if String.eqb ctype "" then "binary/octet-stream" else ctype) (sort_attrs meta).
Proof.
  intros root' b key blob ctype meta Hs V Hseg L. cbn [step]. rewrite V. cbn [negb].
  destruct (segs key) as [|s r] eqn:S; [congruence|].
  rewrite (lookp_through_bucket _ _ _ _ _ L). cbn [negb]. rewrite L, Hs. cbn [snd].
  rewrite user_meta_of_put.
  assert (Ect : match aget (("etag", etag_of blob) :: (if String.eqb ctype "" then [] else [("content-type", ctype)]) ++ meta_attrs meta) "content-type"
                with Some c => c | None => "binary/octet-stream" end = (if String.eqb ctype "" then "binary/octet-stream" else ctype)).
  { cbn [aget]. change (String.eqb "etag" "content-type") with false. cbv iota.
    destruct (String.eqb ctype "") eqn:E; cbn [app aget].
    - rewrite aget_meta_attrs_ctype. reflexivity.
    - rewrite String.eqb_refl. reflexivity. }
  rewrite Ect. cbn [aget]. rewrite String.eqb_refl. reflexivity.
Qed.
Lemma bucket_ok_dir root b : bucket_ok root b = true -> exists a k, lookp root [b] = L_node (ND a k).
Proof. unfold bucket_ok. destruct (lookp root [b]) as [[?|a k]| |]; try discriminate. eauto. Qed.

(* C01, model level: an acknowledged PutObject of a (non directory) key is read back by GetObject with exactly the uploaded
   blob, its ETag, the supplied content type (or the default) and the supplied user metadata — whatever the tree looked like
   before (new key, overwrite, any depth of implied directories) *)
Theorem put_then_get : forall root b key blob len ctype meta root',
  ends_slash key = false ->
  step root (PutObject b key blob len ctype meta) = (root', O_ok) ->
  snd (step root' (GetObject b key)) =
    O_get (Some blob) (etag_of blob) (if String.eqb ctype "" then "binary/octet-stream" else ctype) (sort_attrs meta).
Proof.
  intros root b key blob len ctype meta root' Hs H. cbn [step] in H.
  destruct (valid_object_name key) eqn:V; cbn [negb] in H; [|inversion H].
  destruct (bucket_ok root b) eqn:B; cbn [negb] in H; [|inversion H].
  rewrite Hs in H.
  destruct (bucket_ok_dir _ _ B) as [ab [kb Lb]].
  assert (Main : forall r1,
     mkdir_all (S (List.length (b :: segs key)))
        (match lookp root [b; ".sgwtmp"] with L_noent => setp root [b; ".sgwtmp"] (ND [] []) | _ => root end)
        (removelast (b :: segs key)) = Some r1 ->
     segs key <> [] ->
     snd (step (setp r1 (b :: segs key) (NF blob (("etag", etag_of blob) :: (if String.eqb ctype "" then [] else [("content-type", ctype)]) ++ meta_attrs meta))) (GetObject b key)) =
       O_get (Some blob) (etag_of blob) (if String.eqb ctype "" then "binary/octet-stream" else ctype) (sort_attrs meta)).
  { intros r1 M Hseg. apply get_of_put_node; try assumption.
    apply lookp_setp; [discriminate|]. eapply mkdir_all_dir. exact M. }
  destruct (lookp root (b :: segs key)) as [[bl a|a k]| |] eqn:L.
  - assert (Hseg : segs key <> []) by (intros E; rewrite E in L; rewrite Lb in L; discriminate).
    match type of H with context [mkdir_all ?f ?t ?q] => destruct (mkdir_all f t q) as [r1|] eqn:M end; [|inversion H].
    inversion H; subst root'. apply Main; [reflexivity|exact Hseg].
  - inversion H.
  - assert (Hseg : segs key <> []) by (intros E; rewrite E in L; rewrite Lb in L; discriminate).
    match type of H with context [mkdir_all ?f ?t ?q] => destruct (mkdir_all f t q) as [r1|] eqn:M end; [|inversion H].
    inversion H; subst root'. apply Main; [reflexivity|exact Hseg].
  - inversion H.
Qed.

(* ---------- directory objects *)
Lemma lookp_parent : forall p t x, p <> [] -> lookp t p = L_node x -> is_dir_look (lookp t (removelast p)).
Proof.
  induction p as [|s r IH]; intros t x Hne H; [congruence|].
  destruct t as [bl a|a k]; [cbn in H; discriminate|].
  destruct r as [|s2 r2].
  - cbn. exists a, k. reflexivity.
  - assert (R : removelast (s :: s2 :: r2) = s :: removelast (s2 :: r2)) by reflexivity. rewrite R.
    cbn [lookp] in *. destruct (kfind k s) as [c|]; [|discriminate]. apply (IH c x); [discriminate|exact H].
Qed.

Lemma adel_in : forall l k kv, In kv (adel l k) -> In kv l.
Proof.
  induction l as [|[j v] l IH]; intros k kv H; [exact H|]. cbn [adel] in H.
  destruct (String.eqb j k); [right; apply (IH k); exact H|].
  destruct H as [H|H]; [left; exact H|right; apply (IH k); exact H].
Qed.

Lemma filter_nil_in {A} (f : A -> bool) l : (forall x, In x l -> f x = false) -> filter f l = [].
Proof. induction l as [|x l IH]; intros H; cbn [filter]; [reflexivity|]. rewrite (H x (or_introl eq_refl)). apply IH. intros y Hy. apply H. right. exact Hy. Qed.

Definition dir_attrs (meta a : attrs) : attrs :=
  ("content-type", "application/x-directory") :: ("etag", emptyMD5) ::
  (meta_attrs meta ++ adel (adel (filter (fun kv => negb (is_meta (fst kv))) a) "etag") "content-type").

Lemma user_meta_of_dir_put meta a : user_meta (dir_attrs meta a) = sort_attrs meta.
Proof.
  unfold user_meta, dir_attrs. f_equal. cbn [filter fst].
  change (is_meta "content-type") with false. change (is_meta "etag") with false. cbv iota.
  rewrite filter_app, filter_meta_attrs, filter_nil_in.
  - rewrite app_nil_r. apply strip_meta_attrs.
  - intros kv H. apply adel_in in H. apply adel_in in H. apply filter_In in H. destruct H as [_ H]. apply negb_true_iff in H. exact H.
Qed.

(* C01 for directory objects: an acknowledged PutObject of a key ending in "/" is read back as the empty object with the
   directory content type, the ETag of the empty payload and exactly the supplied user metadata — also when it replaces an
   earlier upload of the same directory object, whatever that one's metadata were *)
Theorem put_dir_then_get : forall root b key blob len ctype meta root',
  ends_slash key = true -> segs key <> [] ->
  step root (PutObject b key blob len ctype meta) = (root', O_ok) ->
  snd (step root' (GetObject b key)) = O_get None emptyMD5 "application/x-directory" (sort_attrs meta).
Proof.
  intros root b key blob len ctype meta root' Hs Hseg H. cbn [step] in H.
  destruct (valid_object_name key) eqn:V; cbn [negb] in H; [|inversion H].
  destruct (bucket_ok root b) eqn:B; cbn [negb] in H; [|inversion H].
  rewrite Hs in H. destruct (negb (Nat.eqb len 0)); [inversion H|].
  match type of H with context [mkdir_all ?f ?t ?q] => destruct (mkdir_all f t q) as [r1|] eqn:M end; [|inversion H].
  destruct (lookp r1 (b :: segs key)) as [[bl a|a k]| |] eqn:L; try (inversion H; fail).
  assert (ER : root' = setp r1 (b :: segs key) (ND (dir_attrs meta a) k)) by (inversion H; reflexivity). clear H. subst root'.
  assert (L' : lookp (setp r1 (b :: segs key) (ND (dir_attrs meta a) k)) (b :: segs key) = L_node (ND (dir_attrs meta a) k)).
  { apply lookp_setp; [discriminate|]. eapply lookp_parent; [discriminate|exact L]. }
  assert (B' : bucket_ok (setp r1 (b :: segs key) (ND (dir_attrs meta a) k)) b = true).
  { destruct (segs key) as [|s r] eqn:S; [congruence|]. apply (lookp_through_bucket _ _ _ _ _ L'). }
  revert L' B'. generalize (setp r1 (b :: segs key) (ND (dir_attrs meta a) k)) as R. intros R L' B'.
  cbn [step]. rewrite V. cbn [negb]. rewrite B'. cbn [negb]. rewrite L', Hs. cbn [snd].
  rewrite user_meta_of_dir_put. reflexivity.
Qed.
