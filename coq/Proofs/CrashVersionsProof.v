From Coq Require Import List Arith Bool Lia.
From VGW Require Import Model.CrashVersions.
Import ListNotations.

(* wherever the delete is killed, the version it was about to hide is still shown with its data, and the key reads as before the
   delete (the previous state) or as deleted (the new state) *)
Theorem delete_keeps_version : forall s fresh k,
  c_marker (current s) = false -> fresh <> c_vid (current s) ->
  let s' := run_killed (delete_steps fresh) s k in
  In (c_vid (current s), c_data (current s)) (shown s') /\
  (reads s' = Some (c_data (current s)) \/ reads s' = None).
Proof.
  intros s fresh k Hm Hf. destruct s as [[d v m] a]. cbn in Hm, Hf. subst m.
  assert (Hne : Nat.eqb v fresh = false) by (apply Nat.eqb_neq; intros E; apply Hf; symmetry; exact E).
  unfold run_killed, delete_steps.
  destruct k as [|[|[|k]]]; cbn [firstn fold_left do_vstep current archive c_data c_vid c_marker shown reads app filter fst negb].
  - split; [left; reflexivity|left; reflexivity].
  - split; [left; reflexivity|left; reflexivity].
  - split; [left; reflexivity|left; reflexivity].
  - assert (E : firstn k (@nil vstep) = []) by (destruct k; reflexivity). rewrite E. cbn [fold_left shown reads current c_marker c_vid c_data archive app filter fst].
    rewrite Hne. cbn [negb]. split; [left; reflexivity|right; reflexivity].
Qed.

(* nothing else changes: every version shown before is shown afterwards, whatever the kill point, provided its id is not the fresh one *)
Theorem delete_keeps_other_versions : forall s fresh k e,
  c_marker (current s) = false -> fresh <> c_vid (current s) -> fst e <> fresh ->
  In e (shown s) -> In e (shown (run_killed (delete_steps fresh) s k)).
Proof.
  intros s fresh k e Hm Hf He Hin. destruct s as [[d v m] a]. cbn in Hm, Hf. subst m.
  assert (Hne : Nat.eqb v fresh = false) by (apply Nat.eqb_neq; intros E; apply Hf; symmetry; exact E).
  unfold shown in Hin. cbn [current c_marker c_vid c_data archive app] in Hin.
  assert (Hcases : e = (v, d) \/ (In e a /\ Nat.eqb (fst e) v = false)).
  { destruct Hin as [Hin|Hin]; [left; symmetry; exact Hin|right]. apply filter_In in Hin. destruct Hin as [H1 H2]. apply negb_true_iff in H2. tauto. }
  assert (Hef : Nat.eqb (fst e) fresh = false) by (apply Nat.eqb_neq; exact He).
  unfold run_killed, delete_steps.
  assert (Hfin : forall cur_shown : bool, (* after V_set_vid the archive holds (v,d) and all of a; ids other than fresh pass the filter *)
     In e ((if cur_shown then [(fresh, d)] else []) ++ filter (fun x => negb (Nat.eqb (fst x) fresh)) ((v, d) :: a))).
  { intros cs. apply in_or_app. right. apply filter_In. split; [|rewrite Hef; reflexivity].
    destruct Hcases as [E|[H1 _]]; [left; symmetry; exact E|right; exact H1]. }
  destruct k as [|[|[|k]]]; cbn [firstn fold_left do_vstep current archive c_data c_vid c_marker shown app fst].
  - unfold shown. cbn [current c_marker c_vid c_data archive app]. exact Hin.
  - destruct Hcases as [E|[H1 H2]]; [left; symmetry; exact E|]. right. cbn [filter fst]. rewrite Nat.eqb_refl. cbn [negb].
    apply filter_In. split; [exact H1|rewrite H2; reflexivity].
  - (* archived and the marker prepared, not published: as after the first step *)
    destruct Hcases as [E|[H1 H2]]; [left; symmetry; exact E|]. right. cbn [filter fst]. rewrite Nat.eqb_refl. cbn [negb].
    apply filter_In. split; [exact H1|rewrite H2; reflexivity].
  - assert (E : firstn k (@nil vstep) = []) by (destruct k; reflexivity). rewrite E. cbn [fold_left shown current c_marker c_vid c_data archive app].
    apply (Hfin false).
Qed.

(* the two earlier forms of the code. Id first, flag second (in place): still never loses the version in a bucket with versioning
   enabled - but with versioning suspended the id attribute was removed after the flag was set, which is the flag-first order *)
Theorem inplace_order_keeps_version : forall s fresh k,
  c_marker (current s) = false -> fresh <> c_vid (current s) ->
  In (c_vid (current s), c_data (current s)) (shown (run_killed (delete_steps_inplace fresh) s k)).
Proof.
  intros s fresh k Hm Hf. destruct s as [[d v m] a]. cbn in Hm, Hf. subst m.
  assert (Hne : Nat.eqb v fresh = false) by (apply Nat.eqb_neq; intros E; apply Hf; symmetry; exact E).
  unfold run_killed, delete_steps_inplace.
  destruct k as [|[|[|k]]]; cbn [firstn fold_left do_vstep current archive c_data c_vid c_marker shown reads app filter fst negb].
  - left; reflexivity.
  - left; reflexivity.
  - rewrite Hne. cbn [negb]. right; left; reflexivity.
  - assert (E : firstn k (@nil vstep) = []) by (destruct k; reflexivity). rewrite E. cbn [fold_left shown reads current c_marker c_vid c_data archive app filter fst].
    rewrite Hne. cbn [negb]. left; reflexivity.
Qed.

(* the order before the repair: killed after two steps, the version is gone from what the API shows *)
Theorem old_order_loses_version :
  let s := {| current := {| c_data := 7; c_vid := 1; c_marker := false |}; archive := [] |} in
  ~ In (1, 7) (shown (run_killed (delete_steps_old 2) s 2)) /\ reads (run_killed (delete_steps_old 2) s 2) = None.
Proof. cbn. split; [intros []|reflexivity]. Qed.

(* with the marker renamed into place there is no state in between: wherever the delete is killed the key shows exactly what it
   showed before, or exactly the new state (the version it had, now archived, and every other version whose id is not the marker's) *)
Theorem delete_atomic : forall s fresh k,
  c_marker (current s) = false -> fresh <> c_vid (current s) ->
  let s' := run_killed (delete_steps fresh) s k in
  (shown s' = shown s /\ reads s' = reads s) \/
  (shown s' = (c_vid (current s), c_data (current s)) :: filter (fun e => negb (Nat.eqb (fst e) fresh)) (archive s) /\ reads s' = None).
Proof.
  intros s fresh k Hm Hf. destruct s as [[d v m] a]. cbn in Hm, Hf. subst m.
  assert (Hne : Nat.eqb v fresh = false) by (apply Nat.eqb_neq; intros E; apply Hf; symmetry; exact E).
  unfold run_killed, delete_steps.
  destruct k as [|[|[|k]]]; cbn [firstn fold_left do_vstep current archive c_data c_vid c_marker shown reads app filter fst negb].
  - left. split; reflexivity.
  - left. rewrite Nat.eqb_refl. cbn [negb]. split; reflexivity.
  - left. rewrite Nat.eqb_refl. cbn [negb]. split; reflexivity.
  - assert (E : firstn k (@nil vstep) = []) by (destruct k; reflexivity). rewrite E. cbn [fold_left shown reads current c_marker c_vid c_data archive app filter fst].
    rewrite Hne. cbn [negb]. right. split; reflexivity.
Qed.
