From Coq Require Import String Ascii List Bool Arith Lia.
From VGW Require Import Base.GoStr Base.GoStrFacts Model.Json Model.Glob Spec.GlobSpec Proofs.GlobProof Model.Policy Spec.PolicySpec.
Import ListNotations.
Open Scope string_scope.

Lemma existsb_eqb_In x l : existsb (String.eqb x) l = true <-> In x l.
Proof.
  rewrite existsb_exists. split.
  - intros [y [Hy E]]. apply String.eqb_eq in E. subst. exact Hy.
  - intros H. exists x. split; [exact H|apply String.eqb_refl].
Qed.

Lemma principal_match_spec ps who : principal_match ps who = true <-> principal_matches ps who.
Proof. unfold principal_match, principal_matches. rewrite orb_true_iff, !existsb_eqb_In. tauto. Qed.

Lemma resource_match_spec rs r : resource_match rs r = true <-> resource_matches rs r.
Proof.
  unfold resource_match, resource_matches, glob_match. rewrite existsb_exists. split.
  - intros [p [Hp M]]. exists p. split; [exact Hp|]. apply glob_correct. exact M.
  - intros [p [Hp G]]. exists p. split; [exact Hp|]. apply glob_correct. exact G.
Qed.

(* take/drop facts for the trailing-star prefix *)
Lemma take_app_length a b : take (String.length a) (a ++ b) = a.
Proof. induction a; cbn; [destruct b; reflexivity|congruence]. Qed.

Lemma length_append a b : String.length (a ++ b) = String.length a + String.length b.
Proof. induction a; cbn; congruence. Qed.

Lemma drop_app_length a b : drop (String.length a) (a ++ b) = b.
Proof. induction a; cbn; auto. Qed.

Lemma take_drop s n : take n s ++ drop n s = s.
Proof. revert n; induction s as [|c s IH]; intros [|n]; cbn; try reflexivity. rewrite IH. reflexivity. Qed.

Lemma take_length_le s n : n <= String.length s -> String.length (take n s) = n.
Proof. revert n; induction s as [|c s IH]; intros [|n] H; cbn in *; try lia. rewrite IH; lia. Qed.

Lemma ends_star_chop x : ends_star x = true <-> x = chop x ++ "*".
Proof.
  unfold ends_star, has_suffix, chop. cbn [String.length]. split.
  - intros H. apply andb_true_iff in H. destruct H as [L E]. apply String.eqb_eq in E.
    pose proof (take_drop x (String.length x - 1)) as TD. rewrite E in TD. symmetry. exact TD.
  - intros E. apply andb_true_iff. assert (L : 1 <= String.length x).
    { rewrite E, length_append. cbn. lia. }
    split; [apply Nat.leb_le; exact L|]. apply String.eqb_eq.
    remember (take (String.length x - 1) x) as pre eqn:Hpre.
    assert (Lp : String.length pre = String.length x - 1) by (subst pre; apply take_length_le; lia).
    rewrite <- Lp. rewrite E. apply drop_app_length.
Qed.

Lemma chop_app_star pre : chop (pre ++ "*") = pre.
Proof. unfold chop. rewrite length_append. cbn. replace (String.length pre + 1 - 1) with (String.length pre) by lia. apply take_app_length. Qed.

Lemma action_match_spec acts a : action_match acts a = true <-> action_matches acts a.
Proof.
  unfold action_match, action_matches. rewrite !orb_true_iff, !existsb_eqb_In, existsb_exists. split.
  - intros [[H|H]|[x [Hx M]]]; auto. right; right. apply andb_true_iff in M. destruct M as [E P].
    exists x, (chop x). split; [exact Hx|]. split; [apply ends_star_chop; exact E|exact P].
  - intros [H|[H|[x [pre [Hx [E P]]]]]]; auto. right. exists x. split; [exact Hx|]. subst x.
    rewrite chop_app_star. apply andb_true_iff. split; [|exact P]. apply ends_star_chop. rewrite chop_app_star. reflexivity.
Qed.

Lemma stmt_match_spec s who act r : stmt_match s who act r = true <-> stmt_matches s who act r.
Proof.
  unfold stmt_match, stmt_matches. rewrite !andb_true_iff, principal_match_spec, action_match_spec, resource_match_spec. tauto.
Qed.

(* the evaluation loop: result = (acc or some later Allow matched) and no Deny matched *)
Lemma is_allowed_from_spec l who act r : forall acc,
  is_allowed_from l who act r acc = true <->
  (acc = true \/ exists s, In s l /\ effect s = "Allow" /\ stmt_matches s who act r) /\
  ~ (exists s, In s l /\ effect s = "Deny" /\ stmt_matches s who act r).
Proof.
  induction l as [|s l IH]; intros acc; cbn [is_allowed_from].
  - split.
    + intros H. split; [left; exact H|]. intros [s [[] _]].
    + intros [[H|[s [[] _]]] _]. exact H.
  - destruct (stmt_match s who act r) eqn:M.
    + apply stmt_match_spec in M. destruct (String.eqb (effect s) "Allow") eqn:EA.
      * apply String.eqb_eq in EA. rewrite IH. split.
        -- intros [_ ND]. split.
           ++ right. exists s. split; [left; reflexivity|]. auto.
           ++ intros [s' [[E|I] [D MM]]]; [subst s'; rewrite EA in D; discriminate|]. apply ND. exists s'. auto.
        -- intros [_ ND]. split; [left; reflexivity|]. intros [s' [I [D MM]]]. apply ND. exists s'. split; [right; exact I|auto].
      * destruct (String.eqb (effect s) "Deny") eqn:ED.
        -- apply String.eqb_eq in ED. split; [discriminate|]. intros [_ ND]. exfalso. apply ND. exists s. split; [left; reflexivity|auto].
        -- apply String.eqb_neq in EA, ED. rewrite IH. split.
           ++ intros [[H|[s' [I [A MM]]]] ND]; (split; [|intros [s'' [[E|I'] [D MM']]]; [subst s''; congruence|apply ND; exists s''; auto]]).
              ** left; exact H.
              ** right. exists s'. split; [right; exact I|auto].
           ++ intros [[H|[s' [[E|I] [A MM]]]] ND]; (split; [|intros [s'' [I' [D MM']]]; apply ND; exists s''; split; [right; exact I'|auto]]).
              ** left; exact H.
              ** subst s'. congruence.
              ** right. exists s'. auto.
    + assert (NM : ~ stmt_matches s who act r) by (intros H; apply stmt_match_spec in H; congruence).
      rewrite IH. split.
      * intros [[H|[s' [I [A MM]]]] ND]; (split; [|intros [s'' [[E|I'] [D MM']]]; [subst s''; tauto|apply ND; exists s''; auto]]).
        -- left; exact H.
        -- right. exists s'. split; [right; exact I|auto].
      * intros [[H|[s' [[E|I] [A MM]]]] ND]; (split; [|intros [s'' [I' [D MM']]]; apply ND; exists s''; split; [right; exact I'|auto]]).
        -- left; exact H.
        -- subst s'. tauto.
        -- right. exists s'. auto.
Qed.

Lemma deny_overrides l who act r : is_allowed l who act r = true <-> allowed l who act r.
Proof.
  unfold is_allowed, allowed. rewrite is_allowed_from_spec. split.
  - intros [[H|H] ND]; [discriminate|auto].
  - intros [H ND]. auto.
Qed.

(* validation *)
Lemma forallb_eqb_star ps : forallb (String.eqb "*") ps = true <-> (forall p, In p ps -> p = "*").
Proof.
  rewrite forallb_forall. split; intros H p Hp; specialize (H p Hp).
  - apply String.eqb_eq in H. auto.
  - subst. reflexivity.
Qed.

Lemma principals_valid_spec accounts ps : principals_valid accounts ps = true <->
  ps <> [] /\ ((forall p, In p ps -> p = "*") \/ (forall p, In p ps -> p <> "*" /\ In p accounts)).
Proof.
  unfold principals_valid. destruct ps as [|p0 ps']; [split; [discriminate|intros [H _]; congruence]|].
  set (ps := p0 :: ps'). destruct (existsb (String.eqb "*") ps) eqn:E.
  - rewrite forallb_eqb_star. split.
    + intros H. split; [discriminate|left; exact H].
    + intros [_ [H|H]]; [exact H|]. apply existsb_eqb_In in E. destruct (H _ E) as [N _]. congruence.
  - assert (NS : ~ In "*" ps) by (intros H; apply existsb_eqb_In in H; congruence).
    rewrite forallb_forall. split.
    + intros H. split; [discriminate|]. right. intros p Hp. split; [intros ->; tauto|]. apply existsb_eqb_In. apply H. exact Hp.
    + intros [_ [H|H]] p Hp.
      * exfalso. apply NS. rewrite <- (H p Hp). exact Hp.
      * apply existsb_eqb_In. apply H. exact Hp.
Qed.

Lemma stmt_validate_spec accounts bucket s : stmt_validate accounts bucket s = None <-> wf_stmt accounts bucket s.
Proof.
  unfold stmt_validate, wf_stmt.
  destruct (String.eqb (effect s) "Allow" || String.eqb (effect s) "Deny") eqn:E; cbn [negb].
  2:{ split; [discriminate|]. intros [[H|H] _]; rewrite H in E; cbn in E; discriminate. }
  assert (HE : effect s = "Allow" \/ effect s = "Deny").
  { apply orb_true_iff in E. destruct E as [E|E]; apply String.eqb_eq in E; auto. }
  destruct (principals_valid accounts (princ s)) eqn:P; cbn [negb].
  2:{ split; [discriminate|]. intros [_ [H1 [H2 _]]]. assert (X : principals_valid accounts (princ s) = true) by (apply principals_valid_spec; auto). congruence. }
  apply principals_valid_spec in P. destruct P as [P1 P2].
  destruct (ress s) as [|r0 rs'] eqn:R.
  { split; [discriminate|]. intros [_ [_ [_ [H _]]]]. congruence. }
  rewrite <- R.
  destruct (forallb (names_bucket bucket) (ress s)) eqn:N; cbn [negb].
  2:{ split; [discriminate|]. intros [_ [_ [_ [_ [H _]]]]]. assert (X : forallb (names_bucket bucket) (ress s) = true) by (apply forallb_forall; exact H). congruence. }
  rewrite forallb_forall in N.
  destruct (acts s) as [|a0 as'] eqn:A.
  { split; [discriminate|]. intros [_ [_ [_ [_ [_ [H _]]]]]]. congruence. }
  rewrite <- A.
  destruct (forallb (action_kind_ok (ress s)) (acts s)) eqn:K; cbn [negb].
  - rewrite forallb_forall in K. split; [|reflexivity]. intros _.
    repeat split; auto; try (rewrite R; discriminate); try (rewrite A; discriminate).
  - split; [discriminate|]. intros [_ [_ [_ [_ [_ [_ H]]]]]].
    assert (X : forallb (action_kind_ok (ress s)) (acts s) = true) by (apply forallb_forall; exact H). congruence.
Qed.

Lemma validate_all_spec accounts bucket l : validate_all accounts bucket l = None <-> Forall (wf_stmt accounts bucket) l.
Proof.
  induction l as [|s l IH]; cbn.
  - split; [constructor|reflexivity].
  - destruct (stmt_validate accounts bucket s) eqn:V.
    + split; [discriminate|]. intros H. inversion H; subst. apply stmt_validate_spec in H2. congruence.
    + apply stmt_validate_spec in V. rewrite IH. split; [intros H; constructor; assumption|intros H; inversion H; assumption].
Qed.

Lemma validate_spec accounts j bucket : validate accounts true j bucket = None <->
  exists l, parse_policy j = Ok l /\ l <> [] /\ Forall (wf_stmt accounts bucket) l.
Proof.
  unfold validate. cbn [negb]. destruct (parse_policy j) as [l|e].
  - destruct l as [|s l].
    + split; [discriminate|]. intros [l' [E [N _]]]. inversion E; subst. congruence.
    + rewrite validate_all_spec. split.
      * intros H. exists (s :: l). repeat split; [discriminate|exact H].
      * intros [l' [E [_ H]]]. inversion E; subst. exact H.
  - split; [discriminate|]. intros [l' [E _]]. discriminate.
Qed.

Lemma validate_first_byte accounts j bucket : validate accounts false j bucket = Some InvalidJson.
Proof. reflexivity. Qed.
