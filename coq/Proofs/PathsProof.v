From Coq Require Import String Ascii List Bool Arith Lia.
From VGW Require Import Base.GoStr Model.Paths.
Import ListNotations.
Open Scope string_scope.

Definition plain (s : string) : Prop := s <> "" /\ s <> "." /\ s <> "..".

Lemma clean_rev_plain : forall l acc up, Forall plain l -> clean_rev l acc up = (rev l ++ acc, up)%list.
Proof.
  induction l as [|s r IH]; intros acc up H; [reflexivity|].
  inversion H as [|? ? [N1 [N2 N3]] Hr]; subst. cbn [clean_rev].
  destruct (String.eqb s "") eqn:E1; [apply String.eqb_eq in E1; congruence|].
  destruct (String.eqb s ".") eqn:E2; [apply String.eqb_eq in E2; congruence|]. cbn [orb].
  destruct (String.eqb s "..") eqn:E3; [apply String.eqb_eq in E3; congruence|].
  rewrite IH by exact Hr. cbn [rev]. rewrite <- app_assoc. reflexivity.
Qed.

(* the elements of a valid name, minus a trailing empty one, are all plain *)
Lemma segs_ok_plain : forall l, segs_ok l = true -> Forall plain (filter (fun s => negb (String.eqb s "")) l).
Proof.
  induction l as [|s r IH]; intros H; [constructor|].
  destruct r as [|s2 r2].
  - cbn in H. cbn [filter]. destruct (String.eqb s "") eqn:E; cbn [negb]; [constructor|].
    constructor; [|constructor]. apply String.eqb_neq in E. unfold is_dot_seg in H. apply negb_true_iff, orb_false_iff in H.
    destruct H as [H1 H2]. apply String.eqb_neq in H1, H2. repeat split; assumption.
  - cbn [segs_ok] in H. apply andb_true_iff in H. destruct H as [H H3]. apply andb_true_iff in H. destruct H as [H1 H2].
    cbn [filter]. rewrite H2. constructor; [|apply IH; exact H3].
    apply negb_true_iff in H2. apply String.eqb_neq in H2. unfold is_dot_seg in H1. apply negb_true_iff, orb_false_iff in H1.
    destruct H1 as [A B]. apply String.eqb_neq in A, B. repeat split; assumption.
Qed.

Lemma clean_rev_skip_empty : forall l acc up, clean_rev l acc up = clean_rev (filter (fun s => negb (String.eqb s "")) l) acc up.
Proof.
  induction l as [|s r IH]; intros acc up; [reflexivity|]. cbn [clean_rev filter].
  destruct (String.eqb s "") eqn:E; cbn [negb orb]; [apply IH|].
  cbn [clean_rev]. rewrite E. cbn [orb].
  destruct (String.eqb s "."); [apply IH|]. destruct (String.eqb s ".."); [destruct acc; apply IH|apply IH].
Qed.

(* a valid name under a plain bucket element is joined verbatim: the resulting path is the bucket followed by exactly the
   key's own elements, nothing is resolved, and the path never leaves the directory it is relative to *)
Theorem valid_name_confined : forall bucket key, plain bucket -> valid_object_name key = true ->
  join_bucket_key bucket key = (bucket :: key_elems key, O).
Proof.
  intros bucket key Hb Hk. unfold valid_object_name in Hk. cbv zeta in Hk. apply andb_true_iff in Hk. destruct Hk as [Hk _].
  unfold join_bucket_key, clean_rel, key_elems in *.
  rewrite clean_rev_skip_empty. cbn [filter].
  destruct Hb as [B1 [B2 B3]]. destruct (String.eqb bucket "") eqn:E; [apply String.eqb_eq in E; congruence|]. cbn [negb].
  rewrite clean_rev_plain.
  - rewrite app_nil_r, rev_involutive. reflexivity.
  - constructor; [repeat split; assumption|]. apply segs_ok_plain. exact Hk.
Qed.

(* names with a "." or ".." element are refused *)
Theorem dot_segments_refused : forall key, existsb is_dot_seg (split_char "/" key) = true -> valid_object_name key = false.
Proof.
  intros key. unfold valid_object_name. cbv zeta. intros H0.
  assert (H : segs_ok (split_char "/" key) = false); [|rewrite H; reflexivity].
  revert H0. generalize (split_char "/" key) as l.
  induction l as [|s r IH]; intros H; [discriminate|].
  cbn [existsb] in H. destruct r as [|s2 r2].
  - cbn in H. rewrite orb_false_r in H. cbn. rewrite H. reflexivity.
  - change (segs_ok (s :: s2 :: r2)) with (negb (is_dot_seg s) && negb (String.eqb s "") && segs_ok (s2 :: r2)).
    destruct (is_dot_seg s) eqn:D; [reflexivity|]. cbn [orb] in H.
    rewrite (IH H). apply andb_false_r.
Qed.

(* opaque identifiers are single path elements *)
Theorem opaque_id_is_plain_or_empty : forall id, valid_opaque_id id = true -> id = "" \/ (plain id /\ has_char "/" id = false).
Proof.
  intros id H. unfold valid_opaque_id in H. apply andb_true_iff in H. destruct H as [H _]. apply andb_true_iff in H. destruct H as [H1 H2].
  destruct (String.eqb id "") eqn:E; [left; apply String.eqb_eq; exact E|right]. apply String.eqb_neq in E.
  unfold is_dot_seg in H1. apply negb_true_iff, orb_false_iff in H1. destruct H1 as [A B]. apply String.eqb_neq in A, B.
  apply negb_true_iff in H2. repeat split; assumption.
Qed.

(* keys in the reserved bookkeeping namespace are refused: the name itself, the directory object, everything below it *)
Theorem reserved_namespace_refused : forall r,
  valid_object_name ".sgwtmp" = false /\ valid_object_name (".sgwtmp/" ++ r) = false.
Proof.
  intros r. split; [reflexivity|]. unfold valid_object_name, split_char. cbv zeta.
  cbn [String.append split_char_acc Ascii.eqb Bool.eqb first_reserved]. cbn [reserved_ns String.eqb Ascii.eqb Bool.eqb negb]. apply andb_false_r.
Qed.

(* and no other first element is: a valid name keeps its first element, which is not the reserved one *)
Theorem valid_name_not_reserved : forall key, valid_object_name key = true -> first_reserved (split_char "/" key) = false.
Proof.
  intros key H. unfold valid_object_name in H. cbv zeta in H. apply andb_true_iff in H. destruct H as [_ H].
  apply negb_true_iff in H. exact H.
Qed.
