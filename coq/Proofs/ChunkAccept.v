(* Acceptance of the chunk readers, characterised backwards from their only successful exit. *)
From Coq Require Import NArith ZArith List Bool String Lia.
From VGW Require Import Base.Bytes Crypto.Crc Model.SignedChunk Model.UnsignedChunk.
Import ListNotations.
Open Scope N_scope.

Section Signed.
  Variables (sha256 : bytes -> bytes) (hmac256 : bytes -> bytes -> bytes) (hex : bytes -> bytes).
  Variables (key stsPayload stsTrailer : bytes) (trailer : option trailer_kind).

  Notation par := (par sha256 hmac256 hex key stsPayload stsTrailer trailer).
  Notation read := (read sha256 hmac256 hex key stsPayload stsTrailer trailer).
  Notation run := (run sha256 hmac256 hex key stsPayload stsTrailer trailer).
  Notation check_sig := (check_sig sha256 hmac256 hex key stsPayload).
  Notation parse_header := (parse_header trailer).

  (* what must have happened for a successful end of stream: the final (zero-length) chunk header was parsed in full,
     the signature of the data received since the previous header verified against the chain, the final chunk's own
     signature verified, and with a trailer: declared checksum = checksum of all payload bytes, trailer signature ok *)
  Definition final_accepted (s' : cst) : Prop :=
    exists s1 p s2 sig,
      (parsedSig s1 = [] \/ exists s0, check_sig s0 = (s1, true)) /\
      parse_header s1 p = PH_ok s2 0%Z sig 0%Z /\
      check_sig (reset_hash (set_parsed s2 sig)) = (s', true) /\
      match trailer with
      | Some t => beq (trailer_sum t (cbuf s')) (parsedChecksum s') = true /\
                  beq (trailer_signature sha256 hmac256 hex key stsTrailer t (prevSig s') (parsedChecksum s')) (trailerSig s') = true
      | None => True
      end.

  Ltac crack PH :=
    unfold SignedChunk.parse_header in PH;
    repeat match type of PH with
    | (if ?b then _ else _) = _ => destruct b eqn:?
    | (match ?x with _ => _ end) = _ => destruct x eqn:?
    end.

  Lemma parse_header_err_not_eof : forall s p e, parse_header s p = PH_err e -> e <> E_EOF.
  Proof. intros s p e PH. crack PH; try discriminate; inversion PH; subst; discriminate. Qed.

  Lemma parse_header_zero_off : forall s p s2 sig off, parse_header s p = PH_ok s2 0%Z sig off -> off = 0%Z.
  Proof.
    intros s p s2 sig off PH. crack PH; try discriminate; inversion PH; subst; try reflexivity;
      try (rewrite Z.eqb_refl in *; discriminate).
  Qed.

  Lemma par_eof_inv : forall fuel s p out s', par fuel s p = (out, E_EOF, s') -> final_accepted s'.
  Proof.
    induction fuel as [|f IH]; intros s p out s' H; cbn [SignedChunk.par] in H; [discriminate|].
    destruct (match parsedSig s with [] => (s, true) | _ :: _ => check_sig s end) as [s1 ok] eqn:C.
    destruct ok; cbn [negb] in H; [|discriminate].
    assert (HC : parsedSig s1 = [] \/ exists s0, check_sig s0 = (s1, true)).
    { destruct (parsedSig s) eqn:P; [inversion C; subst; left; exact P | right; exists s; exact C]. }
    destruct (parse_header s1 p) as [s2|e|s2 size sig off] eqn:PH.
    - discriminate H.
    - inversion H; subst. exfalso. eapply parse_header_err_not_eof; eauto.
    - destruct (size =? 0)%Z eqn:Z0.
      + apply Z.eqb_eq in Z0. subst size.
        destruct (check_sig (reset_hash (set_parsed s2 sig))) as [s4 ok2] eqn:C2.
        destruct ok2; cbn [negb] in H; [|discriminate].
        assert (Hoff : off = 0%Z) by (eapply parse_header_zero_off; eauto).
        subst off. unfold final_accepted.
        destruct trailer as [t|] eqn:T.
        * destruct (beq (trailer_sum t (cbuf s4)) (parsedChecksum s4)) eqn:B1; cbn [negb] in H; [|discriminate].
          destruct (beq (trailer_signature sha256 hmac256 hex key stsTrailer t (prevSig s4) (parsedChecksum s4)) (trailerSig s4)) eqn:B2;
            cbn [negb] in H; [|discriminate].
          inversion H; subst. exists s1, p, s2, sig. auto.
        * inversion H; subst. exists s1, p, s2, sig. auto.
      + destruct ((off <? 0)%Z || (Z.of_nat (List.length p) <? off)%Z); [discriminate|].
        destruct (size <? Z.of_nat (List.length (skipn (Z.to_nat off) p)))%Z.
        * destruct (par f (hash_data (set_left (set_parsed s2 sig) 0) (firstn (Z.to_nat size) (skipn (Z.to_nat off) p)))
                        (skipn (Z.to_nat size) (skipn (Z.to_nat off) p))) as [[out2 e2] s5] eqn:R.
          inversion H; subst. eapply IH. exact R.
        * discriminate.
  Qed.

  (* one delivery: a clean end of stream only through the final chunk; a source that ends while chunk data is
     still owed is never a clean end *)
  Lemma read_eof_inv : forall s frag eof out s', read s frag eof = (out, E_EOF, s') -> final_accepted s'.
  Proof.
    intros s frag eof out s' H. unfold SignedChunk.read in H.
    destruct (left (set_eof s eof) <? Z.of_nat (List.length frag))%Z.
    - match type of H with context [SignedChunk.par ?a ?b ?c ?d ?e ?f ?g ?h ?i ?j] =>
        destruct (SignedChunk.par a b c d e f g h i j) as [[o e'] s2] eqn:R end.
      inversion H; subst. eapply par_eof_inv. exact R.
    - destruct eof; discriminate.
  Qed.

  Lemma run_eof_inv : forall frags s acc out, run s frags acc = (out, E_EOF) -> exists s', final_accepted s'.
  Proof.
    induction frags as [|[f eof] r IH]; intros s acc out H; cbn [SignedChunk.run] in H.
    - destruct (read s [] true) as [[o e] s'] eqn:R. inversion H; subst. exists s'. eapply read_eof_inv. exact R.
    - destruct (read s f eof) as [[o e] s'] eqn:R. destruct e; try discriminate.
      + eapply IH. exact H.
      + inversion H; subst. exists s'. eapply read_eof_inv. exact R.
  Qed.

  (* the source ending (0 bytes, EOF) is never accepted by itself: every truncation needs the final chunk *)
  Lemma read_truncated : forall s, (0 <=? left s)%Z = true -> exists s', read s [] true = ([], E_UnexpectedEOF, s').
  Proof.
    intros s H. unfold SignedChunk.read. cbn [List.length Z.of_nat set_eof left].
    apply Z.leb_le in H. destruct (left s <? 0)%Z eqn:E; [apply Z.ltb_lt in E; lia|]. eexists. reflexivity.
  Qed.
End Signed.

Section Unsigned.
  Variable kind : trailer_kind.

  (* a successful end of stream of the unsigned reader: the zero chunk was read, then a trailer naming this checksum
     whose value equals the checksum of all payload bytes hashed *)
  Definition utrailer_ok (s1 : ust) : Prop := read_trailer kind s1 = U_EOF.

  Lemma chunk_loop_eof_inv : forall fuel b s out o s', chunk_loop kind fuel b s out = (o, U_EOF, s') -> utrailer_ok s'.
  Proof.
    induction fuel as [|f IH]; intros b s out o s' H; cbn [chunk_loop] in H; [discriminate|].
    destruct (read_line (rest s) []) as [[line r1]|]; [|discriminate].
    destruct (parse_hex (trim line)) as [size|]; [|discriminate].
    destruct (size =? 0)%Z.
    - destruct (read_trailer kind {| rest := r1; ustash := ustash s; uoff := uoff s; hashed := hashed s |}) eqn:T;
        inversion H; subst; try discriminate. exact T.
    - destruct (size <? 0)%Z; [discriminate|].
      destruct (Z.of_nat (List.length r1) <? size)%Z; [discriminate|].
      destruct (read_and_skip [13; 10] (skipn (Z.to_nat size) r1)) as [r3| |]; try discriminate.
      destruct (Nat.ltb _ _); [discriminate|]. eapply IH. exact H.
  Qed.

  Lemma urun_eof_inv : forall fuel s bufs dflt acc out, urun kind fuel s bufs dflt acc = (out, U_EOF) -> exists s', utrailer_ok s'.
  Proof.
    induction fuel as [|f IH]; intros s bufs dflt acc out H; cbn [urun] in H; [discriminate|].
    destruct (match bufs with x :: r => (x, r) | [] => (dflt, []) end) as [b bufs'].
    destruct (uread kind s b) as [[o e] s'] eqn:R.
    destruct e; try discriminate.
    - eapply IH. exact H.
    - inversion H; subst. exists s'. unfold uread in R.
      destruct (ustash s); [eapply chunk_loop_eof_inv; exact R|].
      destruct (Nat.ltb _ _); [discriminate|]. eapply chunk_loop_eof_inv. exact R.
  Qed.

  Lemma beq_eq : forall a b, beq a b = true -> a = b.
  Proof.
    induction a as [|x a IH]; intros [|y b] H; cbn in H; try discriminate; [reflexivity|].
    apply andb_true_iff in H. destruct H as [E H]. apply N.eqb_eq in E. subst. f_equal. apply IH. exact H.
  Qed.

  (* the trailer check is what it says: name and value *)
  Lemma utrailer_ok_checksum : forall s1, utrailer_ok s1 ->
    exists buf r1, read_until 13 (rest s1) [] = Some (buf, r1) /\
      read_until 58 (trim buf) [] = Some (trailer_name kind, trailer_sum kind (hashed s1)).
  Proof.
    intros s1 H. unfold utrailer_ok, read_trailer in H.
    destruct (read_until 13 (rest s1) []) as [[buf r1]|] eqn:R1; [|discriminate].
    destruct r1 as [|a [|b [|c r]]]; try discriminate.
    destruct (beq [a; b; c] [10; 13; 10]); cbn [negb] in H; [|discriminate].
    destruct (read_until 58 (trim buf) []) as [[name value]|] eqn:R2; [|discriminate].
    destruct (existsb (N.eqb 58) value); [discriminate|].
    destruct (beq name (trailer_name kind)) eqn:Bn; cbn [negb] in H; [|discriminate].
    destruct (beq value (trailer_sum kind (hashed s1))) eqn:Bv; [|discriminate].
    apply beq_eq in Bn, Bv. subst. exists buf, (a :: b :: c :: r). split; [reflexivity|exact R2].
  Qed.
End Unsigned.
