From Coq Require Import List Arith Bool Lia.
From VGW Require Import Model.CrashPromote.
Import ListNotations.

Lemma drop_idem : forall v a, drop v (drop v a) = drop v a.
Proof.
  intros v a. induction a as [|e a IH]; [reflexivity|].
  unfold drop in *. cbn [filter]. destruct (negb (Nat.eqb (fst e) v)) eqn:E; [|exact IH].
  cbn [filter]. rewrite E. f_equal. exact IH.
Qed.

Lemma drop_notin : forall v a, ~ In v (map fst a) -> drop v a = a.
Proof.
  intros v a. induction a as [|e a IH]; intros Hn; [reflexivity|].
  unfold drop in *. cbn [filter]. cbn [map In] in Hn.
  assert (Hne : Nat.eqb (fst e) v = false) by (apply Nat.eqb_neq; intros E; apply Hn; left; exact E).
  rewrite Hne. cbn [negb]. f_equal. apply IH. intros H. apply Hn. right. exact H.
Qed.

Lemma in_drop : forall v a x, In x (map fst (drop v a)) -> In x (map fst a).
Proof.
  intros v a x. induction a as [|e a IH]; [intros []|].
  unfold drop in *. cbn [filter]. destruct (negb (Nat.eqb (fst e) v)); cbn [map In]; intros H.
  - destruct H as [H|H]; [left; exact H|right; apply IH; exact H].
  - right. apply IH. exact H.
Qed.

Lemma nodup_drop : forall v a, NoDup (map fst a) -> NoDup (map fst (drop v a)).
Proof.
  intros v a. induction a as [|e a IH]; intros Hn; [constructor|].
  cbn [map] in Hn. inversion Hn as [|x l Hx Hl]; subst.
  unfold drop in *. cbn [filter]. destruct (negb (Nat.eqb (fst e) v)); [|apply IH; exact Hl].
  cbn [map]. constructor; [|apply IH; exact Hl]. intros H. apply Hx. apply (in_drop v). exact H.
Qed.

(* the versions of the key other than the one that is deleted, and what a GET of the key answers once it is gone *)
Definition remaining (s : pstate) (c : pcur) : list (nat * nat) := drop (p_vid c) (parchive s).
Definition reads_after (s : pstate) (c : pcur) : option nat := option_map snd (hd_error (remaining s c)).

(* wherever the request is killed, the key shows either exactly what it showed before (the previous state) or exactly the other
   versions, the newest of them current (the new state) *)
Theorem promote_atomic : forall s c k,
  pcurrent s = Some c -> p_attrs c = true -> NoDup (map fst (parchive s)) ->
  let s' := prun_killed (promote_steps s) s k in
  (pshown s' = pshown s /\ preads s' = preads s) \/
  (pshown s' = remaining s c /\ preads s' = reads_after s c).
Proof.
  intros s c k Hc Ha Hnd. destruct s as [cur a]. cbn [pcurrent parchive] in *. subst cur.
  destruct c as [cd cv at_]. cbn [p_attrs] in Ha. subst at_.
  unfold promote_steps, reads_after, remaining, prun_killed. cbn [pcurrent parchive p_vid].
  pose proof (nodup_drop cv a Hnd) as Hnd'.
  destruct (drop cv a) as [|[v1 d1] r] eqn:Ea.
  - destruct k as [|[|k]]; cbn [firstn fold_left do_pstep pcurrent parchive pshown preads cur_id p_attrs p_vid p_data hd_error option_map].
    + left. split; reflexivity.
    + left. rewrite ?Ea. split; reflexivity.
    + assert (E : firstn k (@nil pstep) = []) by (destruct k; reflexivity). rewrite E.
      cbn [fold_left pshown preads pcurrent]. right. split; reflexivity.
  - cbn [map] in Hnd'. inversion Hnd' as [|x l Hx Hl]; subst.
    cbn [fst] in Hx.
    assert (Hdr : drop v1 ((v1, d1) :: r) = r).
    { unfold drop. cbn [filter fst]. rewrite Nat.eqb_refl. cbn [negb]. apply (drop_notin v1 r Hx). }
    assert (Hid : drop cv ((v1, d1) :: r) = (v1, d1) :: r) by (rewrite <- Ea; apply drop_idem).
    destruct k as [|[|[|k]]]; cbn [firstn fold_left do_pstep pcurrent parchive pshown preads cur_id p_attrs p_vid p_data hd_error option_map snd].
    + left. split; reflexivity.
    + left. rewrite ?Ea. rewrite ?Hid. split; reflexivity.
    + right. rewrite ?Ea. rewrite ?Hdr. split; reflexivity.
    + assert (E : firstn k (@nil pstep) = []) by (destruct k; reflexivity). rewrite E.
      cbn [fold_left pshown preads pcurrent parchive cur_id p_attrs p_vid p_data]. right. rewrite ?Ea. rewrite ?Hdr.
      rewrite ?(drop_notin v1 r Hx). split; reflexivity.
Qed.

(* the request run to its end leaves the new state *)
Theorem promote_completes : forall s c,
  pcurrent s = Some c -> p_attrs c = true -> NoDup (map fst (parchive s)) ->
  let s' := prun_killed (promote_steps s) s (length (promote_steps s)) in
  pshown s' = remaining s c /\ preads s' = reads_after s c.
Proof.
  intros s c Hc Ha Hnd. destruct s as [cur a]. cbn [pcurrent parchive] in *. subst cur.
  destruct c as [cd cv at_]. cbn [p_attrs] in Ha. subst at_.
  unfold promote_steps, reads_after, remaining, prun_killed. cbn [pcurrent parchive p_vid].
  pose proof (nodup_drop cv a Hnd) as Hnd'.
  destruct (drop cv a) as [|[v1 d1] r] eqn:Ea.
  - cbn. split; reflexivity.
  - cbn [map] in Hnd'. inversion Hnd' as [|x l Hx Hl]; subst. cbn [fst] in Hx.
    assert (Hdr : drop v1 ((v1, d1) :: r) = r).
    { unfold drop. cbn [filter fst]. rewrite Nat.eqb_refl. cbn [negb]. apply (drop_notin v1 r Hx). }
    cbn [length firstn fold_left do_pstep pcurrent parchive pshown preads cur_id p_attrs p_vid p_data hd_error option_map snd].
    rewrite Ea. rewrite Hdr. rewrite (drop_notin v1 r Hx). split; reflexivity.
Qed.

(* the order before the repair: killed after the first step the key shows nothing at all (neither the previous nor the new
   state: the older version, acknowledged long ago, is not listed and not readable); killed after the third step the promoted data
   is there without its attributes and is shown as a "null" version next to the archived copy of itself *)
Theorem old_order_not_atomic :
  let s := {| pcurrent := Some {| p_data := 8; p_vid := 2; p_attrs := true |}; parchive := [(1, 7)] |} in
  pshown s = [(2, 8); (1, 7)] /\
  pshown (prun_killed (promote_steps_old s) s 1) = [] /\ preads (prun_killed (promote_steps_old s) s 1) = None /\
  pshown (prun_killed (promote_steps_old s) s 3) = [(0, 7); (1, 7)].
Proof. cbn. repeat split; reflexivity. Qed.

Example promote_premises : 
  let s := {| pcurrent := Some {| p_data := 8; p_vid := 2; p_attrs := true |}; parchive := [(2, 8); (1, 7); (5, 3)] |} in
  NoDup (map fst (parchive s)) /\ promote_steps s = [P_drop_stale 2; P_publish 1 7 true; P_remove_archived 1] /\
  pshown (prun_killed (promote_steps s) s 2) = [(1, 7); (5, 3)].
Proof. cbn. split; [repeat constructor; cbn; intuition discriminate|split; reflexivity]. Qed.
