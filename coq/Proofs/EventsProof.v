From Coq Require Import String Ascii List Bool Arith Permutation.
From VGW Require Import Model.Events.
Import ListNotations.
Open Scope string_scope.

Theorem failed_requests_emit_nothing : forall f evs, events_of f (false, evs) = [].
Proof. reflexivity. Qed.

(* a successful request: exactly the notifications of its affected keys whose type the filter lets through; with a type
   that is let through, exactly one per affected key *)
Theorem one_event_per_affected_key : forall f t keys, filter_allows f (type_name t) = true ->
  events_of f (true, map (fun k => (t, k)) keys) = map (fun k => (t, k)) keys.
Proof.
  intros f t keys H. unfold events_of. cbn [fst snd]. induction keys as [|k r IH]; cbn [map List.filter fst]; [reflexivity|]. rewrite H. f_equal. exact IH.
Qed.
Theorem no_event_when_filtered : forall f t keys, filter_allows f (type_name t) = false ->
  events_of f (true, map (fun k => (t, k)) keys) = [].
Proof.
  intros f t keys H. unfold events_of. cbn [fst snd]. induction keys as [|k r IH]; cbn [map List.filter fst]; [reflexivity|]. rewrite H. exact IH.
Qed.

(* the notifications of a set of requests do not depend on how the requests interleave: every order of the requests
   gives the same notifications up to order *)
Theorem events_independent_of_interleaving : forall f rs rs', Permutation rs rs' -> Permutation (all_events f rs) (all_events f rs').
Proof.
  intros f rs rs' P. unfold all_events. induction P as [|x l l' P IH|x y l|l l' l'' P1 IH1 P2 IH2]; cbn.
  - constructor.
  - apply Permutation_app_head. exact IH.
  - rewrite !app_assoc. apply Permutation_app_tail. apply Permutation_app_comm.
  - eapply Permutation_trans; eauto.
Qed.

Theorem filter_semantics : forall l ev,
  filter_allows None ev = true /\
  (forall b, ffind l ev = Some b -> filter_allows (Some l) ev = b) /\
  (ffind l ev = None -> forall b, ffind l (family ev) = Some b -> filter_allows (Some l) ev = b) /\
  (ffind l ev = None -> ffind l (family ev) = None -> filter_allows (Some l) ev = false).
Proof.
  intros l ev. split; [reflexivity|]. unfold filter_allows. split; [intros b H; rewrite H; reflexivity|].
  split; [intros H b H2; rewrite H, H2; reflexivity|intros H H2; rewrite H, H2; reflexivity].
Qed.
Example family_examples : map family ["s3:ObjectCreated:Put"; "s3:ObjectRemoved:DeleteObjects"; "nocolon"] = ["s3:ObjectCreated:*"; "s3:ObjectRemoved:*"; "*"].
Proof. reflexivity. Qed.
