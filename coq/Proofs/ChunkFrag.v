(* C12, the positive half: the signed aws-chunked reader (Model/SignedChunk.v, a transcription of
   s3api/utils/signed-chunk-reader.go) gives the same answer however the encoded bytes are split across reads.

   Plan of the file:
     1. the byte-level primitives are prefix-monotone (a verdict reached on l stands on l ++ b);
     2. the header parser, seen as a function of the header bytes, is prefix-monotone, and an incomplete parse
        resumes from the stash exactly where a one-piece parse would be;
     3. par / read: reading a ++ b in one piece = reading a, then b (outputs concatenated), as long as no pending
        header outgrows the reader's 1024-byte stash limit;
     4. any two fragmentations of one byte string give the same result. *)
From Coq Require Import NArith ZArith List Bool Lia.
From VGW Require Import Base.Bytes Crypto.Crc Model.SignedChunk.
Import ListNotations.
Open Scope N_scope.

(* ---------- 1. primitives *)
Lemma read_until_app : forall d l acc a r b, read_until d l acc = Some (a, r) -> read_until d (l ++ b) acc = Some (a, r ++ b).
Proof.
  intros d l. induction l as [|x l IH]; intros acc a r b H; cbn in *; [discriminate|].
  destruct (x =? d); [inversion H; subst; reflexivity|]. apply IH. exact H.
Qed.
Lemma read_until_none_app : forall d l acc b, read_until d l acc = None -> read_until d (l ++ b) acc = read_until d b (acc ++ l).
Proof.
  intros d l. induction l as [|x l IH]; intros acc b H; cbn in *; [rewrite app_nil_r; reflexivity|].
  destruct (x =? d); [discriminate|]. rewrite IH by exact H. rewrite <- app_assoc. reflexivity.
Qed.
Lemma read_and_skip_ok_app : forall exp l r b, read_and_skip exp l = R_ok r -> read_and_skip exp (l ++ b) = R_ok (r ++ b).
Proof.
  induction exp as [|e exp IH]; intros l r b H; cbn in *; [inversion H; reflexivity|].
  destruct l as [|x l]; [discriminate|]. cbn. destruct (x =? e); [apply IH; exact H|discriminate].
Qed.
Lemma read_and_skip_bad_app : forall exp l b, read_and_skip exp l = R_bad -> read_and_skip exp (l ++ b) = R_bad.
Proof.
  induction exp as [|e exp IH]; intros l b H; cbn in *; [discriminate|].
  destruct l as [|x l]; [discriminate|]. cbn. destruct (x =? e); [apply IH; exact H|reflexivity].
Qed.
(* bytes.Index(l, "\r\n"), unfolded one step without the literal patterns *)
Ltac nsplit x :=
  destruct x as [|x]; [|destruct x as [x|x|]; [destruct x as [x|x|]; [destruct x as [x|x|]; [destruct x as [x|x|]|destruct x as [x|x|]|]|destruct x as [x|x|]; [destruct x as [x|x|]|destruct x as [x|x|]|]|]
                                              |destruct x as [x|x|]; [destruct x as [x|x|]; [destruct x as [x|x|]|destruct x as [x|x|]|]|destruct x as [x|x|]; [destruct x as [x|x|]|destruct x as [x|x|]|]|]|]].
Lemma index_crlf_unfold : forall l i,
  index_crlf l i = match l with
                   | x :: y :: r => if (x =? 13) && (y =? 10) then Some i else index_crlf (y :: r) (S i)
                   | [_] => None
                   | [] => None
                   end.
Proof.
  intros l i. destruct l as [|x [|y r]]; [reflexivity| |].
  - nsplit x; reflexivity.
  - nsplit x; try reflexivity; nsplit y; reflexivity.
Qed.
Lemma index_crlf_app : forall l i n b, index_crlf l i = Some n -> index_crlf (l ++ b) i = Some n.
Proof.
  induction l as [|x l IH]; intros i n b H; [discriminate|].
  rewrite index_crlf_unfold in H. destruct l as [|y r]; [discriminate|].
  change ((x :: y :: r) ++ b) with (x :: y :: (r ++ b)). rewrite index_crlf_unfold.
  destruct ((x =? 13) && (y =? 10)); [exact H|]. apply (IH (S i) n b H).
Qed.

Lemma read_and_skip_inv : forall exp l r, read_and_skip exp l = R_ok r -> l = exp ++ r.
Proof.
  induction exp as [|e exp IH]; intros l r H; cbn in *; [inversion H; reflexivity|].
  destruct l as [|x l]; [discriminate|]. destruct (x =? e) eqn:E; [|discriminate].
  apply N.eqb_eq in E. subst x. rewrite (IH l r H). reflexivity.
Qed.
Lemma read_and_skip_self : forall exp r, read_and_skip exp (exp ++ r) = R_ok r.
Proof. induction exp as [|e exp IH]; intros r; cbn; [reflexivity|]. rewrite N.eqb_refl. apply IH. Qed.
Lemma read_until_inv : forall d l acc a r, read_until d l acc = Some (a, r) -> exists m, a = acc ++ m /\ l = m ++ d :: r /\ ~ In d m.
Proof.
  intros d l. induction l as [|x l IH]; intros acc a r H; cbn in H; [discriminate|].
  destruct (x =? d) eqn:E.
  - apply N.eqb_eq in E. subst x. inversion H; subst. exists []. rewrite app_nil_r. repeat split; auto.
  - destruct (IH _ _ _ H) as [m [Ha [Hl Hn]]]. exists (x :: m). rewrite Ha, <- app_assoc. cbn. rewrite Hl. repeat split; auto.
    intros [Hx|Hx]; [subst x; rewrite N.eqb_refl in E; discriminate|exact (Hn Hx)].
Qed.
Lemma read_until_self : forall d m r acc, ~ In d m -> read_until d (m ++ d :: r) acc = Some (acc ++ m, r).
Proof.
  intros d m. induction m as [|x m IH]; intros r acc Hn; cbn.
  - rewrite N.eqb_refl, app_nil_r. reflexivity.
  - destruct (x =? d) eqn:E; [apply N.eqb_eq in E; subst x; exfalso; apply Hn; left; reflexivity|].
    rewrite IH by (intros Hx; apply Hn; right; exact Hx). rewrite <- app_assoc. reflexivity.
Qed.

Lemma index_crlf_found : forall x y i, exists n, index_crlf (x ++ 13 :: 10 :: y) i = Some n.
Proof.
  induction x as [|c x IH]; intros y i.
  - exists i. cbn [app]. rewrite index_crlf_unfold. reflexivity.
  - cbn [app]. destruct (x ++ 13 :: 10 :: y) as [|d t] eqn:Et; [destruct x; discriminate|].
    rewrite index_crlf_unfold. destruct ((c =? 13) && (d =? 10)); [eexists; reflexivity|]. rewrite <- Et. apply IH.
Qed.
Lemma index_crlf_first : forall x y i, ~ In 13 x -> index_crlf (x ++ 13 :: 10 :: y) i = Some (i + List.length x)%nat.
Proof.
  induction x as [|c x IH]; intros y i Hn.
  - cbn [app List.length]. rewrite index_crlf_unfold, Nat.add_0_r. reflexivity.
  - cbn [app]. destruct (x ++ 13 :: 10 :: y) as [|d t] eqn:Et; [destruct x; discriminate|].
    rewrite index_crlf_unfold. destruct (c =? 13) eqn:Ec; [apply N.eqb_eq in Ec; subst c; exfalso; apply Hn; left; reflexivity|].
    cbn [andb]. rewrite <- Et, IH by (intros Hx; apply Hn; right; exact Hx). cbn [List.length]. f_equal. lia.
Qed.
Lemma data_hdr_shape : forall r0 a r1 r2 sig r3 r4,
  read_until 59 r0 [] = Some (a, r1) -> read_and_skip chunkSigKw r1 = R_ok r2 ->
  read_until 13 r2 [] = Some (sig, r3) -> read_and_skip [10] r3 = R_ok r4 ->
  r0 = (a ++ 59 :: chunkSigKw ++ sig) ++ 13 :: 10 :: r4 /\ ~ In 59 a /\ ~ In 13 sig.
Proof.
  intros r0 a r1 r2 sig r3 r4 H1 H2 H3 H4.
  destruct (read_until_inv _ _ _ _ _ H1) as [m1 [Ha [Hl Hn1]]]. destruct (read_until_inv _ _ _ _ _ H3) as [m3 [Hs [Hl3 Hn3]]].
  cbn [app] in Ha, Hs. subst a sig. rewrite (read_and_skip_inv _ _ _ H2) in Hl. rewrite Hl3 in Hl. rewrite (read_and_skip_inv _ _ _ H4) in Hl.
  split; [|split; assumption]. rewrite Hl. rewrite <- !app_assoc. cbn [app]. rewrite <- !app_assoc. reflexivity.
Qed.

Lemma hexval_13 : hexval 13 = None. Proof. reflexivity. Qed.
Lemma hexdigits_no13 : forall l acc v, hexdigits l acc = Some v -> ~ In 13 l.
Proof.
  induction l as [|c l IH]; intros acc v H; [intros []|].
  cbn [hexdigits] in H. destruct (hexval c) as [d|] eqn:Ec; [|discriminate].
  destruct (acc * 16 + d <=? 9223372036854775808)%Z; [|discriminate].
  intros [Hc|Hc]; [subst c; rewrite hexval_13 in Ec; discriminate|exact (IH _ _ H Hc)].
Qed.
Lemma parse_hex_no13 : forall l v, parse_hex l = Some v -> ~ In 13 l.
Proof.
  intros l v H. unfold parse_hex in H. destruct l as [|c r]; [discriminate|].
  destruct (c =? 43) eqn:E1; [|destruct (c =? 45) eqn:E2].
  - destruct r as [|x r']; [discriminate|]. destruct (hexdigits (x :: r') 0) eqn:Eh; [|discriminate].
    apply N.eqb_eq in E1. subst c. intros [Hc|Hc]; [discriminate|exact (hexdigits_no13 _ _ _ Eh Hc)].
  - destruct r as [|x r']; [discriminate|]. destruct (hexdigits (x :: r') 0) eqn:Eh; [|discriminate].
    apply N.eqb_eq in E2. subst c. intros [Hc|Hc]; [discriminate|exact (hexdigits_no13 _ _ _ Eh Hc)].
  - destruct (hexdigits (c :: r) 0) eqn:Eh; [|discriminate]. exact (hexdigits_no13 _ _ _ Eh).
Qed.
Lemma kw_no13 : ~ In 13 chunkSigKw.
Proof. intros H. vm_compute in H. repeat (destruct H as [H|H]; [discriminate|]). exact H. Qed.

Lemma app_prefix_split : forall (x y u v : bytes), x ++ y = u ++ v -> (List.length u <= List.length x)%nat -> x = u ++ skipn (List.length u) x.
Proof.
  intros x y u v H Hl. assert (Hf : firstn (List.length u) x = u).
  { assert (H1 : firstn (List.length u) (x ++ y) = firstn (List.length u) (u ++ v)) by (rewrite H; reflexivity).
    rewrite !firstn_app in H1. replace (List.length u - List.length x)%nat with O in H1 by lia.
    rewrite Nat.sub_diag in H1. cbn [firstn] in H1. rewrite !app_nil_r, firstn_all in H1. exact H1. }
  rewrite <- Hf at 1. symmetry. apply firstn_skipn.
Qed.

Lemma beq_refl : forall a, beq a a = true.
Proof. induction a as [|x a IH]; cbn; [reflexivity|]. rewrite N.eqb_refl. exact IH. Qed.
Lemma tname_no58 : forall t, ~ In 58 (trailer_name t).
Proof. intros [] H; vm_compute in H; repeat (destruct H as [H|H]; [discriminate|]); exact H. Qed.
Lemma tsk_no58 : ~ In 58 trailerSigKw.
Proof. intros H. vm_compute in H. repeat (destruct H as [H|H]; [discriminate|]). exact H. Qed.

Lemma skipn_len_app : forall (l x : bytes), skipn (List.length l) (l ++ x) = x.
Proof. induction l as [|c l IH]; intros x; cbn; [reflexivity|apply IH]. Qed.
Lemma firstn_len_app : forall (l x : bytes), firstn (List.length l) (l ++ x) = l.
Proof. induction l as [|c l IH]; intros x; cbn; [reflexivity|rewrite IH; reflexivity]. Qed.

(* ---------- 2. the header parser as a function of the header bytes *)
Section Frag.
  Variables (sha256 : bytes -> bytes) (hmac256 : bytes -> bytes -> bytes) (hex : bytes -> bytes).
  Variables (key stsPayload stsTrailer : bytes) (trailer : option trailer_kind).

  Notation par := (par sha256 hmac256 hex key stsPayload stsTrailer trailer).
  Notation read := (read sha256 hmac256 hex key stsPayload stsTrailer trailer).
  Notation run := (run sha256 hmac256 hex key stsPayload stsTrailer trailer).
  Notation check_sig := (check_sig sha256 hmac256 hex key stsPayload).
  Notation parse_header := (parse_header trailer).

  Definition stash_bytes (s : cst) : bytes := match stash s with Some st => st | None => [] end.
  Definition stash_len (s : cst) : nat := List.length (stash_bytes s).

  (* parse_header after the stash-limit test, with the header bytes and the stash length as parameters *)
  Definition ph_core (s : cst) (header : bytes) (stashLen : nat) : ph :=
    let s0 := set_stash s None in
    let on_eof := if isEOF s then PH_err E_InvalidChunk else PH_skip (set_stash s0 (Some header)) in
    let skip_k (exp l : bytes) (k : bytes -> ph) : ph :=
      match read_and_skip exp l with R_ok r => k r | R_eof => on_eof | R_bad => PH_err E_Malformed end in
    let until_k (d : N) (l : bytes) (k : bytes -> bytes -> ph) : ph :=
      match read_until d l [] with Some (a, r) => k a r | None => on_eof end in
    let start (k : bytes -> nat -> ph) : ph :=
      if firstHdr s then k header O else skip_k [13; 10] header (fun r => k r 2%nat) in
    start (fun r0 skip =>
    until_k 59 r0 (fun sizeStr r1 =>
    match parse_hex sizeStr with
    | None => PH_err E_InvalidChunk
    | Some size =>
      if (size <? 0)%Z then PH_err E_InvalidChunk else
      skip_k chunkSigKw r1 (fun r2 =>
      until_k 13 r2 (fun sig r3 =>
      if (size =? 0)%Z then
        match trailer with
        | Some t =>
            skip_k [10] r3 (fun r4 =>
            until_k 58 r4 (fun tname r5 =>
            if negb (beq tname (trailer_name t)) then PH_err E_InvalidChunk else
            until_k 13 r5 (fun checksum r6 =>
            if negb (valid_checksum t checksum) then PH_err E_InvalidTrailer else
            skip_k [10] r6 (fun r7 =>
            until_k 58 r7 (fun tsp r8 =>
            if negb (beq tsp trailerSigKw) then PH_err E_InvalidChunk else
            until_k 13 r8 (fun tsig r9 =>
            skip_k [10; 13; 10] r9 (fun _ =>
              PH_ok {| stash := None; left := left s; prevSig := prevSig s; parsedSig := parsedSig s; hbuf := hbuf s;
                       cbuf := cbuf s; firstHdr := firstHdr s; isEOF := isEOF s; trailerSig := tsig;
                       parsedChecksum := checksum |} 0 sig 0)))))))
        | None => skip_k [10; 13; 10] r3 (fun _ => PH_ok s0 0 sig 0)
        end
      else
        if (match sig with [] => true | _ => false end) then PH_err E_SigMismatch else
        skip_k [10] r3 (fun _ =>
        match index_crlf (skipn skip header) O with
        | None => PH_err E_Panic
        | Some ind =>
            PH_ok {| stash := None; left := left s; prevSig := prevSig s; parsedSig := parsedSig s; hbuf := hbuf s;
                     cbuf := cbuf s; firstHdr := false; isEOF := isEOF s; trailerSig := trailerSig s;
                     parsedChecksum := parsedChecksum s |}
                  size sig (Z.of_nat (ind + skip + 2) - Z.of_nat stashLen)
        end)))
    end)).

  Lemma parse_header_core : forall s p,
    parse_header s p = if Nat.ltb 1024 (stash_len s) then PH_err E_InvalidChunk else ph_core s (stash_bytes s ++ p) (stash_len s).
  Proof.
    intros s p. unfold SignedChunk.parse_header, ph_core, stash_len, stash_bytes.
    destruct (stash s) as [st|]; reflexivity.
  Qed.

  (* ---------- the parser proper: a function of the header bytes alone.  None = the bytes ran out *)
  Inductive hres :=
  | HErr (e : rerr)
  | HData (size : Z) (sig : bytes) (hdlen : nat)            (* hdlen: length of the header, counted from the start of the bytes *)
  | HFinal (sig : bytes) (tr : option (bytes * bytes)) (hdlen : nat).     (* trailer signature, declared checksum *)

  Definition hparse (first : bool) (header : bytes) : option hres :=
    let skip_k (exp l : bytes) (k : bytes -> option hres) : option hres :=
      match read_and_skip exp l with R_ok r => k r | R_eof => None | R_bad => Some (HErr E_Malformed) end in
    let until_k (d : N) (l : bytes) (k : bytes -> bytes -> option hres) : option hres :=
      match read_until d l [] with Some (a, r) => k a r | None => None end in
    let start (k : bytes -> nat -> option hres) : option hres :=
      if first then k header O else skip_k [13; 10] header (fun r => k r 2%nat) in
    start (fun r0 skip =>
    until_k 59 r0 (fun sizeStr r1 =>
    match parse_hex sizeStr with
    | None => Some (HErr E_InvalidChunk)
    | Some size =>
      if (size <? 0)%Z then Some (HErr E_InvalidChunk) else
      skip_k chunkSigKw r1 (fun r2 =>
      until_k 13 r2 (fun sig r3 =>
      if (size =? 0)%Z then
        match trailer with
        | Some t =>
            skip_k [10] r3 (fun r4 =>
            until_k 58 r4 (fun tname r5 =>
            if negb (beq tname (trailer_name t)) then Some (HErr E_InvalidChunk) else
            until_k 13 r5 (fun checksum r6 =>
            if negb (valid_checksum t checksum) then Some (HErr E_InvalidTrailer) else
            skip_k [10] r6 (fun r7 =>
            until_k 58 r7 (fun tsp r8 =>
            if negb (beq tsp trailerSigKw) then Some (HErr E_InvalidChunk) else
            until_k 13 r8 (fun tsig r9 =>
            skip_k [10; 13; 10] r9 (fun rl => Some (HFinal sig (Some (tsig, checksum)) (List.length header - List.length rl)))))))))
        | None => skip_k [10; 13; 10] r3 (fun rl => Some (HFinal sig None (List.length header - List.length rl)))
        end
      else
        if (match sig with [] => true | _ => false end) then Some (HErr E_SigMismatch) else
        skip_k [10] r3 (fun _ =>
        match index_crlf (skipn skip header) O with
        | None => Some (HErr E_Panic)
        | Some ind => Some (HData size sig (ind + skip + 2))
        end)))
    end)).

  Definition apply_h (s : cst) (stashLen : nat) (r : hres) : ph :=
    match r with
    | HErr e => PH_err e
    | HData size sig n =>
        PH_ok {| stash := None; left := left s; prevSig := prevSig s; parsedSig := parsedSig s; hbuf := hbuf s;
                 cbuf := cbuf s; firstHdr := false; isEOF := isEOF s; trailerSig := trailerSig s;
                 parsedChecksum := parsedChecksum s |} size sig (Z.of_nat n - Z.of_nat stashLen)
    | HFinal sig None _ => PH_ok (set_stash s None) 0 sig 0
    | HFinal sig (Some (tsig, checksum)) _ =>
        PH_ok {| stash := None; left := left s; prevSig := prevSig s; parsedSig := parsedSig s; hbuf := hbuf s;
                 cbuf := cbuf s; firstHdr := firstHdr s; isEOF := isEOF s; trailerSig := tsig;
                 parsedChecksum := checksum |} 0 sig 0
    end.

  Definition on_eof (s : cst) (header : bytes) : ph :=
    if isEOF s then PH_err E_InvalidChunk else PH_skip (set_stash (set_stash s None) (Some header)).

  Ltac hstep :=
    match goal with
    | |- context [read_and_skip ?a ?b] => destruct (read_and_skip a b) eqn:?
    | |- context [read_until ?d ?l ?acc] => destruct (read_until d l acc) as [[? ?]|] eqn:?
    | |- context [parse_hex ?a] => destruct (parse_hex a) eqn:?
    | |- context [index_crlf ?a ?b] => destruct (index_crlf a b) eqn:?
    | |- context [(?a <? ?b)%Z] => destruct (a <? b)%Z eqn:?
    | |- context [(?a =? ?b)%Z] => destruct (a =? b)%Z eqn:?
    | |- context [negb ?a] => destruct (negb a) eqn:?
    | |- context [match ?l with [] => true | _ :: _ => false end] => destruct l eqn:?
    end.

  Lemma ph_core_hparse : forall s header n,
    ph_core s header n = match hparse (firstHdr s) header with None => on_eof s header | Some r => apply_h s n r end.
  Proof.
    intros s header n. unfold ph_core, hparse, on_eof.
    destruct (firstHdr s) eqn:Hf; destruct trailer as [t|]; cbv beta zeta;
      repeat (first [reflexivity | hstep; cbv beta iota; cbn [apply_h]]); try (rewrite ?Hf; reflexivity).
  Qed.

  (* a verdict reached on a header stands when more bytes follow *)
  Ltac mstep H b :=
    match type of H with
    | context [match ?sg with [] => true | _ :: _ => false end] => destruct sg
    | context [read_and_skip ?e ?l] =>
        let E := fresh "E" in destruct (read_and_skip e l) eqn:E;
        [rewrite (read_and_skip_ok_app _ _ _ b E) | discriminate H | rewrite (read_and_skip_bad_app _ _ b E)]
    | context [read_until ?d ?l ?acc] =>
        let E := fresh "E" in destruct (read_until d l acc) as [[? ?]|] eqn:E;
        [rewrite (read_until_app _ _ _ _ _ b E) | discriminate H]
    | context [parse_hex ?a] => destruct (parse_hex a) eqn:?
    | context [(?a <? ?c)%Z] => destruct (a <? c)%Z eqn:?
    | context [(?a =? ?c)%Z] => destruct (a =? c)%Z eqn:?
    | context [negb ?a] => destruct (negb a) eqn:?
    end.

  Lemma hparse_mono : forall first h r b, hparse first h = Some r -> hparse first (h ++ b) = Some r.
  Proof.
    intros first h r b H. unfold hparse in *.
    destruct first; destruct trailer as [t|]; cbv beta zeta in *;
      repeat (first [exact H | mstep H b; cbv beta iota in H |- * ]).
    all: try (injection H as <-; do 2 f_equal; rewrite !app_length; lia).
    all: try match goal with
         | E : read_and_skip [13; 10] ?hh = R_ok ?r0 |- _ => rewrite (read_and_skip_inv _ _ _ E) in *; cbn [skipn app] in *
         end.
    all: cbn [skipn] in *.
    all: match type of H with
         | context [index_crlf ?l 0] => destruct (index_crlf l 0) eqn:Ei; [rewrite (index_crlf_app _ _ _ b Ei); exact H|]
         end.
    all: exfalso; match goal with
         | E1 : read_until 59 ?r0 [] = Some (?a, ?r1), E2 : read_and_skip chunkSigKw ?r1 = R_ok ?r2,
           E3 : read_until 13 ?r2 [] = Some (?sg, ?r3), E4 : read_and_skip [10] ?r3 = R_ok ?r4 |- _ =>
             destruct (data_hdr_shape _ _ _ _ _ _ _ E1 E2 E3 E4) as [Hs _]; rewrite Hs in Ei;
             destruct (index_crlf_found (a ++ 59 :: chunkSigKw ++ sg) r4 0) as [n' Hn]; rewrite Hn in Ei; discriminate Ei
         end.
  Qed.

  (* ---------- the shape of a data-chunk header *)
  Definition pre (first : bool) : bytes := if first then [] else [13; 10].
  Definition dhdr (first : bool) (a sig : bytes) : bytes := pre first ++ a ++ 59 :: chunkSigKw ++ sig ++ [13; 10].

  Lemma dhdr_body : forall a sig r, (a ++ 59 :: chunkSigKw ++ sig ++ [13; 10]) ++ r = (a ++ 59 :: chunkSigKw ++ sig) ++ 13 :: 10 :: r.
  Proof. intros. rewrite <- !app_assoc. cbn [app]. rewrite <- !app_assoc. reflexivity. Qed.

  Lemma no13_body : forall a sig sz, parse_hex a = Some sz -> ~ In 13 sig -> ~ In 13 (a ++ 59 :: chunkSigKw ++ sig).
  Proof.
    intros a sig sz Ha Hs H. apply in_app_or in H. destruct H as [H|[H|H]]; [exact (parse_hex_no13 _ _ Ha H)|discriminate|].
    apply in_app_or in H. destruct H as [H|H]; [exact (kw_no13 H)|exact (Hs H)].
  Qed.

  Lemma nonempty_match : forall (l : bytes), l <> [] -> (match l with [] => true | _ :: _ => false end) = false.
  Proof. intros [|x l] H; [congruence|reflexivity]. Qed.

  Lemma hparse_dhdr : forall first a sig sz r,
    ~ In 59 a -> parse_hex a = Some sz -> (sz <? 0)%Z = false -> (sz =? 0)%Z = false -> ~ In 13 sig -> sig <> [] ->
    hparse first (dhdr first a sig ++ r) = Some (HData sz sig (List.length (dhdr first a sig))).
  Proof.
    intros first a sig sz r Ha Hp Hneg Hz Hs Hsne. unfold hparse, dhdr.
    assert (Hbody : forall skip, skip = List.length (pre first) ->
      match read_until 59 ((a ++ 59 :: chunkSigKw ++ sig ++ [13; 10]) ++ r) [] with
      | Some (sizeStr, r1) =>
          match parse_hex sizeStr with
          | None => Some (HErr E_InvalidChunk)
          | Some size => if (size <? 0)%Z then Some (HErr E_InvalidChunk) else
              match read_and_skip chunkSigKw r1 with
              | R_ok r2 => match read_until 13 r2 [] with
                           | Some (sig0, r3) =>
                               if (size =? 0)%Z then None
                               else if (match sig0 with [] => true | _ :: _ => false end) then Some (HErr E_SigMismatch)
                               else match read_and_skip [10] r3 with
                                    | R_ok _ => match index_crlf ((a ++ 59 :: chunkSigKw ++ sig ++ [13; 10]) ++ r) 0 with
                                                | None => Some (HErr E_Panic) | Some ind => Some (HData size sig0 (ind + skip + 2)) end
                                    | R_eof => None | R_bad => Some (HErr E_Malformed) end
                           | None => None end
              | R_eof => None | R_bad => Some (HErr E_Malformed) end
          end
      | None => None
      end = Some (HData sz sig (List.length (pre first ++ a ++ 59 :: chunkSigKw ++ sig ++ [13; 10])))).
    { intros skip Hskip. rewrite <- app_assoc. cbn [app]. rewrite (read_until_self 59 a _ [] Ha). cbn [app]. rewrite Hp, Hneg.
      rewrite <- !app_assoc. rewrite read_and_skip_self. cbn [app]. rewrite (read_until_self 13 sig _ [] Hs). cbn [app]. rewrite Hz, (nonempty_match sig Hsne).
      cbn [read_and_skip]. rewrite N.eqb_refl.
      replace (a ++ 59 :: chunkSigKw ++ sig ++ 13 :: 10 :: r) with ((a ++ 59 :: chunkSigKw ++ sig) ++ 13 :: 10 :: r)
        by (rewrite <- !app_assoc; cbn [app]; rewrite <- !app_assoc; reflexivity).
      rewrite (index_crlf_first _ _ _ (no13_body _ _ _ Hp Hs)). do 2 f_equal. subst skip. rewrite !app_length. cbn [List.length]. rewrite !app_length. cbn [List.length]. lia. }
    destruct first; cbn [pre app].
    - cbn [skipn]. specialize (Hbody O eq_refl). cbn [pre app] in Hbody.
      destruct (read_until 59 _ []) as [[sizeStr r1]|]; [|discriminate Hbody]. destruct (parse_hex sizeStr) as [size|]; [|exact Hbody].
      destruct (size <? 0)%Z; [exact Hbody|]. destruct (read_and_skip chunkSigKw r1) as [r2| |]; try exact Hbody.
      destruct (read_until 13 r2 []) as [[sig0 r3]|]; [|discriminate Hbody]. destruct (size =? 0)%Z; [discriminate Hbody|]. exact Hbody.
    - cbn [read_and_skip]. rewrite !N.eqb_refl. cbn [skipn]. specialize (Hbody 2%nat eq_refl). cbn [pre app] in Hbody.
      destruct (read_until 59 _ []) as [[sizeStr r1]|]; [|discriminate Hbody]. destruct (parse_hex sizeStr) as [size|]; [|exact Hbody].
      destruct (size <? 0)%Z; [exact Hbody|]. destruct (read_and_skip chunkSigKw r1) as [r2| |]; try exact Hbody.
      destruct (read_until 13 r2 []) as [[sig0 r3]|]; [|discriminate Hbody]. destruct (size =? 0)%Z; [discriminate Hbody|]. exact Hbody.
  Qed.

  Ltac istep H :=
    match type of H with
    | context [match ?sg with [] => true | _ :: _ => false end] => let E := fresh "Esne" in destruct (match sg with [] => true | _ :: _ => false end) eqn:E; [discriminate H|]
    | context [read_and_skip ?e ?l] => let E := fresh "E" in destruct (read_and_skip e l) eqn:E; [| discriminate H | discriminate H]
    | context [read_until ?d ?l ?acc] => let E := fresh "E" in destruct (read_until d l acc) as [[? ?]|] eqn:E; [| discriminate H]
    | context [parse_hex ?a] => let E := fresh "Ehex" in destruct (parse_hex a) eqn:E; [| discriminate H]
    | context [(?a <? ?c)%Z] => let E := fresh "Eneg" in destruct (a <? c)%Z eqn:E; [discriminate H|]
    | context [(?a =? ?c)%Z] => let E := fresh "Ezero" in destruct (a =? c)%Z eqn:E
    | context [negb ?a] => let E := fresh "Eb" in destruct (negb a) eqn:E; [discriminate H|]
    end.

  Lemma hparse_data_inv : forall first H sz sig k, hparse first H = Some (HData sz sig k) ->
    exists a r, H = dhdr first a sig ++ r /\ k = List.length (dhdr first a sig) /\ ~ In 59 a /\ parse_hex a = Some sz /\
                (sz <? 0)%Z = false /\ (sz =? 0)%Z = false /\ ~ In 13 sig /\ sig <> [].
  Proof.
    intros first H sz sig k Hp. unfold hparse in Hp.
    destruct first; destruct trailer as [t|]; cbv beta zeta in Hp; repeat (istep Hp; cbv beta iota in Hp); try discriminate Hp.
    all: try match goal with
         | E : read_and_skip [13; 10] ?hh = R_ok ?r0 |- _ => rewrite (read_and_skip_inv _ _ _ E) in *; cbn [skipn app] in *
         end.
    all: cbn [skipn] in Hp.
    all: match goal with
         | E1 : read_until 59 ?r0 [] = Some (?a, ?r1), E2 : read_and_skip chunkSigKw ?r1 = R_ok ?r2,
           E3 : read_until 13 ?r2 [] = Some (?sg, ?r3), E4 : read_and_skip [10] ?r3 = R_ok ?r4 |- _ =>
             destruct (data_hdr_shape _ _ _ _ _ _ _ E1 E2 E3 E4) as [Hs [Hn59 Hn13]]; rewrite Hs in Hp |- *;
             rewrite (index_crlf_first _ _ _ (no13_body _ _ _ Ehex Hn13)) in Hp; injection Hp as <- <- <-;
             exists a, r4; unfold dhdr; cbn [pre app]; rewrite <- (dhdr_body a sg r4)
         end.
    all: repeat split; try assumption; try reflexivity.
    all: try (intros Hnil; match goal with E : (match ?sg with [] => true | _ :: _ => false end) = false |- _ => rewrite Hnil in E; discriminate E end).
    all: rewrite ?app_length; cbn [List.length]; rewrite ?app_length; cbn [List.length]; rewrite ?app_length; cbn [List.length]; replace (List.length chunkSigKw) with 16%nat by reflexivity; lia.
  Qed.

  (* a header that was incomplete on h ends beyond h *)
  Lemma hparse_none_data_len : forall first h b sz sig k,
    hparse first h = None -> hparse first (h ++ b) = Some (HData sz sig k) -> (List.length h < k)%nat.
  Proof.
    intros first h b sz sig k Hn Hs. destruct (hparse_data_inv _ _ _ _ _ Hs) as [a [r [Heq [Hk [Ha [Hp [Hneg [Hz [Hsg Hsne]]]]]]]]].
    destruct (le_lt_dec k (List.length h)) as [Hle|Hlt]; [|exact Hlt]. exfalso. subst k.
    rewrite (app_prefix_split _ _ _ _ Heq Hle) in Hn. rewrite (hparse_dhdr first a sig sz _ Ha Hp Hneg Hz Hsg Hsne) in Hn. discriminate Hn.
  Qed.

  Lemma hparse_final_len : forall first h sig tr k, hparse first h = Some (HFinal sig tr k) -> (k <= List.length h)%nat.
  Proof.
    intros first h sig tr k Hp. unfold hparse in Hp.
    destruct first; destruct trailer as [t|]; cbv beta zeta in Hp; repeat (istep Hp; cbv beta iota in Hp); try discriminate Hp.
    all: try (destruct (index_crlf _ _) in Hp; discriminate Hp).
    all: injection Hp as <- <- <-; lia.
  Qed.

  (* ---------- 3. par, one step at a time *)
  Lemma parse_header_h : forall s p,
    parse_header s p = if Nat.ltb 1024 (stash_len s) then PH_err E_InvalidChunk else
                       match hparse (firstHdr s) (stash_bytes s ++ p) with
                       | None => on_eof s (stash_bytes s ++ p)
                       | Some r => apply_h s (stash_len s) r
                       end.
  Proof. intros s p. rewrite parse_header_core. destruct (Nat.ltb 1024 (stash_len s)); [reflexivity|]. apply ph_core_hparse. Qed.

  Definition pending (s : cst) : cst * bool := match parsedSig s with [] => (s, true) | _ => check_sig s end.

  Definition data_part (rec : cst -> bytes -> bytes * rerr * cst) (s3 : cst) (sz : Z) (data : bytes) : bytes * rerr * cst :=
    let n := Z.of_nat (List.length data) in
    if (sz <? n)%Z then
      let d := firstn (Z.to_nat sz) data in
      let '(out, e, s5) := rec (hash_data (set_left s3 0) d) (skipn (Z.to_nat sz) data) in (d ++ out, e, s5)
    else (data, E_None, hash_data (set_left s3 (sz - n)) data).


  Definition final_part (s2 : cst) (sig : bytes) : bytes * rerr * cst :=
    let s3 := set_parsed s2 sig in
    let '(s4, ok2) := check_sig (reset_hash s3) in
    if negb ok2 then ([], E_SigMismatch, s4) else
    match trailer with
    | Some t =>
        if negb (beq (trailer_sum t (cbuf s4)) (parsedChecksum s4)) then ([], E_BadDigest, s4)
        else if negb (beq (trailer_signature sha256 hmac256 hex key stsTrailer t (prevSig s4) (parsedChecksum s4)) (trailerSig s4)) then ([], E_SigMismatch, s4)
        else ([], E_EOF, s4)
    | None => ([], E_EOF, s4)
    end.

  Definition par_body (rec : cst -> bytes -> bytes * rerr * cst) (s : cst) (p : bytes) : bytes * rerr * cst :=
    let '(s1, ok) := pending s in
    if negb ok then ([], E_SigMismatch, s1) else
    match parse_header s1 p with
    | PH_skip s2 => ([], E_None, set_left s2 0)
    | PH_err e => ([], e, s1)
    | PH_ok s2 size sig off =>
      if (size =? 0)%Z then final_part s2 sig
      else if (off <? 0)%Z || (Z.of_nat (List.length p) <? off)%Z then ([], E_Panic, set_parsed s2 sig)
      else data_part rec (set_parsed s2 sig) size (skipn (Z.to_nat off) p)
    end.

  Lemma par_S : forall f s p, par (S f) s p = par_body (par f) s p.
  Proof. reflexivity. Qed.

  (* ---------- the shape of the final header *)
  Definition ftail (ck tsig : bytes) : bytes :=
    match trailer with
    | None => [13; 10]
    | Some t => trailer_name t ++ 58 :: ck ++ 13 :: 10 :: trailerSigKw ++ 58 :: tsig ++ [13; 10; 13; 10]
    end.
  Definition fhdr (first : bool) (a0 sig ck tsig : bytes) : bytes :=
    pre first ++ a0 ++ 59 :: chunkSigKw ++ sig ++ 13 :: 10 :: ftail ck tsig.

  Lemma hparse_fhdr : forall first a0 sig ck tsig r,
    ~ In 59 a0 -> parse_hex a0 = Some 0%Z -> ~ In 13 sig ->
    (forall t, trailer = Some t -> ~ In 13 ck /\ valid_checksum t ck = true /\ ~ In 13 tsig) ->
    hparse first (fhdr first a0 sig ck tsig ++ r) =
    Some (HFinal sig (match trailer with None => None | Some _ => Some (tsig, ck) end) (List.length (fhdr first a0 sig ck tsig))).
  Proof.
    intros first a0 sig ck tsig r Ha Hp Hs Ht. unfold hparse, fhdr, ftail.
    assert (Hlen : forall (x y : bytes), (List.length (x ++ y) - List.length y = List.length x)%nat) by (intros; rewrite app_length; lia).
    destruct trailer as [t|]; [destruct (Ht t eq_refl) as [Hck [Hv Hts]]|]; clear Ht.
    all: destruct first; cbn [pre app read_and_skip]; rewrite ?N.eqb_refl.
    all: repeat first [rewrite <- app_assoc | progress cbn [app]].
    all: rewrite (read_until_self 59 a0 _ [] Ha); cbn [app]; rewrite Hp; cbn [Z.ltb Z.compare Z.eqb];
         rewrite read_and_skip_self; rewrite (read_until_self 13 sig _ [] Hs); cbn [app read_and_skip]; rewrite ?N.eqb_refl.
    1, 2: rewrite (read_until_self 58 (trailer_name t) _ [] (tname_no58 t)); cbn [app]; rewrite beq_refl; cbn [negb];
         rewrite (read_until_self 13 ck _ [] Hck); cbn [app]; rewrite Hv; cbn [negb read_and_skip]; rewrite ?N.eqb_refl;
         rewrite (read_until_self 58 trailerSigKw _ [] tsk_no58); cbn [app]; rewrite beq_refl; cbn [negb];
         rewrite (read_until_self 13 tsig _ [] Hts); cbn [app read_and_skip]; rewrite ?N.eqb_refl.
    all: do 2 f_equal.
    all: match goal with |- (List.length ?L - List.length ?rr)%nat = List.length ?F => replace L with (F ++ rr); [apply Hlen|] end.
    all: repeat first [rewrite <- app_assoc | progress cbn [app]]; reflexivity.
  Qed.

  (* ---------- 3b. what a caller can see of a result: the state only matters when the read goes on *)
  Definition nrm (r : bytes * rerr * cst) : bytes * rerr * option cst :=
    let '(o, e, s) := r in (o, e, match e with E_None => Some s | _ => None end).

  Ltac proj := cbn [stash left prevSig parsedSig hbuf cbuf firstHdr isEOF trailerSig parsedChecksum].

  Lemma pending_set_left : forall s l, pending (set_left s l) = (set_left (fst (pending s)) l, snd (pending s)).
  Proof. intros s l. unfold pending, SignedChunk.check_sig, set_left. proj. destruct (parsedSig s) eqn:E; cbn [fst snd]; proj; rewrite ?E; reflexivity. Qed.

  Lemma parse_header_set_left : forall s l p,
    parse_header (set_left s l) p = match parse_header s p with
                                    | PH_skip s2 => PH_skip (set_left s2 l)
                                    | PH_err e => PH_err e
                                    | PH_ok s2 sz sg off => PH_ok (set_left s2 l) sz sg off
                                    end.
  Proof.
    intros s l p. rewrite !parse_header_h. unfold stash_len, stash_bytes, set_left. proj.
    destruct (Nat.ltb 1024 _); [reflexivity|]. destruct (hparse (firstHdr s) _) as [[e|sz sg k|sg [[ts ck]|] k]|]; try reflexivity.
    unfold on_eof, set_stash. proj. destruct (isEOF s); reflexivity.
  Qed.

  Lemma hparse_err_some : forall first h e, hparse first h = Some (HErr e) -> e <> E_None.
  Proof.
    intros first h e H. unfold hparse in H. destruct first; destruct trailer as [t|]; cbv beta zeta in H;
      repeat match type of H with context [match ?x with _ => _ end] => destruct x eqn:?; cbv beta iota in H end;
      inversion H; discriminate.
  Qed.
  Lemma parse_header_err : forall s p, parse_header s p <> PH_err E_None.
  Proof.
    intros s p. rewrite parse_header_h. destruct (Nat.ltb 1024 _); [discriminate|].
    destruct (hparse (firstHdr s) _) as [[e|sz sg k|sg [[ts ck]|] k]|] eqn:E; try discriminate.
    - cbn [apply_h]. intros H. inversion H. subst e. exact (hparse_err_some _ _ _ E eq_refl).
    - unfold on_eof. destruct (isEOF s); discriminate.
  Qed.

  Lemma final_part_left : forall s2 sg l, nrm (final_part (set_left s2 l) sg) = nrm (final_part s2 sg).
  Proof.
    intros s2 sg l. unfold final_part, SignedChunk.check_sig, reset_hash, set_parsed, set_left. proj. destruct (beq _ sg); cbn [negb]; [|reflexivity].
    destruct trailer as [t|]; [|reflexivity]. destruct (negb (beq _ (parsedChecksum s2))); [reflexivity|]. destruct (negb (beq _ (trailerSig s2))); reflexivity.
  Qed.

  Lemma par_body_left : forall rec s l p, nrm (par_body rec (set_left s l) p) = nrm (par_body rec s p).
  Proof.
    intros rec s l p. unfold par_body. rewrite pending_set_left. destruct (pending s) as [s1 ok]. cbn [fst snd].
    destruct ok; cbn [negb]; [|reflexivity]. rewrite parse_header_set_left.
    destruct (parse_header s1 p) as [s2|e|s2 sz sg off] eqn:Eph; [reflexivity| |].
    { destruct e; try reflexivity. exfalso. exact (parse_header_err _ _ Eph). }
    destruct (sz =? 0)%Z.
    - apply final_part_left.
    - destruct ((off <? 0)%Z || _); [reflexivity|]. unfold data_part. destruct (sz <? _)%Z; reflexivity.
  Qed.

  Lemma par_left : forall f s l p, nrm (par f (set_left s l) p) = nrm (par f s p).
  Proof. intros [|f] s l p; [reflexivity|]. rewrite !par_S. apply par_body_left. Qed.

  (* ---------- 3c. fuel: any amount above the number of bytes is the same *)
  Lemma parse_header_ok_size : forall s p s2 sz sg off, parse_header s p = PH_ok s2 sz sg off -> sz = 0%Z \/ (0 < sz)%Z.
  Proof.
    intros s p s2 sz sg off H. rewrite parse_header_h in H. destruct (Nat.ltb 1024 _); [discriminate|].
    destruct (hparse (firstHdr s) _) as [[e|sz' sg' k|sg' [[ts ck]|] k]|] eqn:E.
    - discriminate.
    - cbn [apply_h] in H. inversion H; subst. destruct (hparse_data_inv _ _ _ _ _ E) as [a [r [_ [_ [_ [_ [Hneg [Hz _]]]]]]]].
      right. apply Z.ltb_ge in Hneg. apply Z.eqb_neq in Hz. lia.
    - cbn [apply_h] in H. inversion H. left; reflexivity.
    - cbn [apply_h] in H. inversion H. left; reflexivity.
    - unfold on_eof in H. destruct (isEOF s); discriminate.
  Qed.

  (* every data chunk whose header the reader accepts declares a signature (and the signature is what the next header's
     parse verifies): there is no way to pass bytes through a signed stream without one *)
  Lemma parse_header_data_signed : forall s p s2 sz sg off,
    parse_header s p = PH_ok s2 sz sg off -> sz <> 0%Z -> sg <> [].
  Proof.
    intros s p s2 sz sg off H Hnz. rewrite parse_header_h in H. destruct (Nat.ltb 1024 _); [discriminate|].
    destruct (hparse (firstHdr s) _) as [[e|sz' sg' k|sg' [[ts ck]|] k]|] eqn:E.
    - discriminate.
    - cbn [apply_h] in H. inversion H; subst. destruct (hparse_data_inv _ _ _ _ _ E) as [a [r [_ [_ [_ [_ [_ [_ [_ Hne]]]]]]]]]. exact Hne.
    - cbn [apply_h] in H. inversion H; subst. exfalso. apply Hnz. reflexivity.
    - cbn [apply_h] in H. inversion H; subst. exfalso. apply Hnz. reflexivity.
    - unfold on_eof in H. destruct (isEOF s); discriminate.
  Qed.

  Lemma par_body_ext : forall rec1 rec2 s p,
    (forall s' p', (List.length p' < List.length p)%nat -> rec1 s' p' = rec2 s' p') -> par_body rec1 s p = par_body rec2 s p.
  Proof.
    intros rec1 rec2 s p Hrec. unfold par_body. destruct (pending s) as [s1 ok]. destruct (negb ok); [reflexivity|].
    destruct (parse_header s1 p) as [s2|e|s2 sz sg off] eqn:Eph; [reflexivity|reflexivity|].
    destruct (sz =? 0)%Z eqn:Ez; [reflexivity|]. destruct ((off <? 0)%Z || _) eqn:Eo; [reflexivity|]. unfold data_part.
    destruct (sz <? _)%Z eqn:El; [|reflexivity]. rewrite Hrec; [reflexivity|].
    destruct (parse_header_ok_size _ _ _ _ _ _ Eph) as [H0|Hpos]; [subst sz; discriminate Ez|].
    apply Z.ltb_lt in El. rewrite !skipn_length in *. lia.
  Qed.

  Lemma par_fuel : forall f1 f2 s p, (List.length p < f1)%nat -> (List.length p < f2)%nat -> par f1 s p = par f2 s p.
  Proof.
    induction f1 as [|f1 IH]; intros f2 s p H1 H2; [lia|]. destruct f2 as [|f2]; [lia|]. rewrite !par_S.
    apply par_body_ext. intros s' p' Hl. apply IH; lia.
  Qed.

  (* ---------- 3d. reading a ++ b in one piece, and a then b *)
  Lemma pending_fields : forall s s1 ok, pending s = (s1, ok) ->
    stash s1 = stash s /\ firstHdr s1 = firstHdr s /\ isEOF s1 = isEOF s /\ left s1 = left s /\ (ok = true -> parsedSig s1 = []).
  Proof.
    intros s s1 ok H. unfold pending, SignedChunk.check_sig in H. destruct (parsedSig s) eqn:E; inversion H; subst; proj.
    - repeat split; auto.
    - repeat split; auto. intros Hb. rewrite Hb. reflexivity.
  Qed.
  Lemma pending_nil : forall s, parsedSig s = [] -> pending s = (s, true).
  Proof. intros s H. unfold pending. rewrite H. reflexivity. Qed.

  Lemma set_eof_id : forall s, isEOF s = false -> set_eof s false = s.
  Proof. intros [] H. cbn in H. subst. reflexivity. Qed.

  Lemma nrm_prefix : forall d X Y, nrm X = nrm Y ->
    nrm (let '(o, e, s) := X in (d ++ o, e, s)) = nrm (let '(o, e, s) := Y in (d ++ o, e, s)).
  Proof. intros d [[o e] s] [[o' e'] s'] H. cbn in *. inversion H; subst. destruct e'; inversion H; subst; reflexivity. Qed.

  Lemma skipn_app_le : forall (n : nat) (a b : bytes), (n <= List.length a)%nat -> skipn n (a ++ b) = skipn n a ++ b.
  Proof. intros n a b H. rewrite skipn_app. replace (n - List.length a)%nat with O by lia. reflexivity. Qed.
  Lemma skipn_app_ge : forall (n : nat) (a b : bytes), (List.length a <= n)%nat -> skipn n (a ++ b) = skipn (n - List.length a) b.
  Proof. intros n a b H. rewrite skipn_app. rewrite skipn_all2 by lia. reflexivity. Qed.
  Lemma firstn_app_le : forall (n : nat) (a b : bytes), (n <= List.length a)%nat -> firstn n (a ++ b) = firstn n a.
  Proof. intros n a b H. rewrite firstn_app. replace (n - List.length a)%nat with O by lia. cbn [firstn]. apply app_nil_r. Qed.
  Lemma firstn_app_ge : forall (n : nat) (a b : bytes), (List.length a <= n)%nat -> firstn n (a ++ b) = a ++ firstn (n - List.length a) b.
  Proof. intros n a b H. rewrite firstn_app. rewrite firstn_all2 by lia. reflexivity. Qed.

  Lemma data_part_left : forall rec s3 l sz D, data_part rec (set_left s3 l) sz D = data_part rec s3 sz D.
  Proof. reflexivity. Qed.
  Lemma data_part_fuel : forall f1 f2 s3 sz D, (0 < sz)%Z -> (List.length D <= f1)%nat -> (List.length D <= f2)%nat ->
    data_part (par f1) s3 sz D = data_part (par f2) s3 sz D.
  Proof.
    intros f1 f2 s3 sz D Hp H1 H2. unfold data_part. destruct (sz <? Z.of_nat (List.length D))%Z eqn:E; [|reflexivity].
    apply Z.ltb_lt in E. rewrite (par_fuel f1 f2); [reflexivity| |]; rewrite skipn_length; lia.
  Qed.

  Lemma hash_hash : forall s l x y, hash_data (hash_data (set_left s l) x) y = set_left (hash_data (set_left s 0) (x ++ y)) l.
  Proof. intros s l x y. unfold hash_data, set_left. proj. rewrite !app_assoc. reflexivity. Qed.

  (* the chunk's data was not complete at the end of a: the reader's state records how much is left, and going on with b is going on
     with the chunk *)
  Lemma data_resume : forall f s3 sz da b, isEOF s3 = false -> (Z.of_nat (List.length da) <= sz)%Z -> (List.length b < f)%nat ->
    nrm (data_part (par f) s3 sz (da ++ b)) =
    nrm (let '(o2, e2, s2) := read (hash_data (set_left s3 (sz - Z.of_nat (List.length da))) da) b false in (da ++ o2, e2, s2)).
  Proof.
    intros f s3 sz da b Heof Hle Hf. unfold data_part, SignedChunk.read.
    set (S1 := hash_data (set_left s3 (sz - Z.of_nat (List.length da))) da).
    assert (HS1 : set_eof S1 false = S1) by (apply set_eof_id; unfold S1, hash_data, set_left; proj; exact Heof).
    rewrite HS1. change (left S1) with (sz - Z.of_nat (List.length da))%Z.
    rewrite app_length, Nat2Z.inj_add.
    destruct (sz <? Z.of_nat (List.length da) + Z.of_nat (List.length b))%Z eqn:E1.
    - apply Z.ltb_lt in E1. replace (sz - Z.of_nat (List.length da) <? Z.of_nat (List.length b))%Z with true by (symmetry; apply Z.ltb_lt; lia).
      assert (Hk : (Z.to_nat sz - List.length da)%nat = Z.to_nat (sz - Z.of_nat (List.length da))) by lia.
      rewrite firstn_app_ge, skipn_app_ge by lia. rewrite Hk.
      set (L := (sz - Z.of_nat (List.length da))%Z) in *. set (d2 := firstn (Z.to_nat L) b). set (X := skipn (Z.to_nat L) b).
      assert (HX : (List.length X <= List.length b)%nat) by (unfold X; rewrite skipn_length; lia).
      assert (Hn : nrm (par f (hash_data (set_left s3 0) (da ++ d2)) X) =
                   nrm (par (S (List.length b)) (if (0 <? L)%Z then hash_data S1 d2 else S1) X)).
      { rewrite (par_fuel f (S (List.length b))) by lia. destruct (0 <? L)%Z eqn:E0.
        - unfold S1. rewrite hash_hash. symmetry. apply par_left.
        - assert (L = 0)%Z by (apply Z.ltb_ge in E0; lia). unfold d2. rewrite H. cbn [Z.to_nat firstn]. rewrite app_nil_r. unfold S1. fold L. rewrite H. reflexivity. }
      destruct (par f (hash_data (set_left s3 0) (da ++ d2)) X) as [[o e] sx].
      destruct (par (S (List.length b)) (if (0 <? L)%Z then hash_data S1 d2 else S1) X) as [[o' e'] sx'].
      cbn [nrm] in Hn |- *. inversion Hn; subst. rewrite <- app_assoc. reflexivity.
    - apply Z.ltb_ge in E1. replace (sz - Z.of_nat (List.length da) <? Z.of_nat (List.length b))%Z with false by (symmetry; apply Z.ltb_ge; lia).
      cbn [nrm]. f_equal. f_equal. unfold S1, hash_data, set_left. proj. rewrite <- !app_assoc. f_equal. lia.
  Qed.

  Lemma final_branch_terminal : forall s2 sg, exists (o : bytes) (e : rerr) (sx : cst), final_part s2 sg = (o, e, sx) /\ e <> E_None.
  Proof.
    intros s2 sg. unfold final_part. cbv zeta. destruct (check_sig (reset_hash (set_parsed s2 sg))) as [s4 ok2]. destruct (negb ok2); [do 3 eexists; split; [reflexivity|discriminate]|].
    destruct trailer as [t|]; [|do 3 eexists; split; [reflexivity|discriminate]].
    destruct (negb (beq _ (parsedChecksum s4))); [do 3 eexists; split; [reflexivity|discriminate]|].
    destruct (negb (beq _ (trailerSig s4))); do 3 eexists; (split; [reflexivity|discriminate]).
  Qed.

  Lemma par_split : forall b f a s f', isEOF s = false -> (List.length a < f)%nat -> (List.length (a ++ b) + 1 < f')%nat ->
    match par f s a with
    | (o1, E_None, s1) => (stash_len s1 <= 1024)%nat ->
                          nrm (par f' s (a ++ b)) = nrm (let '(o2, e2, s2) := read s1 b false in (o1 ++ o2, e2, s2))
    | (o1, e1, _) => exists sx, par f' s (a ++ b) = (o1, e1, sx)
    end.
  Proof.
    intros b. induction f as [|f IH]; intros a s f' Heof Hf Hf'; [lia|]. destruct f' as [|f']; [lia|]. rewrite !par_S. unfold par_body.
    destruct (pending s) as [s1 ok] eqn:Epend. destruct (pending_fields _ _ _ Epend) as [Hst [Hfh [He1 [Hl Hps]]]]. rewrite Heof in He1.
    destruct ok; cbn [negb]; [|eexists; reflexivity]. specialize (Hps eq_refl).
    rewrite !parse_header_h. destruct (Nat.ltb 1024 (stash_len s1)) eqn:Elim; [eexists; reflexivity|].
    set (st := stash_bytes s1). replace (st ++ a ++ b) with ((st ++ a) ++ b) by (symmetry; apply app_assoc).
    destruct (hparse (firstHdr s1) (st ++ a)) as [r|] eqn:Eh.
    - rewrite (hparse_mono _ _ _ b Eh). destruct r as [e|sz sg k|sg tr k].
      + cbn [apply_h]. destruct e; try (eexists; reflexivity). exfalso. exact (hparse_err_some _ _ _ Eh eq_refl).
      + cbn [apply_h].
        destruct (hparse_data_inv _ _ _ _ _ Eh) as [a1 [r1 [Heq [Hk [_ [_ [Hneg [Hz _]]]]]]]].
        assert (Hkle : (k <= List.length st + List.length a)%nat) by (rewrite <- app_length, Heq, app_length, <- Hk; lia).
        rewrite Hz. fold st. change (stash_len s1) with (List.length st) in *.
        set (off := (Z.of_nat k - Z.of_nat (List.length st))%Z).
        destruct (off <? 0)%Z eqn:Eo; cbn [orb]; [eexists; reflexivity|]. apply Z.ltb_ge in Eo.
        replace (Z.of_nat (List.length a) <? off)%Z with false by (symmetry; apply Z.ltb_ge; unfold off; lia).
        replace (Z.of_nat (List.length (a ++ b)) <? off)%Z with false by (symmetry; apply Z.ltb_ge; rewrite app_length; unfold off; lia).
        rewrite skipn_app_le by (unfold off; lia).
        set (da := skipn (Z.to_nat off) a).
        match goal with |- context [data_part (par f) ?S3 sz da] => set (s3 := S3) end.
        assert (Hs3eof : isEOF s3 = false) by (unfold s3, set_parsed; proj; exact He1).
        apply Z.ltb_ge in Hneg. apply Z.eqb_neq in Hz.
        unfold data_part at 1. destruct (sz <? Z.of_nat (List.length da))%Z eqn:El.
        * apply Z.ltb_lt in El. unfold data_part.
          replace (sz <? Z.of_nat (List.length (da ++ b)))%Z with true by (symmetry; apply Z.ltb_lt; rewrite app_length; lia).
          rewrite firstn_app_le, skipn_app_le by lia.
          set (d := firstn (Z.to_nat sz) da). set (a' := skipn (Z.to_nat sz) da).
          assert (Hlda : List.length da = (List.length a - Z.to_nat off)%nat) by (unfold da; apply skipn_length).
          assert (Hla' : (List.length a' < List.length a)%nat) by (unfold a'; rewrite skipn_length; lia).
          specialize (IH a' (hash_data (set_left s3 0) d) f').
          assert (Hfa : (List.length (a' ++ b) + 1 < f')%nat) by (rewrite app_length in *; lia).
          specialize (IH Hs3eof ltac:(lia) Hfa).
          destruct (par f (hash_data (set_left s3 0) d) a') as [[o e] sx].
          destruct e; try (destruct IH as [sy Hy]; rewrite Hy; eexists; reflexivity).
          intros Hbd. specialize (IH Hbd). apply (nrm_prefix d) in IH.
          destruct (par f' (hash_data (set_left s3 0) d) (a' ++ b)) as [[o' e'] sx']. destruct (read sx b false) as [[o2 e2] s2].
          cbn [nrm] in IH |- *. rewrite <- app_assoc. exact IH.
        * apply Z.ltb_ge in El. intros _. apply data_resume; [exact Hs3eof|exact El|rewrite app_length in Hf'; lia].
      + destruct tr as [[ts ck]|]; cbn [apply_h Z.eqb].
        all: match goal with |- context [final_part ?A ?g] => destruct (final_branch_terminal A g) as [o [e [sx [Hr Hne]]]]; rewrite Hr end.
        all: destruct e; try (eexists; reflexivity); exfalso; apply Hne; reflexivity.
    - unfold on_eof at 1. rewrite He1. cbv beta iota. intros Hb.
      match type of Hb with (stash_len ?X <= 1024)%nat => set (sk := X) in * end.
      assert (Hsk_eof : set_eof sk false = sk) by (apply set_eof_id; unfold sk, set_left, set_stash; proj; exact He1).
      assert (Hsk_len : stash_len sk = List.length (st ++ a)) by reflexivity.
      unfold SignedChunk.read. rewrite Hsk_eof. change (left sk) with 0%Z.
      destruct b as [|x b'].
      + rewrite app_nil_r, Eh. unfold on_eof. rewrite He1. cbn [List.length Z.of_nat Z.ltb Z.compare Z.sub nrm app]. do 2 f_equal.
        unfold sk, hash_data, set_left, set_stash. proj. rewrite !app_nil_r. reflexivity.
      + replace (0 <? Z.of_nat (List.length (x :: b')))%Z with true by (symmetry; apply Z.ltb_lt; cbn [List.length]; lia).
        cbn [Z.to_nat firstn skipn Z.ltb Z.compare app]. rewrite par_S. unfold par_body.
        rewrite (pending_nil sk) by (unfold sk, set_left, set_stash; proj; exact Hps). cbn [negb].
        rewrite parse_header_h. rewrite Hsk_len. replace (Nat.ltb 1024 (List.length (st ++ a))) with false by (symmetry; apply Nat.ltb_ge; rewrite <- Hsk_len; exact Hb).
        change (stash_bytes sk) with (st ++ a). change (firstHdr sk) with (firstHdr s1).
        destruct (hparse (firstHdr s1) ((st ++ a) ++ x :: b')) as [r|] eqn:E2.
        * destruct r as [e|sz sg k|sg tr k].
          -- cbn [apply_h nrm]. destruct e; try reflexivity. exfalso. exact (hparse_err_some _ _ _ E2 eq_refl).
          -- cbn [apply_h].
             destruct (hparse_data_inv _ _ _ _ _ E2) as [a1 [r1 [Heq [Hk [_ [_ [Hneg [Hz _]]]]]]]].
             pose proof (hparse_none_data_len _ _ _ _ _ _ Eh E2) as Hlt.
             assert (Hkle : (k <= List.length st + List.length a + List.length (x :: b'))%nat) by (rewrite <- !app_length, Heq, app_length, <- Hk; lia).
             rewrite Hz. change (stash_len s1) with (List.length st) in *. rewrite app_length in Hlt.
             set (bb := x :: b') in *.
             assert (Hbf : (List.length bb <= f')%nat) by (rewrite app_length in Hf'; lia).
             replace ((Z.of_nat k - Z.of_nat (List.length st) <? 0)%Z || (Z.of_nat (List.length (a ++ bb)) <? Z.of_nat k - Z.of_nat (List.length st))%Z) with false
               by (symmetry; apply orb_false_intro; apply Z.ltb_ge; rewrite ?app_length; lia).
             replace ((Z.of_nat k - Z.of_nat (List.length (st ++ a)) <? 0)%Z || (Z.of_nat (List.length bb) <? Z.of_nat k - Z.of_nat (List.length (st ++ a)))%Z) with false
               by (symmetry; apply orb_false_intro; apply Z.ltb_ge; rewrite ?app_length; lia).
             rewrite skipn_app_ge by lia.
             replace (Z.to_nat (Z.of_nat k - Z.of_nat (List.length st)) - List.length a)%nat with (Z.to_nat (Z.of_nat k - Z.of_nat (List.length (st ++ a)))) by (rewrite app_length; lia).
             set (D := skipn (Z.to_nat (Z.of_nat k - Z.of_nat (List.length (st ++ a)))) bb).
             apply Z.ltb_ge in Hneg. apply Z.eqb_neq in Hz.
             match goal with |- nrm (data_part _ ?S3 _ _) = nrm ?R => match R with context [data_part _ ?S3' _ _] =>
               replace S3' with (set_left S3 0) by reflexivity; rewrite data_part_left;
               rewrite (data_part_fuel (List.length bb) f' S3 sz D) end end.
             ++ destruct (data_part (par f') _ sz D) as [[o e] sx]. cbn [nrm app]. reflexivity.
             ++ lia.
             ++ unfold D. rewrite skipn_length. lia.
             ++ unfold D. rewrite skipn_length. lia.
          -- destruct tr as [[ts ck]|]; cbn [apply_h Z.eqb].
             all: match goal with |- nrm (final_part ?A ?g) = nrm ?R => match R with context [final_part ?A' g] =>
                    replace A' with (set_left A 0) by reflexivity; pose proof (final_part_left A g 0) as Hfl;
                    destruct (final_part (set_left A 0) g) as [[o e] sx]; destruct (final_part A g) as [[o' e'] sx'] end end.
             all: cbn [nrm app] in *; inversion Hfl; subst; reflexivity.
        * unfold on_eof. rewrite He1. change (isEOF sk) with (isEOF s1). rewrite He1. cbn [nrm app]. do 2 f_equal.
  Qed.

  (* Read itself: what is left of a chunk's data is consumed like the data after a header *)
  Lemma read_as_data : forall s X, (0 <= left s)%Z ->
    nrm (read s X false) = nrm (data_part (par (S (List.length X))) (set_eof s false) (left s) X).
  Proof.
    intros s X Hl. unfold SignedChunk.read, data_part. set (s0 := set_eof s false). change (left s0) with (left s).
    destruct (left s <? Z.of_nat (List.length X))%Z eqn:E; [|reflexivity].
    destruct (0 <? left s)%Z eqn:E0.
    - replace (hash_data s0 (firstn (Z.to_nat (left s)) X)) with (set_left (hash_data (set_left s0 0) (firstn (Z.to_nat (left s)) X)) (left s)) by reflexivity.
      apply nrm_prefix. apply par_left.
    - assert (H0 : left s = 0%Z) by (apply Z.ltb_ge in E0; lia). rewrite H0. cbn [Z.to_nat firstn skipn].
      replace (hash_data (set_left s0 0) []) with s0; [reflexivity|].
      unfold s0, hash_data, set_left, set_eof. proj. rewrite H0, !app_nil_r. reflexivity.
  Qed.

  Lemma read_split : forall a b s, (0 <= left s)%Z ->
    match read s a false with
    | (o1, E_None, s1) => (stash_len s1 <= 1024)%nat ->
                          nrm (read s (a ++ b) false) = nrm (let '(o2, e2, s2) := read s1 b false in (o1 ++ o2, e2, s2))
    | (o1, e1, _) => exists sx, read s (a ++ b) false = (o1, e1, sx)
    end.
  Proof.
    intros a b s Hl. unfold SignedChunk.read at 1. set (s0 := set_eof s false). change (left s0) with (left s).
    assert (He0 : isEOF s0 = false) by reflexivity.
    destruct (left s <? Z.of_nat (List.length a))%Z eqn:E.
    - apply Z.ltb_lt in E. set (k := Z.to_nat (left s)). set (d := firstn k a). set (a' := skipn k a).
      set (s1 := if (0 <? left s)%Z then hash_data s0 d else s0).
      assert (He1 : isEOF s1 = false) by (unfold s1; destruct (0 <? left s)%Z; reflexivity).
      assert (Hla : (List.length a' <= List.length a)%nat) by (unfold a'; rewrite skipn_length; lia).
      assert (Hab : read s (a ++ b) false = let '(out, e, s2) := par (S (S (List.length (a ++ b)))) s1 (a' ++ b) in (d ++ out, e, s2)).
      { unfold SignedChunk.read. fold s0. change (left s0) with (left s).
        replace (left s <? Z.of_nat (List.length (a ++ b)))%Z with true by (symmetry; apply Z.ltb_lt; rewrite app_length; lia).
        fold k. rewrite firstn_app_le, skipn_app_le by (unfold k; lia). fold d a' s1.
        rewrite (par_fuel (S (List.length (a ++ b))) (S (S (List.length (a ++ b))))); [reflexivity| |]; rewrite !app_length in *; lia. }
      pose proof (par_split b (S (List.length a)) a' s1 (S (S (List.length (a ++ b)))) He1 ltac:(lia) ltac:(rewrite !app_length in *; lia)) as Hsp.
      destruct (par (S (List.length a)) s1 a') as [[o e] sx].
      destruct e; try (destruct Hsp as [sy Hy]; rewrite Hab, Hy; eexists; reflexivity).
      intros Hbd. specialize (Hsp Hbd). rewrite Hab. apply (nrm_prefix d) in Hsp.
      destruct (par (S (S (List.length (a ++ b)))) s1 (a' ++ b)) as [[o' e'] sx']. destruct (read sx b false) as [[o2 e2] s2].
      cbn [nrm] in Hsp |- *. rewrite <- app_assoc. exact Hsp.
    - apply Z.ltb_ge in E. intros _. rewrite (read_as_data s (a ++ b) Hl). fold s0.
      apply (data_resume (S (List.length (a ++ b))) s0 (left s) a b He0 E). rewrite app_length. lia.
  Qed.

  (* ---------- 3e. any fragmentation *)
  Fixpoint reads (s : cst) (frags : list bytes) : bytes * rerr * cst :=
    match frags with
    | [] => ([], E_None, s)
    | f :: r => let '(o, e, s1) := read s f false in
                match e with
                | E_None => let '(o2, e2, s2) := reads s1 r in (o ++ o2, e2, s2)
                | _ => (o, e, s1)
                end
    end.

  Definition good (s : cst) : Prop := (stash_len s <= 1024)%nat /\ (0 <= left s)%Z /\ isEOF s = false.

  (* the states between the fragments are ones the reader can resume from (no pending header beyond its 1024-byte stash limit) *)
  Fixpoint bounded (s : cst) (frags : list bytes) : Prop :=
    match frags with
    | [] => True
    | f :: r => let '(o, e, s1) := read s f false in match e with E_None => good s1 /\ bounded s1 r | _ => True end
    end.

  Lemma read_nil : forall s, (0 <= left s)%Z -> isEOF s = false -> read s [] false = ([], E_None, s).
  Proof.
    intros s Hl He. unfold SignedChunk.read. cbn [List.length Z.of_nat]. change (left (set_eof s false)) with (left s).
    replace (left s <? 0)%Z with false by (symmetry; apply Z.ltb_ge; exact Hl). do 2 f_equal.
    destruct s. cbn in *. subst. unfold hash_data, set_left, set_eof. proj. rewrite !app_nil_r, Z.sub_0_r. reflexivity.
  Qed.

  Theorem reads_concat : forall frags s, (0 <= left s)%Z -> isEOF s = false -> bounded s frags ->
    nrm (reads s frags) = nrm (read s (concat frags) false).
  Proof.
    induction frags as [|f r IH]; intros s Hl He Hb; cbn [reads concat bounded] in *.
    - rewrite read_nil by assumption. reflexivity.
    - pose proof (read_split f (concat r) s Hl) as Hsp. destruct (read s f false) as [[o e] s1].
      destruct e; try (destruct Hsp as [sx Hx]; rewrite Hx; reflexivity).
      destruct Hb as [[Hg1 [Hg2 Hg3]] Hb']. rewrite (Hsp Hg1). apply nrm_prefix. apply IH; assumption.
  Qed.

  Lemma nrm_none_inv : forall X o s, nrm X = nrm (o, E_None, s) -> X = (o, E_None, s).
  Proof. intros [[o' e'] s'] o s H. cbn in H. destruct e'; inversion H; subst; reflexivity. Qed.

  (* ... which holds as soon as it holds of the states reached by reading prefixes of the stream in one piece *)
  Lemma bounded_prefix : forall frags s S, (0 <= left s)%Z ->
    (forall p q o s1, p ++ q = S -> read s p false = (o, E_None, s1) -> good s1) ->
    (exists q, concat frags ++ q = S) -> bounded s frags.
  Proof.
    induction frags as [|f r IH]; intros s S Hl Hp [q Hq]; cbn [bounded concat] in *; [exact I|].
    destruct (read s f false) as [[o e] s1] eqn:Er. destruct e; try exact I.
    assert (Hg : good s1) by (apply (Hp f (concat r ++ q) o s1); [rewrite app_assoc; exact Hq|exact Er]).
    split; [exact Hg|]. destruct Hg as [Hg1 [Hg2 Hg3]].
    apply (IH s1 (concat r ++ q) Hg2); [|exists q; reflexivity].
    intros p' q' o2 s2 Hpq Er2. pose proof (read_split f p' s Hl) as Hsp. rewrite Er in Hsp. specialize (Hsp Hg1). rewrite Er2 in Hsp.
    apply nrm_none_inv in Hsp. apply (Hp (f ++ p') q' (o ++ o2) s2); [|exact Hsp].
    rewrite <- app_assoc, Hpq, app_assoc. exact Hq.
  Qed.

  (* ---------- 4. valid streams: the encoder the reader is the inverse of *)
  Notation csig := (chunk_signature sha256 hmac256 hex key stsPayload).
  Notation tsign := (trailer_signature sha256 hmac256 hex key stsTrailer).

  Definition ck_of (pay : bytes) : bytes := match trailer with Some t => trailer_sum t pay | None => [] end.
  Definition tsig_of (sig pay : bytes) : bytes := match trailer with Some t => tsign t sig (ck_of pay) | None => [] end.

  (* a chunk is (spelling of its size, data); prev: the signature the next one chains on; pay: the payload so far *)
  Fixpoint enc (first : bool) (prev pay : bytes) (cs : list (bytes * bytes)) (a0 : bytes) : bytes :=
    match cs with
    | [] => let sig := csig prev [] in fhdr first a0 sig (ck_of pay) (tsig_of sig pay)
    | (a, d) :: r => let sig := csig prev d in dhdr first a sig ++ d ++ enc false sig (pay ++ d) r a0
    end.

  Definition wf_chunk (c : bytes * bytes) : Prop :=
    ~ In 59 (fst c) /\ parse_hex (fst c) = Some (Z.of_nat (List.length (snd c))) /\ snd c <> [].
  Definition wf_final (a0 : bytes) : Prop := ~ In 59 a0 /\ parse_hex a0 = Some 0%Z.

  (* the state at a chunk boundary: nothing stashed, and once the pending signature check is made the chain stands at prev *)
  Definition bstate (s : cst) (first : bool) (prev pay : bytes) : Prop :=
    stash s = None /\ firstHdr s = first /\ cbuf s = pay /\
    ((parsedSig s = [] /\ prevSig s = prev /\ hbuf s = []) \/ (parsedSig s = prev /\ prev <> [] /\ csig (prevSig s) (hbuf s) = prev)).

  Lemma pending_bstate : forall s first prev pay, bstate s first prev pay ->
    exists s1, pending s = (s1, true) /\ stash s1 = None /\ firstHdr s1 = first /\ cbuf s1 = pay /\ prevSig s1 = prev /\ parsedSig s1 = [] /\ hbuf s1 = [].
  Proof.
    intros s first prev pay [Hst [Hf [Hc [[Hp [Hv Hh]]|[Hp [Hne He]]]]]]; unfold pending.
    - rewrite Hp. exists s. repeat split; assumption.
    - rewrite Hp. destruct prev as [|x prev']; [exfalso; apply Hne; reflexivity|]. unfold SignedChunk.check_sig. rewrite He, Hp, beq_refl.
      eexists. split; [reflexivity|]. cbn. repeat split; assumption.
  Qed.

  Lemma enc_nonempty : forall cs first prev pay a0 rest, enc first prev pay cs a0 ++ rest <> [].
  Proof.
    intros cs first prev pay a0 rest H. apply (f_equal (@List.length N)) in H. destruct cs as [|[a d] r]; cbn [enc] in H; unfold fhdr, dhdr in H;
      rewrite !app_length in H; cbn [List.length] in H; rewrite !app_length in H; replace (List.length chunkSigKw) with 16%nat in H by reflexivity; lia.
  Qed.

  Section Valid.
    Hypothesis Hhex13 : forall x, ~ In 13 (hex x).
    Hypothesis Hhexne : forall x, hex x <> [].
    Variables (a0 total : bytes).
    Hypothesis Hfin : wf_final a0.
    Hypothesis Htr : forall t, trailer = Some t -> ~ In 13 (trailer_sum t total) /\ valid_checksum t (trailer_sum t total) = true.

    Lemma par_enc : forall cs first prev pay s f rest,
      Forall wf_chunk cs -> pay ++ concat (map snd cs) = total -> bstate s first prev pay -> (List.length cs < f)%nat ->
      exists s', par f s (enc first prev pay cs a0 ++ rest) = (concat (map snd cs), E_EOF, s').
    Proof.
      induction cs as [|[a d] cs IH]; intros first prev pay s f rest Hwf Htot Hb Hf; (destruct f as [|f]; [lia|]); rewrite par_S; unfold par_body;
        destruct (pending_bstate _ _ _ _ Hb) as [s1 [Hpend [Hst [Hfirst [Hcb [Hprev [Hps Hhb]]]]]]]; rewrite Hpend; cbn [negb];
        rewrite parse_header_h; unfold stash_len, stash_bytes; rewrite Hst; cbn [List.length Nat.ltb Nat.leb app]; rewrite Hfirst.
      - cbn [enc concat map] in *. rewrite app_nil_r in Htot. subst pay.
        destruct Hfin as [Ha0 Hp0].
        rewrite (hparse_fhdr first a0 (csig prev []) (ck_of total) (tsig_of (csig prev []) total) rest Ha0 Hp0 (Hhex13 _)).
        2: { intros t Et. destruct (Htr t Et) as [H1 H2]. unfold ck_of, tsig_of. rewrite Et. repeat split; try assumption. apply Hhex13. }
        unfold tsig_of, ck_of, final_part. destruct trailer as [t|]; cbn [apply_h Z.eqb]; unfold SignedChunk.check_sig, reset_hash, set_parsed, set_stash;
          cbn [stash left prevSig parsedSig hbuf cbuf firstHdr isEOF trailerSig parsedChecksum];
          rewrite ?Hprev, ?Hcb, ?beq_refl; cbn [negb]; rewrite ?beq_refl; cbn [negb]; eexists; reflexivity.
      - cbn [enc concat map snd] in *. inversion Hwf as [|c cs' [Ha [Hp Hd]] Hwf']; subst c cs'. cbn [fst snd] in Ha, Hp, Hd.
        set (sig := csig prev d) in *. set (E := enc false sig (pay ++ d) cs a0).
        replace ((dhdr first a sig ++ d ++ E) ++ rest) with (dhdr first a sig ++ d ++ E ++ rest) by (rewrite <- !app_assoc; reflexivity).
        assert (Hneg : (Z.of_nat (List.length d) <? 0)%Z = false) by (apply Z.ltb_ge; lia).
        assert (Hz : (Z.of_nat (List.length d) =? 0)%Z = false) by (apply Z.eqb_neq; destruct d; [exfalso; apply Hd; reflexivity|cbn [List.length]; lia]).
        assert (Hs13 : ~ In 13 sig) by (apply Hhex13).
        rewrite (hparse_dhdr first a sig _ _ Ha Hp Hneg Hz Hs13 (Hhexne _)). cbn [apply_h]. rewrite Hz.
        set (L := List.length (dhdr first a sig)). replace (Z.of_nat L - Z.of_nat 0)%Z with (Z.of_nat L) by lia.
        assert (Hlenp : List.length (dhdr first a sig ++ d ++ E ++ rest) = (L + List.length (d ++ E ++ rest))%nat) by (rewrite app_length; reflexivity).
        rewrite Hlenp. replace ((Z.of_nat L <? 0)%Z || (Z.of_nat (L + List.length (d ++ E ++ rest)) <? Z.of_nat L)%Z) with false
          by (symmetry; apply orb_false_intro; apply Z.ltb_ge; lia).
        rewrite Nat2Z.id. unfold L. rewrite skipn_len_app. unfold data_part.
        assert (Hne : List.length (E ++ rest) <> O).
        { pose proof (enc_nonempty cs false sig (pay ++ d) a0 rest) as Hn. fold E in Hn. destruct (E ++ rest); [exfalso; apply Hn; reflexivity|discriminate]. }
        replace (Z.of_nat (List.length d) <? Z.of_nat (List.length (d ++ E ++ rest)))%Z with true by (symmetry; apply Z.ltb_lt; rewrite app_length; lia).
        rewrite Nat2Z.id, firstn_len_app, skipn_len_app.
        inversion Hwf as [|c cs' _ Hwf'']; subst c cs'.
        destruct (IH false sig (pay ++ d) (hash_data (set_left (set_parsed {| stash := None; left := left s1; prevSig := prevSig s1; parsedSig := parsedSig s1; hbuf := hbuf s1;
                     cbuf := cbuf s1; firstHdr := false; isEOF := isEOF s1; trailerSig := trailerSig s1; parsedChecksum := parsedChecksum s1 |} sig) 0) d) f rest Hwf'') as [s' Hs'].
        + rewrite <- app_assoc. exact Htot.
        + unfold bstate, hash_data, set_left, set_parsed. cbn [stash left prevSig parsedSig hbuf cbuf firstHdr isEOF trailerSig parsedChecksum].
          repeat split; try reflexivity; [rewrite Hcb; reflexivity|]. right. rewrite Hprev, Hhb. cbn [app]. repeat split; try reflexivity. apply Hhexne.
        + cbn [List.length] in Hf. lia.
        + fold E in Hs'. rewrite Hs'. eexists. reflexivity.
    Qed.

    Lemma enc_len : forall cs first prev pay, (List.length cs < List.length (enc first prev pay cs a0))%nat.
    Proof.
      induction cs as [|[a d] cs IH]; intros first prev pay; cbn [enc List.length].
      - unfold fhdr. rewrite !app_length. cbn [List.length]. lia.
      - unfold dhdr. rewrite !app_length. cbn [List.length]. specialize (IH false (csig prev d) (pay ++ d)). lia.
    Qed.

    (* the whole stream in one delivery decodes to the payload and ends cleanly *)
    Theorem decode_whole : forall seed cs eof, Forall wf_chunk cs -> concat (map snd cs) = total ->
      run (init seed) [(enc true seed [] cs a0, eof)] [] = (total, E_EOF).
    Proof.
      intros seed cs eof Hwf Htot. cbn [SignedChunk.run]. unfold SignedChunk.read.
      set (F := enc true seed [] cs a0). set (s0 := set_eof (init seed) eof).
      assert (HF : (0 < List.length F)%nat) by (pose proof (enc_len cs true seed []); fold F in H; lia).
      replace (left s0 <? Z.of_nat (List.length F))%Z with true by (symmetry; apply Z.ltb_lt; cbn; lia).
      change (left s0) with 0%Z. cbn [Z.to_nat firstn skipn Z.ltb Z.compare].
      destruct (par_enc cs true seed [] s0 (S (List.length F)) [] Hwf Htot) as [s' Hs'].
      - unfold bstate, s0, set_eof, init. cbn [stash left prevSig parsedSig hbuf cbuf firstHdr isEOF trailerSig parsedChecksum]. repeat split. left. repeat split.
      - pose proof (enc_len cs true seed []). fold F in H. lia.
      - fold F in Hs'. rewrite app_nil_r in Hs'. rewrite Hs'. cbn [app]. rewrite Htot. reflexivity.
    Qed.

    (* ---------- 5. every fragmentation of a valid stream *)
    Hypothesis Hhexlen : forall x, (List.length (hex x) <= 64)%nat.
    Hypothesis Ha0len : (List.length a0 <= 64)%nat.
    Hypothesis Htrlen : forall t, trailer = Some t -> (List.length (trailer_sum t total) <= 64)%nat.
    Definition short_chunk (c : bytes * bytes) : Prop := (List.length (fst c) <= 64)%nat.

    Lemma csig_len : forall prev d, (List.length (csig prev d) <= 64)%nat.
    Proof. intros. unfold SignedChunk.chunk_signature. apply Hhexlen. Qed.
    Lemma tname_len : forall t, (List.length (trailer_name t) <= 21)%nat.
    Proof. intros []; vm_compute; lia. Qed.

    Lemma dhdr_len : forall first a prev d, (List.length a <= 64)%nat -> (List.length (dhdr first a (csig prev d)) <= 200)%nat.
    Proof.
      intros first a prev d Ha. unfold dhdr, pre. pose proof (csig_len prev d). destruct first; repeat first [rewrite app_length | progress cbn [List.length]];
        replace (List.length chunkSigKw) with 16%nat by reflexivity; lia.
    Qed.
    Lemma fhdr_len : forall first prev, (List.length (fhdr first a0 (csig prev []) (ck_of total) (tsig_of (csig prev []) total)) <= 400)%nat.
    Proof.
      intros first prev. unfold fhdr, ftail, pre, tsig_of, ck_of. pose proof (csig_len prev []).
      destruct trailer as [t|] eqn:Et.
      - pose proof (Htrlen t eq_refl). pose proof (tname_len t).
        assert (Hts : (List.length (tsign t (csig prev []) (trailer_sum t total)) <= 64)%nat) by (unfold SignedChunk.trailer_signature; apply Hhexlen).
        destruct first; repeat first [rewrite app_length | progress cbn [List.length]];
          replace (List.length chunkSigKw) with 16%nat by reflexivity; replace (List.length trailerSigKw) with 23%nat by reflexivity; lia.
      - destruct first; repeat first [rewrite app_length | progress cbn [List.length]]; replace (List.length chunkSigKw) with 16%nat by reflexivity; lia.
    Qed.

    Lemma prefix_none_data : forall first a sig sz R p q,
      ~ In 59 a -> parse_hex a = Some sz -> (sz <? 0)%Z = false -> (sz =? 0)%Z = false -> ~ In 13 sig -> sig <> [] ->
      p ++ q = dhdr first a sig ++ R -> (List.length p < List.length (dhdr first a sig))%nat -> hparse first p = None.
    Proof.
      intros first a sig sz R p q Ha Hp Hn Hz Hs Hsne Hpq Hl. destruct (hparse first p) as [h|] eqn:E; [exfalso|reflexivity].
      pose proof (hparse_mono _ _ _ q E) as Hm. rewrite Hpq, (hparse_dhdr first a sig sz R Ha Hp Hn Hz Hs Hsne) in Hm. inversion Hm; subst h.
      destruct (hparse_data_inv _ _ _ _ _ E) as [a1 [r1 [Heq [Hk _]]]]. rewrite Heq, app_length in Hl. lia.
    Qed.

    Lemma prefix_none_final : forall first prev p q,
      p ++ q = fhdr first a0 (csig prev []) (ck_of total) (tsig_of (csig prev []) total) ->
      (List.length p < List.length (fhdr first a0 (csig prev []) (ck_of total) (tsig_of (csig prev []) total)))%nat -> hparse first p = None.
    Proof.
      intros first prev p q Hpq Hl. destruct (hparse first p) as [h|] eqn:E; [exfalso|reflexivity].
      pose proof (hparse_mono _ _ _ q E) as Hm. rewrite Hpq in Hm. rewrite <- (app_nil_r (fhdr _ _ _ _ _)) in Hm.
      destruct Hfin as [Ha0 Hp0].
      rewrite (hparse_fhdr first a0 (csig prev []) (ck_of total) (tsig_of (csig prev []) total) [] Ha0 Hp0 (Hhex13 _)) in Hm.
      2: { intros t Et. destruct (Htr t Et) as [H1 H2]. unfold tsig_of, ck_of. rewrite Et. repeat split; try assumption. apply Hhex13. }
      inversion Hm; subst h. pose proof (hparse_final_len _ _ _ _ _ E). lia.
    Qed.

    Lemma par_enc_prefix : forall cs first prev pay s f p q,
      Forall wf_chunk cs -> Forall short_chunk cs -> pay ++ concat (map snd cs) = total -> bstate s first prev pay -> isEOF s = false ->
      (List.length p < f)%nat -> p ++ q = enc first prev pay cs a0 ->
      forall o s1, par f s p = (o, E_None, s1) -> good s1.
    Proof.
      induction cs as [|[a d] cs IH]; intros first prev pay s f p q Hwf Hsh Htot Hb Heof Hf Hpq o sx Hpar.
      - cbn [enc] in Hpq. set (F := fhdr first a0 (csig prev []) (ck_of pay) (tsig_of (csig prev []) pay)) in *.
        assert (Hpay : pay = total) by (cbn [concat map] in Htot; rewrite app_nil_r in Htot; exact Htot). subst pay.
        destruct (le_lt_dec (List.length F) (List.length p)) as [Hge|Hlt].
        + (* the whole final header: the read ends the stream, not E_None *)
          assert (Hp : p = F). { apply (f_equal (@List.length N)) in Hpq as Hlen. rewrite app_length in Hlen. assert (Hq : q = []) by (destruct q; [reflexivity|cbn [List.length] in Hlen; lia]). subst q. rewrite app_nil_r in Hpq. exact Hpq. }
          destruct (par_enc [] first prev total s f [] Hwf Htot Hb ltac:(cbn [List.length]; lia)) as [s' Hs']. cbn [enc] in Hs'. fold F in Hs'. rewrite app_nil_r, <- Hp in Hs'.
          rewrite Hs' in Hpar. discriminate Hpar.
        + destruct f as [|f]; [lia|]. rewrite par_S in Hpar. unfold par_body in Hpar.
          destruct (pending_bstate _ _ _ _ Hb) as [s1 [Hpend [Hst [Hfirst [Hcb [Hprev [Hps Hhb]]]]]]]. rewrite Hpend in Hpar. cbn [negb] in Hpar.
          destruct (pending_fields _ _ _ Hpend) as [_ [_ [He1 _]]]. rewrite Heof in He1.
          rewrite parse_header_h in Hpar. unfold stash_len, stash_bytes in Hpar. rewrite Hst in Hpar. cbn [List.length Nat.ltb Nat.leb app] in Hpar. rewrite Hfirst in Hpar.
          rewrite (prefix_none_final first prev p q Hpq Hlt) in Hpar. unfold on_eof in Hpar. rewrite He1 in Hpar. injection Hpar as Ho Hsx; subst o sx.
          unfold good, stash_len, stash_bytes, set_left, set_stash. proj. repeat split; try lia; try assumption.
          pose proof (fhdr_len first prev). fold F in H. lia.
      - cbn [enc concat map snd] in *. inversion Hwf as [|c cs' [Ha [Hp Hd]] Hwf']; subst c cs'. inversion Hsh as [|c cs' Hsa Hsh']; subst c cs'.
        cbn [fst snd] in Ha, Hp, Hd. unfold short_chunk in Hsa. cbn [fst] in Hsa.
        set (sig := csig prev d) in *. set (E := enc false sig (pay ++ d) cs a0) in *.
        assert (Hneg : (Z.of_nat (List.length d) <? 0)%Z = false) by (apply Z.ltb_ge; lia).
        assert (Hz : (Z.of_nat (List.length d) =? 0)%Z = false) by (apply Z.eqb_neq; destruct d; [exfalso; apply Hd; reflexivity|cbn [List.length]; lia]).
        assert (Hs13 : ~ In 13 sig) by (apply Hhex13).
        destruct f as [|f]; [lia|]. rewrite par_S in Hpar. unfold par_body in Hpar.
        destruct (pending_bstate _ _ _ _ Hb) as [s1 [Hpend [Hst [Hfirst [Hcb [Hprev [Hps Hhb]]]]]]]. rewrite Hpend in Hpar. cbn [negb] in Hpar.
        destruct (pending_fields _ _ _ Hpend) as [_ [_ [He1 _]]]. rewrite Heof in He1.
        rewrite parse_header_h in Hpar. unfold stash_len, stash_bytes in Hpar. rewrite Hst in Hpar. cbn [List.length Nat.ltb Nat.leb app] in Hpar. rewrite Hfirst in Hpar.
        set (L := List.length (dhdr first a sig)) in *.
        destruct (le_lt_dec L (List.length p)) as [Hge|Hlt].
        + (* the header is complete *)
          pose proof (app_prefix_split p q (dhdr first a sig) (d ++ E) Hpq Hge) as Hp2. fold L in Hp2. set (p2 := skipn L p) in *.
          assert (Hp2q : p2 ++ q = d ++ E) by (rewrite Hp2, <- app_assoc in Hpq; apply app_inv_head in Hpq; exact Hpq).
          rewrite Hp2 in Hpar. rewrite (hparse_dhdr first a sig _ p2 Ha Hp Hneg Hz Hs13 (Hhexne _)) in Hpar. cbn [apply_h] in Hpar. rewrite Hz in Hpar. fold L in Hpar.
          replace (Z.of_nat L - Z.of_nat 0)%Z with (Z.of_nat L) in Hpar by lia.
          replace ((Z.of_nat L <? 0)%Z || (Z.of_nat (List.length (dhdr first a sig ++ p2)) <? Z.of_nat L)%Z) with false in Hpar
            by (symmetry; apply orb_false_intro; apply Z.ltb_ge; rewrite ?app_length; fold L; lia).
          rewrite Nat2Z.id in Hpar. unfold L in Hpar. rewrite skipn_len_app in Hpar. unfold data_part in Hpar.
          match type of Hpar with context [hash_data (set_left ?S3 0) _] => set (s3 := S3) in * end.
          destruct (Z.of_nat (List.length d) <? Z.of_nat (List.length p2))%Z eqn:El.
          * apply Z.ltb_lt in El. pose proof (app_prefix_split p2 q d E Hp2q ltac:(lia)) as Hp3. set (p3 := skipn (List.length d) p2) in *.
            assert (Hp3q : p3 ++ q = E) by (rewrite Hp3, <- app_assoc in Hp2q; apply app_inv_head in Hp2q; exact Hp2q).
            rewrite Nat2Z.id in Hpar. cbv zeta in Hpar. rewrite Hp3 in Hpar. rewrite firstn_len_app, skipn_len_app in Hpar.
            destruct (par f (hash_data (set_left s3 0) d) p3) as [[o' e'] s'] eqn:Erec. inversion Hpar; subst o e' s'.
            eapply (IH false sig (pay ++ d) (hash_data (set_left s3 0) d) f p3 q Hwf' Hsh'); [| | | |exact Hp3q|exact Erec].
            -- rewrite <- app_assoc. exact Htot.
            -- unfold bstate, s3, hash_data, set_left, set_parsed. proj. repeat split; try reflexivity; [rewrite Hcb; reflexivity|]. right. rewrite Hprev, Hhb. cbn [app]. repeat split; try reflexivity. apply Hhexne.
            -- unfold s3, hash_data, set_left, set_parsed. proj. exact He1.
            -- rewrite Hp2, Hp3, !app_length in Hf. lia.
          * injection Hpar as Ho Hsx; subst o sx. unfold good, stash_len, stash_bytes, s3, hash_data, set_left, set_parsed. proj. apply Z.ltb_ge in El. repeat split; [cbn; lia|lia|exact He1].
        + rewrite (prefix_none_data first a sig _ (d ++ E) p q Ha Hp Hneg Hz Hs13 (Hhexne _) Hpq Hlt) in Hpar. unfold on_eof in Hpar. rewrite He1 in Hpar. injection Hpar as Ho Hsx; subst o sx.
          unfold good, stash_len, stash_bytes, set_left, set_stash. proj. repeat split; try lia; try assumption.
          pose proof (dhdr_len first a prev d Hsa). fold sig L in H. lia.
    Qed.

    Lemma run_reads : forall frags s acc,
      run s (map (fun f => (f, false)) frags) acc =
      let '(o, e, s') := reads s frags in
      match e with
      | E_None => let '(o2, e2, _) := read s' [] true in (acc ++ o ++ o2, e2)
      | _ => (acc ++ o, e)
      end.
    Proof.
      induction frags as [|f r IH]; intros s acc; cbn [map SignedChunk.run reads].
      - destruct (read s [] true) as [[o2 e2] sx]. reflexivity.
      - destruct (read s f false) as [[o e] s1]. destruct e; try reflexivity.
        rewrite IH. destruct (reads s1 r) as [[o' e'] s2]. destruct e'; rewrite <- ?app_assoc; try reflexivity.
        destruct (read s2 [] true) as [[o2 e2] sx]. rewrite <- !app_assoc. reflexivity.
    Qed.

    Lemma init_bstate : forall seed, bstate (set_eof (init seed) false) true seed [].
    Proof. intros seed. unfold bstate, set_eof, init. proj. repeat split. left. repeat split. Qed.

    Lemma read_whole : forall seed cs, Forall wf_chunk cs -> concat (map snd cs) = total ->
      exists s', read (init seed) (enc true seed [] cs a0) false = (total, E_EOF, s').
    Proof.
      intros seed cs Hwf Htot. unfold SignedChunk.read. set (F := enc true seed [] cs a0). set (s0 := set_eof (init seed) false).
      assert (HF : (0 < List.length F)%nat) by (pose proof (enc_len cs true seed []); fold F in H; lia).
      replace (left s0 <? Z.of_nat (List.length F))%Z with true by (symmetry; apply Z.ltb_lt; cbn; lia).
      change (left s0) with 0%Z. cbn [Z.to_nat firstn skipn Z.ltb Z.compare].
      destruct (par_enc cs true seed [] s0 (S (List.length F)) [] Hwf Htot (init_bstate seed)) as [s' Hs'].
      - pose proof (enc_len cs true seed []). fold F in H. lia.
      - fold F in Hs'. rewrite app_nil_r in Hs'. rewrite Hs'. cbn [app]. rewrite Htot. eexists. reflexivity.
    Qed.

    (* C12, the signed reader: however the encoded bytes are split across reads, the payload comes out and the stream ends cleanly *)
    Theorem decode_fragmented : forall seed cs frags,
      Forall wf_chunk cs -> Forall short_chunk cs -> concat (map snd cs) = total -> concat frags = enc true seed [] cs a0 ->
      run (init seed) (map (fun f => (f, false)) frags) [] = (total, E_EOF).
    Proof.
      intros seed cs frags Hwf Hsh Htot Hfr. set (STR := enc true seed [] cs a0) in *.
      assert (Hl0 : (0 <= left (init seed))%Z) by (cbn; lia).
      assert (Hbd : bounded (init seed) frags).
      { apply (bounded_prefix frags (init seed) STR Hl0); [|exists []; rewrite app_nil_r; exact Hfr].
        intros p q o s1 Hpq Hr. destruct p as [|x p'].
        - rewrite read_nil in Hr by (cbn; try lia; reflexivity). injection Hr as _ Hs; subst s1. unfold good. cbn. repeat split; lia.
        - unfold SignedChunk.read in Hr. set (s0 := set_eof (init seed) false) in *. change (left s0) with 0%Z in Hr.
          replace (0 <? Z.of_nat (List.length (x :: p')))%Z with true in Hr by (symmetry; apply Z.ltb_lt; cbn [List.length]; lia).
          cbn [Z.to_nat firstn skipn Z.ltb Z.compare] in Hr.
          destruct (par (S (List.length (x :: p'))) s0 (x :: p')) as [[o' e'] s'] eqn:Ep. injection Hr as Ho He Hs; subst o e' s'.
          apply (par_enc_prefix cs true seed [] s0 (S (List.length (x :: p'))) (x :: p') q Hwf Hsh Htot (init_bstate seed) eq_refl ltac:(lia) Hpq o' s1 Ep). }
      pose proof (reads_concat frags (init seed) Hl0 eq_refl Hbd) as Hrc. rewrite Hfr in Hrc.
      destruct (read_whole seed cs Hwf Htot) as [s' Hs']. fold STR in Hs'. rewrite Hs' in Hrc.
      rewrite run_reads. destruct (reads (init seed) frags) as [[o e] sx]. cbn [nrm] in Hrc. inversion Hrc; subst. reflexivity.
    Qed.
  End Valid.
End Frag.
