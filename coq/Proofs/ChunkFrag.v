(* C12, the positive half: the signed aws-chunked reader (Model/SignedChunk.v, a transcription of
   s3api/utils/signed-chunk-reader.go) gives the same answer however the encoded bytes are split across reads.

   Plan of the file:
     1. the byte-level primitives are prefix-monotone (a verdict reached on l stands on l ++ b);
     2. the header parser, seen as a function of the header bytes, is prefix-monotone, and an incomplete parse
        resumes from the stash exactly where a one-piece parse would be;
     3. par / read: reading a ++ b in one piece = reading a, then b (outputs concatenated), as long as no pending
        header outgrows the reader's 1024-byte stash limit;
     4. any two fragmentations of one byte string give the same result. *)
From Coq Require Import NArith ZArith List Bool Lia.
From VGW Require Import Base.Bytes Crypto.Crc Model.SignedChunk.
Import ListNotations.
Open Scope N_scope.

(* ---------- 1. primitives *)
Lemma read_until_app : forall d l acc a r b, read_until d l acc = Some (a, r) -> read_until d (l ++ b) acc = Some (a, r ++ b).
Proof.
  intros d l. induction l as [|x l IH]; intros acc a r b H; cbn in *; [discriminate|].
  destruct (x =? d); [inversion H; subst; reflexivity|]. apply IH. exact H.
Qed.
Lemma read_until_none_app : forall d l acc b, read_until d l acc = None -> read_until d (l ++ b) acc = read_until d b (acc ++ l).
Proof.
  intros d l. induction l as [|x l IH]; intros acc b H; cbn in *; [rewrite app_nil_r; reflexivity|].
  destruct (x =? d); [discriminate|]. rewrite IH by exact H. rewrite <- app_assoc. reflexivity.
Qed.
Lemma read_and_skip_ok_app : forall exp l r b, read_and_skip exp l = R_ok r -> read_and_skip exp (l ++ b) = R_ok (r ++ b).
Proof.
  induction exp as [|e exp IH]; intros l r b H; cbn in *; [inversion H; reflexivity|].
  destruct l as [|x l]; [discriminate|]. cbn. destruct (x =? e); [apply IH; exact H|discriminate].
Qed.
Lemma read_and_skip_bad_app : forall exp l b, read_and_skip exp l = R_bad -> read_and_skip exp (l ++ b) = R_bad.
Proof.
  induction exp as [|e exp IH]; intros l b H; cbn in *; [discriminate|].
  destruct l as [|x l]; [discriminate|]. cbn. destruct (x =? e); [apply IH; exact H|reflexivity].
Qed.
(* bytes.Index(l, "\r\n"), unfolded one step without the literal patterns *)
Ltac nsplit x :=
  destruct x as [|x]; [|destruct x as [x|x|]; [destruct x as [x|x|]; [destruct x as [x|x|]; [destruct x as [x|x|]|destruct x as [x|x|]|]|destruct x as [x|x|]; [destruct x as [x|x|]|destruct x as [x|x|]|]|]
                                              |destruct x as [x|x|]; [destruct x as [x|x|]; [destruct x as [x|x|]|destruct x as [x|x|]|]|destruct x as [x|x|]; [destruct x as [x|x|]|destruct x as [x|x|]|]|]|]].
Lemma index_crlf_unfold : forall l i,
  index_crlf l i = match l with
                   | x :: y :: r => if (x =? 13) && (y =? 10) then Some i else index_crlf (y :: r) (S i)
                   | [_] => None
                   | [] => None
                   end.
Proof.
  intros l i. destruct l as [|x [|y r]]; [reflexivity| |].
  - nsplit x; reflexivity.
  - nsplit x; try reflexivity; nsplit y; reflexivity.
Qed.
Lemma index_crlf_app : forall l i n b, index_crlf l i = Some n -> index_crlf (l ++ b) i = Some n.
Proof.
  induction l as [|x l IH]; intros i n b H; [discriminate|].
  rewrite index_crlf_unfold in H. destruct l as [|y r]; [discriminate|].
  change ((x :: y :: r) ++ b) with (x :: y :: (r ++ b)). rewrite index_crlf_unfold.
  destruct ((x =? 13) && (y =? 10)); [exact H|]. apply (IH (S i) n b H).
Qed.

Lemma read_and_skip_inv : forall exp l r, read_and_skip exp l = R_ok r -> l = exp ++ r.
Proof.
  induction exp as [|e exp IH]; intros l r H; cbn in *; [inversion H; reflexivity|].
  destruct l as [|x l]; [discriminate|]. destruct (x =? e) eqn:E; [|discriminate].
  apply N.eqb_eq in E. subst x. rewrite (IH l r H). reflexivity.
Qed.
Lemma read_and_skip_self : forall exp r, read_and_skip exp (exp ++ r) = R_ok r.
Proof. induction exp as [|e exp IH]; intros r; cbn; [reflexivity|]. rewrite N.eqb_refl. apply IH. Qed.
Lemma read_until_inv : forall d l acc a r, read_until d l acc = Some (a, r) -> exists m, a = acc ++ m /\ l = m ++ d :: r /\ ~ In d m.
Proof.
  intros d l. induction l as [|x l IH]; intros acc a r H; cbn in H; [discriminate|].
  destruct (x =? d) eqn:E.
  - apply N.eqb_eq in E. subst x. inversion H; subst. exists []. rewrite app_nil_r. repeat split; auto.
  - destruct (IH _ _ _ H) as [m [Ha [Hl Hn]]]. exists (x :: m). rewrite Ha, <- app_assoc. cbn. rewrite Hl. repeat split; auto.
    intros [Hx|Hx]; [subst x; rewrite N.eqb_refl in E; discriminate|exact (Hn Hx)].
Qed.
Lemma read_until_self : forall d m r acc, ~ In d m -> read_until d (m ++ d :: r) acc = Some (acc ++ m, r).
Proof.
  intros d m. induction m as [|x m IH]; intros r acc Hn; cbn.
  - rewrite N.eqb_refl, app_nil_r. reflexivity.
  - destruct (x =? d) eqn:E; [apply N.eqb_eq in E; subst x; exfalso; apply Hn; left; reflexivity|].
    rewrite IH by (intros Hx; apply Hn; right; exact Hx). rewrite <- app_assoc. reflexivity.
Qed.

(* ---------- 2. the header parser as a function of the header bytes *)
Section Frag.
  Variables (sha256 : bytes -> bytes) (hmac256 : bytes -> bytes -> bytes) (hex : bytes -> bytes).
  Variables (key stsPayload stsTrailer : bytes) (trailer : option trailer_kind).

  Notation par := (par sha256 hmac256 hex key stsPayload stsTrailer trailer).
  Notation read := (read sha256 hmac256 hex key stsPayload stsTrailer trailer).
  Notation run := (run sha256 hmac256 hex key stsPayload stsTrailer trailer).
  Notation check_sig := (check_sig sha256 hmac256 hex key stsPayload).
  Notation parse_header := (parse_header trailer).

  Definition stash_bytes (s : cst) : bytes := match stash s with Some st => st | None => [] end.
  Definition stash_len (s : cst) : nat := List.length (stash_bytes s).

  (* parse_header after the stash-limit test, with the header bytes and the stash length as parameters *)
  Definition ph_core (s : cst) (header : bytes) (stashLen : nat) : ph :=
    let s0 := set_stash s None in
    let on_eof := if isEOF s then PH_err E_InvalidChunk else PH_skip (set_stash s0 (Some header)) in
    let skip_k (exp l : bytes) (k : bytes -> ph) : ph :=
      match read_and_skip exp l with R_ok r => k r | R_eof => on_eof | R_bad => PH_err E_Malformed end in
    let until_k (d : N) (l : bytes) (k : bytes -> bytes -> ph) : ph :=
      match read_until d l [] with Some (a, r) => k a r | None => on_eof end in
    let start (k : bytes -> nat -> ph) : ph :=
      if firstHdr s then k header O else skip_k [13; 10] header (fun r => k r 2%nat) in
    start (fun r0 skip =>
    until_k 59 r0 (fun sizeStr r1 =>
    match parse_hex sizeStr with
    | None => PH_err E_InvalidChunk
    | Some size =>
      if (size <? 0)%Z then PH_err E_InvalidChunk else
      skip_k chunkSigKw r1 (fun r2 =>
      until_k 13 r2 (fun sig r3 =>
      if (size =? 0)%Z then
        match trailer with
        | Some t =>
            skip_k [10] r3 (fun r4 =>
            until_k 58 r4 (fun tname r5 =>
            if negb (beq tname (trailer_name t)) then PH_err E_InvalidChunk else
            until_k 13 r5 (fun checksum r6 =>
            if negb (valid_checksum t checksum) then PH_err E_InvalidTrailer else
            skip_k [10] r6 (fun r7 =>
            until_k 58 r7 (fun tsp r8 =>
            if negb (beq tsp trailerSigKw) then PH_err E_InvalidChunk else
            until_k 13 r8 (fun tsig r9 =>
            skip_k [10; 13; 10] r9 (fun _ =>
              PH_ok {| stash := None; left := left s; prevSig := prevSig s; parsedSig := parsedSig s; hbuf := hbuf s;
                       cbuf := cbuf s; firstHdr := firstHdr s; isEOF := isEOF s; trailerSig := tsig;
                       parsedChecksum := checksum |} 0 sig 0)))))))
        | None => skip_k [10; 13; 10] r3 (fun _ => PH_ok s0 0 sig 0)
        end
      else
        skip_k [10] r3 (fun _ =>
        match index_crlf (skipn skip header) O with
        | None => PH_err E_Panic
        | Some ind =>
            PH_ok {| stash := None; left := left s; prevSig := prevSig s; parsedSig := parsedSig s; hbuf := hbuf s;
                     cbuf := cbuf s; firstHdr := false; isEOF := isEOF s; trailerSig := trailerSig s;
                     parsedChecksum := parsedChecksum s |}
                  size sig (Z.of_nat (ind + skip + 2) - Z.of_nat stashLen)
        end)))
    end)).

  Lemma parse_header_core : forall s p,
    parse_header s p = if Nat.ltb 1024 (stash_len s) then PH_err E_InvalidChunk else ph_core s (stash_bytes s ++ p) (stash_len s).
  Proof.
    intros s p. unfold SignedChunk.parse_header, ph_core, stash_len, stash_bytes.
    destruct (stash s) as [st|]; reflexivity.
  Qed.

  (* ---------- the parser proper: a function of the header bytes alone.  None = the bytes ran out *)
  Inductive hres :=
  | HErr (e : rerr)
  | HData (size : Z) (sig : bytes) (hdlen : nat)            (* hdlen: length of the header, counted from the start of the bytes *)
  | HFinal (sig : bytes) (tr : option (bytes * bytes)).     (* trailer signature, declared checksum *)

  Definition hparse (first : bool) (header : bytes) : option hres :=
    let skip_k (exp l : bytes) (k : bytes -> option hres) : option hres :=
      match read_and_skip exp l with R_ok r => k r | R_eof => None | R_bad => Some (HErr E_Malformed) end in
    let until_k (d : N) (l : bytes) (k : bytes -> bytes -> option hres) : option hres :=
      match read_until d l [] with Some (a, r) => k a r | None => None end in
    let start (k : bytes -> nat -> option hres) : option hres :=
      if first then k header O else skip_k [13; 10] header (fun r => k r 2%nat) in
    start (fun r0 skip =>
    until_k 59 r0 (fun sizeStr r1 =>
    match parse_hex sizeStr with
    | None => Some (HErr E_InvalidChunk)
    | Some size =>
      if (size <? 0)%Z then Some (HErr E_InvalidChunk) else
      skip_k chunkSigKw r1 (fun r2 =>
      until_k 13 r2 (fun sig r3 =>
      if (size =? 0)%Z then
        match trailer with
        | Some t =>
            skip_k [10] r3 (fun r4 =>
            until_k 58 r4 (fun tname r5 =>
            if negb (beq tname (trailer_name t)) then Some (HErr E_InvalidChunk) else
            until_k 13 r5 (fun checksum r6 =>
            if negb (valid_checksum t checksum) then Some (HErr E_InvalidTrailer) else
            skip_k [10] r6 (fun r7 =>
            until_k 58 r7 (fun tsp r8 =>
            if negb (beq tsp trailerSigKw) then Some (HErr E_InvalidChunk) else
            until_k 13 r8 (fun tsig r9 =>
            skip_k [10; 13; 10] r9 (fun _ => Some (HFinal sig (Some (tsig, checksum))))))))))
        | None => skip_k [10; 13; 10] r3 (fun _ => Some (HFinal sig None))
        end
      else
        skip_k [10] r3 (fun _ =>
        match index_crlf (skipn skip header) O with
        | None => Some (HErr E_Panic)
        | Some ind => Some (HData size sig (ind + skip + 2))
        end)))
    end)).

  Definition apply_h (s : cst) (stashLen : nat) (r : hres) : ph :=
    match r with
    | HErr e => PH_err e
    | HData size sig n =>
        PH_ok {| stash := None; left := left s; prevSig := prevSig s; parsedSig := parsedSig s; hbuf := hbuf s;
                 cbuf := cbuf s; firstHdr := false; isEOF := isEOF s; trailerSig := trailerSig s;
                 parsedChecksum := parsedChecksum s |} size sig (Z.of_nat n - Z.of_nat stashLen)
    | HFinal sig None => PH_ok (set_stash s None) 0 sig 0
    | HFinal sig (Some (tsig, checksum)) =>
        PH_ok {| stash := None; left := left s; prevSig := prevSig s; parsedSig := parsedSig s; hbuf := hbuf s;
                 cbuf := cbuf s; firstHdr := firstHdr s; isEOF := isEOF s; trailerSig := tsig;
                 parsedChecksum := checksum |} 0 sig 0
    end.

  Definition on_eof (s : cst) (header : bytes) : ph :=
    if isEOF s then PH_err E_InvalidChunk else PH_skip (set_stash (set_stash s None) (Some header)).

  Ltac hstep :=
    match goal with
    | |- context [read_and_skip ?a ?b] => destruct (read_and_skip a b) eqn:?
    | |- context [read_until ?d ?l ?acc] => destruct (read_until d l acc) as [[? ?]|] eqn:?
    | |- context [parse_hex ?a] => destruct (parse_hex a) eqn:?
    | |- context [index_crlf ?a ?b] => destruct (index_crlf a b) eqn:?
    | |- context [(?a <? ?b)%Z] => destruct (a <? b)%Z eqn:?
    | |- context [(?a =? ?b)%Z] => destruct (a =? b)%Z eqn:?
    | |- context [negb ?a] => destruct (negb a) eqn:?
    end.

  Lemma ph_core_hparse : forall s header n,
    ph_core s header n = match hparse (firstHdr s) header with None => on_eof s header | Some r => apply_h s n r end.
  Proof.
    intros s header n. unfold ph_core, hparse, on_eof.
    destruct (firstHdr s) eqn:Hf; destruct trailer as [t|]; cbv beta zeta;
      repeat (first [reflexivity | hstep; cbv beta iota; cbn [apply_h]]); try (rewrite ?Hf; reflexivity).
  Qed.

  (* a verdict reached on a header stands when more bytes follow *)
  Ltac mstep b :=
    match goal with
    | H : context [read_and_skip ?e ?l] |- _ =>
        let E := fresh "E" in destruct (read_and_skip e l) eqn:E;
        [rewrite (read_and_skip_ok_app _ _ _ b E) | discriminate H | rewrite (read_and_skip_bad_app _ _ b E)]
    | H : context [read_until ?d ?l ?acc] |- _ =>
        let E := fresh "E" in destruct (read_until d l acc) as [[? ?]|] eqn:E;
        [rewrite (read_until_app _ _ _ _ _ b E) | discriminate H]
    | H : context [parse_hex ?a] |- _ => destruct (parse_hex a) eqn:?
    | H : context [(?a <? ?c)%Z] |- _ => destruct (a <? c)%Z eqn:?
    | H : context [(?a =? ?c)%Z] |- _ => destruct (a =? c)%Z eqn:?
    | H : context [negb ?a] |- _ => destruct (negb a) eqn:?
    end.

  Lemma hparse_mono : forall first h r b, hparse first h = Some r -> hparse first (h ++ b) = Some r.
  Proof.
    intros first h r b H. unfold hparse in *.
    destruct first; destruct trailer as [t|]; cbv beta zeta in *;
      repeat (first [exact H | mstep b; cbv beta iota in * ]).
    all: try match goal with
         | E : read_and_skip [13; 10] h = R_ok ?r0 |- _ => rewrite (read_and_skip_inv _ _ _ E) in *; cbn [skipn app] in *
         end.
    all: cbn [skipn] in *.
    all: match goal with
         | H : context [index_crlf ?l 0] |- _ => destruct (index_crlf l 0) eqn:Ei; [rewrite (index_crlf_app _ _ _ b Ei); exact H| discriminate H]
         end.
  Qed.
End Frag.
