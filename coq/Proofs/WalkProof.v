From Coq Require Import String Ascii List Arith Lia Bool.
From VGW Require Import Base.GoStr Model.Walk.
Import ListNotations.

(* induction principle for the nested tree *)
Section TreeInd.
  Variable P : tree -> Prop.
  Hypothesis Pf : forall b, P (F b).
  Hypothesis Pd : forall b kids, Forall (fun nt => P (snd nt)) kids -> P (D b kids).
  Fixpoint tree_ind' (t : tree) : P t :=
    match t with
    | F b => Pf b
    | D b kids => Pd b kids ((fix go (k : list (string * tree)) : Forall (fun nt => P (snd nt)) k :=
                                match k with [] => Forall_nil _ | (n, c) :: r => Forall_cons (n, c) (tree_ind' c) (go r) end) kids)
    end.
End TreeInd.

Section Bound.
  Variables (prefix delim marker : string) (max : nat) (skipdirs : list string).
  Hypothesis Hmax : 0 < max.

  (* page never exceeds max, and pastMax is exactly "page is full" *)
  Definition Icnt (s : st) : Prop := count s <= max /\ (pastMax s = true <-> count s = max).

  Lemma add_cp_len c l : List.length (add_cp c l) = List.length l \/ List.length (add_cp c l) = S (List.length l).
  Proof. unfold add_cp. destruct (existsb (String.eqb c) l); cbn; auto. Qed.

  Ltac brk := repeat match goal with
    | |- context [if ?b then _ else _] => destruct b eqn:?
    | |- context [match ?x with inl _ => _ | inr _ => _ end] => destruct x eqn:?
    | |- context [match ?x with Some _ => _ | None => _ end] => destruct x eqn:?
    | |- context [let '(_, _) := ?x in _] => destruct x eqn:?
    end.

  Ltac fin :=
    unfold Icnt, count in *; cbn [objs cps pastMax truncated newMarker pastMarker snd] in *;
    repeat match goal with
    | H : Nat.eqb _ _ = true |- _ => apply Nat.eqb_eq in H
    | H : Nat.eqb _ _ = false |- _ => apply Nat.eqb_neq in H
    | H : _ /\ _ |- _ => destruct H
    end;
    rewrite ?app_length in *; cbn [List.length] in *;
    repeat match goal with
    | H : pastMax ?s = true, H2 : pastMax ?s = true <-> _ |- _ => pose proof (proj1 H2 H); clear H2
    | H : pastMax ?s = false, H2 : pastMax ?s = true <-> _ |- _ =>
        assert (~ (List.length (objs s) + List.length (cps s) = max)) by (intros E'; apply H2 in E'; congruence); clear H2
    end;
    try solve [split; [lia|split; [intros; lia|intros; try reflexivity; try congruence; try lia]]].

  Lemma emit_obj_Icnt path fl s : Icnt s -> Icnt (snd (emit_obj max path fl s)).
  Proof.
    unfold emit_obj. intros HI. destruct (pastMax s) eqn:Ep; cbn [snd].
    - fin.
    - destruct (Nat.eqb (List.length (objs s ++ [path]) + List.length (cps s)) max) eqn:E; fin.
  Qed.

  Lemma cb_Icnt path name t s : Icnt s -> Icnt (snd (cb prefix delim marker max skipdirs path name t s)).
  Proof.
    intros HI. unfold cb.
    destruct (String.eqb path "."); [exact HI|].
    destruct (String.eqb path name && existsb (String.eqb name) skipdirs); [destruct (is_dir t); exact HI|].
    match goal with |- context [match ?pre with inl r => r | inr _ => _ end] => destruct pre as [r|[fl p]] eqn:Epre end.
    - revert Epre. brk; intros E; inversion E; subst; cbn [snd]; try exact HI; fin.
    - brk; cbn [snd]; try exact HI; try (apply emit_obj_Icnt; exact HI); try solve [fin].
      all: destruct (add_cp_len (prefix ++ s0 ++ delim) (cps s)) as [L|L]; fin; rewrite ?L in *; fin.
  Qed.

  Lemma walk_node_Icnt : forall t path name s, Icnt s ->
    Icnt (snd (walk_node prefix delim marker max skipdirs path name t s)).
  Proof.
    induction t as [b|b kids IH] using tree_ind'; intros path name s HI; cbn [walk_node].
    - pose proof (cb_Icnt path name (F b) s HI) as H.
      destruct (cb prefix delim marker max skipdirs path name (F b) s) as [c s1]. exact H.
    - pose proof (cb_Icnt path name (D b kids) s HI) as H.
      destruct (cb prefix delim marker max skipdirs path name (D b kids) s) as [c s1]. cbn [snd] in H.
      destruct c; try exact H.
      clear HI. revert s1 H. induction IH as [|[n k] r Hk Hr IHr]; intros s1 H; [exact H|].
      cbn [snd] in Hk.
      pose proof (Hk (pjoin path n) n s1 H) as H1.
      destruct (walk_node prefix delim marker max skipdirs (pjoin path n) n k s1) as [c1 s2]. cbn [snd] in H1.
      destruct c1; try exact H1. apply IHr. exact H1.
  Qed.
End Bound.

Lemma insert_sorted_length c l : List.length (insert_sorted c l) = S (List.length l).
Proof. induction l as [|x r IH]; cbn; [reflexivity|]. destruct (str_ltb c x); cbn; [reflexivity|rewrite IH; reflexivity]. Qed.
Lemma sort_strs_length l : List.length (sort_strs l) = List.length l.
Proof. unfold sort_strs. induction l as [|x r IH]; cbn [fold_right]; [reflexivity|]. rewrite insert_sorted_length, IH. reflexivity. Qed.

(* a page never holds more than max entries, for every tree and every argument *)
Lemma page_bound : forall t prefix delim marker max skipdirs flag r,
  walk t prefix delim marker max skipdirs flag = Some r ->
  List.length (r_objs r) + List.length (r_cps r) <= max.
Proof.
  intros t prefix delim marker max skipdirs flag r. unfold walk.
  destruct (Nat.eqb max 0) eqn:E0.
  { intros H; inversion H; subst. cbn. lia. }
  apply Nat.eqb_neq in E0.
  set (s0 := {| objs := []; cps := []; pastMarker := String.eqb marker ""; pastMax := false; truncated := false; newMarker := "" |}).
  assert (H0 : Icnt max s0).
  { unfold Icnt, count. cbn. split; [lia|]. split; [discriminate|intros; lia]. }
  assert (G : forall node root name r,
     (let '(c, s) := walk_node prefix delim marker max skipdirs root name node s0 in
      match c with Fail => None | _ => Some {| r_objs := objs s; r_cps := sort_strs (cps s); r_trunc := truncated s; r_next := if truncated s then newMarker s else "" |} end) = Some r ->
     List.length (r_objs r) + List.length (r_cps r) <= max).
  { intros node root name r0. pose proof (walk_node_Icnt prefix delim marker max skipdirs ltac:(lia) node root name s0 H0) as HI.
    destruct (walk_node prefix delim marker max skipdirs root name node s0) as [c s]. cbn [snd] in HI.
    destruct HI as [HI _]. unfold count in HI.
    destruct c; intros H; inversion H; subst; cbn; rewrite sort_strs_length; exact HI. }
  repeat match goal with |- context [if ?b then _ else _] => destruct b end;
    try (intros H; inversion H; subst; cbn; lia); try discriminate.
  - apply G.
  - destruct (resolve t _); [apply G|intros H; inversion H; subst; cbn; lia].
Qed.

