From Coq Require Import List ZArith String Bool Arith Lia.
From VGW Require Import Model.IamCache Spec.IamSpec.
Import ListNotations.

Lemma find_put_same {V} (m : amap V) k v : find (put m k v) k = Some v.
Proof. unfold put. cbn. rewrite String.eqb_refl. reflexivity. Qed.
Lemma find_remove_same {V} (m : amap V) k : find (remove m k) k = None.
Proof. induction m as [|[j v] r IH]; cbn; [reflexivity|]. destruct (String.eqb k j) eqn:E; cbn; [exact IH|rewrite E; exact IH]. Qed.
Lemma find_remove_other {V} (m : amap V) k j : j <> k -> find (remove m k) j = find m j.
Proof.
  intros N. induction m as [|[i v] r IH]; cbn; [reflexivity|].
  destruct (String.eqb k i) eqn:E; cbn.
  - apply String.eqb_eq in E; subst. destruct (String.eqb j i) eqn:E2; [apply String.eqb_eq in E2; congruence|exact IH].
  - destruct (String.eqb j i); [reflexivity|exact IH].
Qed.
Lemma find_put_other {V} (m : amap V) k j v : j <> k -> find (put m k v) j = find m j.
Proof. intros N. unfold put. cbn. destruct (String.eqb j k) eqn:E; [apply String.eqb_eq in E; congruence|]. apply find_remove_other. exact N. Qed.

Section P.
  Variable ttl : nat.
  Variables (root : string) (root_acct : account).

  (* every cache entry (expired or not) equals the store's entry; root is never stored or cached from a stale source *)
  Definition coherent (s : st) : Prop :=
    forall k c e, find (cache s) k = Some (c, e) -> service_get root root_acct s k = Some c.
  Definition root_free (s : st) : Prop := find (store s) root = None.

  Lemma step_inv s o : coherent s -> root_free s ->
    coherent (fst (step ttl root root_acct s o)) /\ root_free (fst (step ttl root root_acct s o)).
  Proof.
    intros H R. unfold coherent, root_free, service_get in *. destruct o as [k a|k p|k|k|n]; unfold step.
    - destruct (String.eqb k root) eqn:Er; cbn [fst]; [split; assumption|].
      apply String.eqb_neq in Er.
      destruct (find (store s) k) eqn:F; cbn [fst store cache]; [split; assumption|]. split.
      + intros j c e. destruct (string_dec j k) as [->|N].
        * rewrite !find_put_same. intros E; inversion E; subst.
          destruct (String.eqb k root) eqn:E2; [apply String.eqb_eq in E2; congruence|reflexivity].
        * rewrite !find_put_other by exact N. apply H.
      + rewrite find_put_other by congruence. exact R.
    - destruct (find (store s) k) as [a|] eqn:F; cbn [fst store cache]; [|split; assumption].
      assert (Kr : k <> root) by (intros ->; congruence). split.
      + intros j c e. destruct (string_dec j k) as [->|N].
        * rewrite find_put_same. destruct (find (cache s) k) as [[c0 e0]|] eqn:C.
          -- rewrite find_put_same. intros E; inversion E; subst. apply H in C.
             destruct (String.eqb k root) eqn:E2; [apply String.eqb_eq in E2; congruence|]. congruence.
          -- rewrite C. discriminate.
        * rewrite find_put_other by exact N. destruct (find (cache s) k) as [[c0 e0]|]; [rewrite find_put_other by exact N|]; apply H.
      + rewrite find_put_other by congruence. exact R.
    - cbn [fst store cache]. split.
      + intros j c e. destruct (string_dec j k) as [->|N].
        * rewrite find_remove_same. discriminate.
        * rewrite !find_remove_other by exact N. apply H.
      + destruct (string_dec root k) as [->|N]; [apply find_remove_same|rewrite find_remove_other by exact N; exact R].
    - destruct (fresh s k); cbn [fst]; [split; assumption|]. unfold service_get.
      destruct (if String.eqb k root then Some root_acct else find (store s) k) as [a|] eqn:F; cbn [fst store cache]; [|split; assumption].
      split; [|exact R].
      intros j c' e'. destruct (string_dec j k) as [->|N].
      + rewrite find_put_same. intros E; inversion E; subst. exact F.
      + rewrite find_put_other by exact N. apply H.
    - cbn [fst store cache]. split; assumption.
  Qed.

  (* one step answers exactly like the Spec map, and the store IS the Spec map *)
  Lemma step_refines s o : coherent s -> root_free s ->
    snd (step ttl root root_acct s o) = snd (spec_step root root_acct (store s) o) /\
    store (fst (step ttl root root_acct s o)) = fst (spec_step root root_acct (store s) o).
  Proof.
    intros H R. destruct o as [k a|k p|k|k|n]; unfold step, spec_step.
    - destruct (String.eqb k root); [split; reflexivity|]. destruct (find (store s) k); split; reflexivity.
    - destruct (find (store s) k); split; reflexivity.
    - split; reflexivity.
    - unfold fresh, service_get. destruct (find (cache s) k) as [[c e]|] eqn:C.
      + pose proof (H _ _ _ C) as F. unfold service_get in F.
        destruct (Nat.ltb (now s) e).
        * cbn [snd fst]. destruct (String.eqb k root); [inversion F; split; reflexivity|rewrite F; split; reflexivity].
        * destruct (String.eqb k root); [split; reflexivity|]. destruct (find (store s) k); split; reflexivity.
      + destruct (String.eqb k root); [split; reflexivity|]. destruct (find (store s) k); split; reflexivity.
    - split; reflexivity.
  Qed.

  Theorem run_refines : forall ops s, coherent s -> root_free s ->
    run ttl root root_acct s ops = spec_run root root_acct (store s) ops.
  Proof.
    induction ops as [|o r IH]; intros s H R; [reflexivity|].
    cbn [run spec_run].
    destruct (step_refines s o H R) as [E1 E2]. destruct (step_inv s o H R) as [H' R'].
    destruct (step ttl root root_acct s o) as [s' x] eqn:S. cbn [fst snd] in *.
    destruct (spec_step root root_acct (store s) o) as [m' y] eqn:T. cbn [fst snd] in *.
    subst. f_equal. apply IH; assumption.
  Qed.

  Lemma s0_ok : coherent s0 /\ root_free s0.
  Proof. split; [intros k c e H; discriminate|reflexivity]. Qed.
End P.

(* ---- every schedule of a lookup and a delete of the same account ---- *)
Section Sched.
  Variable ttl : nat.
  Variable k : string.

  Definition sinv (c : cfg) : Prop :=
    (c_lock c = Some StepLookup <-> exists a, c_l c = L_fetched a) /\
    (c_lock c = Some StepDelete <-> c_d c = D_store_done) /\
    (c_d c <> D_start -> find (store (c_st c)) k = None) /\
    (c_d c = D_done -> find (cache (c_st c)) k = None) /\
    (c_d c = D_done -> forall a, c_l c = L_fetched a -> a = None).

  Lemma sched_step_inv c w : sinv c -> sinv (sched_step ttl k c w).
  Proof.
    intros [J1 [J2 [J3 [J4 J5]]]].
    destruct c as [s l d lk]. cbn [c_st c_l c_d c_lock] in *.
    unfold sched_step, may_lock. cbn [c_st c_l c_d c_lock].
    destruct w.
    - (* the lookup moves *)
      destruct l as [|[a|]|r].
      + destruct (fresh s k) as [a|].
        * unfold sinv. cbn [c_st c_l c_d c_lock]. repeat split; try tauto.
          -- intros H. apply J1 in H. destruct H as [a0 H]. discriminate.
          -- intros [a0 H]. discriminate.
          -- intros D a0 H. discriminate.
        * destruct lk as [[|]|]; cbn [who_eqb].
          -- exfalso. destruct (proj1 J1 eq_refl) as [a0 H]. discriminate.
          -- unfold sinv. cbn [c_st c_l c_d c_lock]. tauto.
          -- unfold sinv. cbn [c_st c_l c_d c_lock]. repeat split; try tauto.
             ++ intros _. eexists. reflexivity.
             ++ discriminate.
             ++ intros H. exfalso. assert (X : None = Some StepDelete) by (apply J2; exact H). discriminate.
             ++ intros D a0 H. injection H as <-. apply J3. rewrite D. discriminate.
      + assert (K : lk = Some StepLookup) by (apply J1; eexists; reflexivity). subst lk.
        assert (ND : d <> D_done) by (intros D; specialize (J5 D (Some a) eq_refl); discriminate).
        assert (NS : d <> D_store_done) by (intros D; apply J2 in D; discriminate).
        unfold sinv. cbn [c_st c_l c_d c_lock store cache]. repeat split; try tauto; try discriminate.
        * intros [a0 H]. discriminate.
      + assert (K : lk = Some StepLookup) by (apply J1; eexists; reflexivity). subst lk.
        assert (NS : d <> D_store_done) by (intros D; apply J2 in D; discriminate).
        unfold sinv. cbn [c_st c_l c_d c_lock]. repeat split; try tauto; try discriminate.
        * intros [a0 H]. discriminate.
      + unfold sinv. cbn [c_st c_l c_d c_lock]. tauto.
    - (* the delete moves *)
      destruct d.
      + destruct lk as [[|]|]; cbn [who_eqb].
        * unfold sinv. cbn [c_st c_l c_d c_lock]. tauto.
        * exfalso. assert (X : D_start = D_store_done) by (apply J2; reflexivity). discriminate.
        * assert (NF : forall a, l <> L_fetched a).
          { intros a H. assert (X : None = Some StepLookup) by (apply J1; eexists; exact H). discriminate. }
          unfold sinv. cbn [c_st c_l c_d c_lock store cache]. repeat split; try tauto; try discriminate.
          -- intros [a H]. exfalso. eapply NF. exact H.
          -- intros _. apply find_remove_same.
      + assert (K : lk = Some StepDelete) by (apply J2; reflexivity). subst lk.
        assert (NF : forall a, l <> L_fetched a).
        { intros a H. assert (X : Some StepDelete = Some StepLookup) by (apply J1; eexists; exact H). discriminate. }
        unfold sinv. cbn [c_st c_l c_d c_lock store cache]. repeat split; try tauto; try discriminate.
        * intros [a H]. exfalso. eapply NF. exact H.
        * intros _. apply J3. discriminate.
        * intros _. apply find_remove_same.
        * intros _ a H. exfalso. eapply NF. exact H.
      + unfold sinv. cbn [c_st c_l c_d c_lock]. tauto.
  Qed.

  Lemma sched_inv : forall sched c, sinv c -> sinv (fold_left (sched_step ttl k) sched c).
  Proof. induction sched as [|w r IH]; intros c H; [exact H|]. cbn. apply IH. apply sched_step_inv. exact H. Qed.

  Lemma init_sinv s : sinv {| c_st := s; c_l := L_start; c_d := D_start; c_lock := None |}.
  Proof.
    unfold sinv. cbn. repeat split; try discriminate; try tauto.
    - intros [a H]. discriminate.
  Qed.

  (* whatever the schedule: once the delete has returned, the account is in neither the store nor the cache, so every
     later lookup answers NoSuchUser *)
  Theorem delete_is_final : forall s sched,
    let c := fold_left (sched_step ttl k) sched {| c_st := s; c_l := L_start; c_d := D_start; c_lock := None |} in
    c_d c = D_done -> (forall a, c_l c <> L_fetched a) ->
    find (store (c_st c)) k = None /\ fresh (c_st c) k = None.
  Proof.
    intros s sched c D NF. destruct (sched_inv sched _ (init_sinv s)) as [J1 [J2 [J3 [J4 J5]]]]. fold c in J1, J2, J3, J4, J5.
    split; [apply J3; rewrite D; discriminate|]. unfold fresh. rewrite (J4 D). reflexivity.
  Qed.
End Sched.
