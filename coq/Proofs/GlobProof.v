From Coq Require Import Ascii List Arith Lia Bool.
From VGW Require Import Model.Glob Spec.GlobSpec.
Import ListNotations.

Definition star_free (a : str) : Prop := Forall (fun c => c <> "*"%char) a.

Definition alt (bt : option (str * str)) : Prop :=
  match bt with
  | Some (pp, ms) => exists k, 1 <= k /\ k <= length ms /\ glob pp (skipn k ms)
  | None => False
  end.

Definition Inv (p s : str) (bt : option (str * str)) : Prop :=
  match bt with
  | Some (pp, ms) => exists a t, star_free a /\ pp = a ++ p /\ ms = t ++ s /\ length t = length a
  | None => True
  end.

Definition Phi (p s : str) (bt : option (str * str)) : nat :=
  match bt with
  | Some (pp, ms) => length ms * (length pp + 2) + length p + 1
  | None => length s * (length p + 2) + length p + 1
  end.

Lemma is_star_true c : is_star c = true <-> c = "*"%char.
Proof. unfold is_star. apply Ascii.eqb_eq. Qed.
Lemma is_star_false c : is_star c = false <-> c <> "*"%char.
Proof. unfold is_star. apply Ascii.eqb_neq. Qed.
Lemma is_q_true c : is_q c = true <-> c = "?"%char.
Proof. unfold is_q. apply Ascii.eqb_eq. Qed.

(* inversion principles *)
Lemma glob_nil_l s : glob [] s -> s = [].
Proof. inversion 1; reflexivity. Qed.

Lemma glob_star_inv q s : glob ("*"%char :: q) s ->
  glob q s \/ exists c s', s = c :: s' /\ glob ("*"%char :: q) s'.
Proof.
  inversion 1; subst.
  - left; assumption.
  - right; eauto.
  - congruence.
Qed.

Lemma glob_cons_inv pc q s : pc <> "*"%char -> glob (pc :: q) s ->
  exists c s', s = c :: s' /\ (pc = "?"%char \/ pc = c) /\ glob q s'.
Proof.
  intros Hns H. inversion H; subst; try congruence.
  - exists c, s0. auto.
  - exists pc, s0. auto.
Qed.

Lemma glob_cons_intro pc q c s' : pc <> "*"%char -> (pc = "?"%char \/ pc = c) -> glob q s' -> glob (pc :: q) (c :: s').
Proof.
  intros Hns [Hq|He] G.
  - subst. apply g_q. exact G.
  - subst c. destruct (Ascii.eqb pc "?"%char) eqn:E.
    + apply Ascii.eqb_eq in E. subst. apply g_q. exact G.
    + apply Ascii.eqb_neq in E. apply g_lit; assumption.
Qed.

Lemma all_stars_glob p : all_stars p = true <-> glob p [].
Proof.
  induction p as [|c p IH]; cbn.
  - split; [constructor|reflexivity].
  - rewrite andb_true_iff, is_star_true, IH. split.
    + intros [-> G]. apply g_star_skip. exact G.
    + intros G. destruct (Ascii.eqb c "*"%char) eqn:E.
      * apply Ascii.eqb_eq in E. subst. apply glob_star_inv in G. destruct G as [G|[? [? [? _]]]]; [auto|discriminate].
      * apply Ascii.eqb_neq in E. apply glob_cons_inv in G; [|exact E]. destruct G as [? [? [? _]]]. discriminate.
Qed.

Lemma glob_star_suffix q : forall k s, k <= length s -> glob ("*"%char :: q) (skipn k s) -> glob ("*"%char :: q) s.
Proof.
  induction k as [|k IH]; intros s Hk G; [exact G|].
  destruct s as [|c s]; cbn in *; [lia|]. apply g_star_eat. apply IH; [lia|exact G].
Qed.

Lemma glob_star_iff q s : glob ("*"%char :: q) s <-> exists k, k <= length s /\ glob q (skipn k s).
Proof.
  split.
  - revert q. induction s as [|c s IH]; intros q G.
    + apply glob_star_inv in G. destruct G as [G|[? [? [? _]]]]; [|discriminate]. exists 0. cbn. auto.
    + apply glob_star_inv in G. destruct G as [G|[c' [s' [E G]]]].
      * exists 0. cbn. split; [lia|exact G].
      * inversion E; subst. destruct (IH _ G) as [k [Hk Gk]]. exists (S k). cbn. split; [lia|exact Gk].
  - intros [k [Hk G]]. apply (glob_star_suffix q k s Hk). apply g_star_skip. exact G.
Qed.

(* a star-free prefix consumes exactly its own length *)
Lemma glob_sf_split a : star_free a -> forall q u, glob (a ++ q) u -> length a <= length u /\ glob q (skipn (length a) u).
Proof.
  induction 1 as [|c a Hc Ha IH]; intros q u G; cbn in *.
  - split; [lia|exact G].
  - apply glob_cons_inv in G; [|exact Hc]. destruct G as [c' [u' [-> [_ G]]]].
    destruct (IH _ _ G) as [L G']. cbn. split; [lia|exact G'].
Qed.

Lemma skipn_app_len {A} (t s : list A) k : skipn (k + length t) (t ++ s) = skipn k s.
Proof.
  revert k. induction t as [|x t IH]; intros k; cbn.
  - rewrite Nat.add_0_r. reflexivity.
  - rewrite Nat.add_succ_r. cbn. apply IH.
Qed.

Lemma skipn_skipn' {A} : forall y x (l : list A), skipn x (skipn y l) = skipn (y + x) l.
Proof.
  induction y as [|y IH]; intros x l; cbn; [reflexivity|].
  destruct l; cbn; [destruct x; reflexivity|apply IH].
Qed.

(* dropping the old backtrack point at a new star loses nothing *)
Lemma alt_implies_star p' s bt : Inv ("*"%char :: p') s bt -> alt bt -> glob ("*"%char :: p') s.
Proof.
  destruct bt as [[pp ms]|]; cbn; [|tauto].
  intros [a [t [Ha [-> [-> Hl]]]]] [k [Hk1 [Hk2 G]]].
  apply glob_sf_split in G; [|exact Ha]. destruct G as [L G].
  rewrite skipn_skipn' in G.
  replace (k + length a) with (k + length t) in G by lia.
  rewrite skipn_app_len in G.
  rewrite skipn_length, app_length in L. rewrite app_length in Hk2.
  apply (glob_star_suffix p' k s); [lia|exact G].
Qed.

(* at end of subject no alternative can succeed *)
Lemma alt_at_end p bt : Inv p [] bt -> alt bt -> False.
Proof.
  destruct bt as [[pp ms]|]; cbn; [|tauto].
  intros [a [t [Ha [-> [-> Hl]]]]] [k [Hk1 [Hk2 G]]].
  apply glob_sf_split in G; [|exact Ha]. destruct G as [L _].
  rewrite skipn_length, app_length in L. rewrite app_length in Hk2. cbn in L, Hk2. lia.
Qed.

Lemma alt_step pp m ms' : alt (Some (pp, m :: ms')) <-> glob pp ms' \/ alt (Some (pp, ms')).
Proof.
  cbn. split.
  - intros [k [H1 [H2 G]]]. destruct k as [|[|k]]; [lia| |].
    + left. exact G.
    + right. exists (S k). cbn in G. repeat split; [lia|lia|exact G].
  - intros [G|[k [H1 [H2 G]]]].
    + exists 1. cbn. repeat split; [lia|lia|exact G].
    + exists (S k). cbn. repeat split; [lia|lia|exact G].
Qed.

Lemma go_correct : forall fuel p s bt, Phi p s bt < fuel -> Inv p s bt ->
  (go fuel p s bt = true <-> glob p s \/ alt bt).
Proof.
  induction fuel as [|f IH]; intros p s bt HPhi HInv; [lia|].
  cbn [go].
  destruct s as [|c s'].
  { (* subject exhausted *)
    rewrite all_stars_glob. split; [auto|]. intros [G|A]; [exact G|]. exfalso. eapply alt_at_end; eauto. }
  (* backtracking branch, shared by two cases *)
  assert (BT : ~ glob p (c :: s') -> (backtrack (go f) bt = true <-> glob p (c :: s') \/ alt bt) ->
               (backtrack (go f) bt = true <-> glob p (c :: s') \/ alt bt)) by tauto.
  assert (BTcase : forall (Hnog : ~ glob p (c :: s')), backtrack (go f) bt = true <-> glob p (c :: s') \/ alt bt).
  { intros Hnog. destruct bt as [[pp ms]|]; cbn [backtrack].
    2:{ cbn. split; [discriminate|]. tauto. }
    destruct ms as [|m ms'].
    { (* impossible: ms = t ++ c :: s' *)
      cbn in HInv. destruct HInv as [a [t [_ [_ [E _]]]]]. destruct t; discriminate. }
    rewrite (IH pp ms' (Some (pp, ms'))).
    - rewrite alt_step. tauto.
    - cbn in *. nia.
    - cbn. exists [], []. repeat split; constructor. }
  destruct p as [|pc p'].
  { apply BTcase. intros G. apply glob_nil_l in G. discriminate. }
  destruct (is_star pc) eqn:Es.
  { (* star *)
    apply is_star_true in Es. subst pc.
    rewrite (IH p' (c :: s') (Some (p', c :: s'))).
    - change (glob p' (c :: s') \/ alt (Some (p', c :: s'))) with
        (glob p' (c :: s') \/ exists k, 1 <= k /\ k <= length (c :: s') /\ glob p' (skipn k (c :: s'))).
      split.
      + intros H. left. apply glob_star_iff. destruct H as [G|[k [H1 [H2 G]]]]; [exists 0|exists k]; cbn; auto. split; [lia|exact G].
      + intros [G|A].
        * apply glob_star_iff in G. destruct G as [k [Hk G]]. destruct k; [left; exact G|right; exists (S k); repeat split; [lia|exact Hk|exact G]].
        * pose proof (alt_implies_star _ _ _ HInv A) as G. apply glob_star_iff in G.
          destruct G as [k [Hk G]]. destruct k; [left; exact G|right; exists (S k); repeat split; [lia|exact Hk|exact G]].
    - destruct bt as [[pp ms]|]; cbn in *.
      + destruct HInv as [a [t [_ [-> [-> Hl]]]]]. rewrite !app_length in *. cbn in *. nia.
      + nia.
    - cbn. exists [], []. repeat split; constructor. }
  apply is_star_false in Es.
  destruct (is_q pc || Ascii.eqb pc c) eqn:Em.
  { (* one byte consumed *)
    assert (Hm : pc = "?"%char \/ pc = c).
    { apply orb_true_iff in Em. destruct Em as [E|E]; [left; apply is_q_true; exact E|right; apply Ascii.eqb_eq; exact E]. }
    rewrite (IH p' s' bt).
    - split.
      + intros [G|A]; [left; apply glob_cons_intro; assumption|right; exact A].
      + intros [G|A]; [left|right; exact A]. apply glob_cons_inv in G; [|exact Es].
        destruct G as [c' [s'' [E [_ G]]]]. inversion E; subst. exact G.
    - destruct bt as [[pp ms]|]; cbn in *; nia.
    - destruct bt as [[pp ms]|]; cbn in *; [|exact I].
      destruct HInv as [a [t [Ha [-> [-> Hl]]]]].
      exists (a ++ [pc]), (t ++ [c]). repeat split.
      + apply Forall_app. split; [exact Ha|]. constructor; [exact Es|constructor].
      + rewrite <- app_assoc. reflexivity.
      + rewrite <- app_assoc. reflexivity.
      + rewrite !app_length. cbn. lia. }
  (* mismatch *)
  apply BTcase. intros G. apply glob_cons_inv in G; [|exact Es].
  destruct G as [c' [s'' [E [Hm _]]]]. inversion E; subst.
  apply orb_false_iff in Em. destruct Em as [E1 E2].
  destruct Hm as [Hq|He].
  - apply is_q_true in Hq. congruence.
  - apply Ascii.eqb_neq in E2. congruence.
Qed.

Theorem glob_correct : forall p s, go_match p s = true <-> glob p s.
Proof.
  intros p s. unfold go_match. rewrite go_correct.
  - cbn. tauto.
  - unfold fuel_for. cbn. nia.
  - exact I.
Qed.
