From Coq Require Import List Arith Bool Lia.
From VGW Require Import Model.Versions.
Import ListNotations.

(* ---------- key table *)
Lemma kget_kset_same l k s : kget (kset l k s) k = s.
Proof.
  induction l as [|[j t] r IH]; cbn.
  - rewrite Nat.eqb_refl. reflexivity.
  - destruct (Nat.eqb j k) eqn:E; cbn; [rewrite Nat.eqb_refl; reflexivity|rewrite E; exact IH].
Qed.
Lemma kget_kset_other l k k' s : k' <> k -> kget (kset l k s) k' = kget l k'.
Proof.
  intros H. induction l as [|[j t] r IH]; cbn.
  - destruct (Nat.eqb k k') eqn:E; [apply Nat.eqb_eq in E; congruence|reflexivity].
  - destruct (Nat.eqb j k) eqn:E; cbn.
    + apply Nat.eqb_eq in E. subst j. destruct (Nat.eqb k k') eqn:E2; [apply Nat.eqb_eq in E2; congruence|reflexivity].
    + destruct (Nat.eqb j k'); [reflexivity|exact IH].
Qed.

Lemma vid_eqb_eq a b : vid_eqb a b = true <-> a = b.
Proof.
  destruct a as [x|], b as [y|]; cbn; split; intros H; try discriminate; try reflexivity.
  - apply Nat.eqb_eq in H. congruence.
  - inversion H. apply Nat.eqb_refl.
Qed.
Lemma vid_eqb_refl a : vid_eqb a a = true.
Proof. apply vid_eqb_eq. reflexivity. Qed.
Lemma vid_eqb_neq a b : vid_eqb a b = false <-> a <> b.
Proof.
  split; intros H.
  - intros E. apply vid_eqb_eq in E. congruence.
  - destruct (vid_eqb a b) eqn:E; [apply vid_eqb_eq in E; congruence|reflexivity].
Qed.

(* ---------- lookups in a stack *)
Lemma find_id_drop_other s i j : i <> j -> find_id (drop_id s j) i = find_id s i.
Proof.
  intros H. induction s as [|v r IH]; cbn; [reflexivity|].
  destruct (vid_eqb (v_id v) j) eqn:E; cbn.
  - apply vid_eqb_eq in E. destruct (vid_eqb (v_id v) i) eqn:E2; [apply vid_eqb_eq in E2; congruence|exact IH].
  - destruct (vid_eqb (v_id v) i); [reflexivity|exact IH].
Qed.
Lemma find_id_drop_same s i : find_id (drop_id s i) i = None.
Proof.
  induction s as [|v r IH]; cbn; [reflexivity|].
  destruct (vid_eqb (v_id v) i) eqn:E; cbn; [exact IH|rewrite E; exact IH].
Qed.
Lemma find_id_in s i v : find_id s i = Some v -> In v s /\ v_id v = i.
Proof.
  induction s as [|w r IH]; cbn; [discriminate|].
  destruct (vid_eqb (v_id w) i) eqn:E.
  - intros H; inversion H; subst. apply vid_eqb_eq in E. auto.
  - intros H. destruct (IH H). auto.
Qed.
Lemma find_id_none_notin s i : find_id s i = None -> ~ In i (map v_id s).
Proof.
  induction s as [|w r IH]; cbn; [tauto|].
  destruct (vid_eqb (v_id w) i) eqn:E; [discriminate|]. intros H [H1|H1].
  - apply vid_eqb_neq in E. congruence.
  - apply IH; assumption.
Qed.
Lemma drop_id_notin s i : ~ In i (map v_id s) -> drop_id s i = s.
Proof.
  induction s as [|w r IH]; cbn; [reflexivity|]. intros H.
  destruct (vid_eqb (v_id w) i) eqn:E.
  - apply vid_eqb_eq in E. tauto.
  - cbn. f_equal. apply IH. tauto.
Qed.
Lemma in_drop_id s i x : In x (map v_id (drop_id s i)) -> In x (map v_id s) /\ x <> i.
Proof.
  induction s as [|w r IH]; cbn; [tauto|].
  destruct (vid_eqb (v_id w) i) eqn:E; cbn.
  - intros H. destruct (IH H). auto.
  - intros [H|H]; [subst; apply vid_eqb_neq in E; auto|destruct (IH H); auto].
Qed.
Lemma nodup_drop_id s i : NoDup (map v_id s) -> NoDup (map v_id (drop_id s i)).
Proof.
  induction s as [|w r IH]; cbn; [auto|]. intros H. inversion H; subst.
  destruct (vid_eqb (v_id w) i); cbn; [auto|]. constructor; [|auto].
  intros HI. apply in_drop_id in HI. tauto.
Qed.

(* ---------- the invariant of every reachable state *)
Definition ids_below (n : nat) (s : list ver) : Prop := forall m, In (Some m) (map v_id s) -> m < n.
Definition Inv (s : st) : Prop :=
  forall k, NoDup (map v_id (kget (keys s) k)) /\ ids_below (next s) (kget (keys s) k).

Lemma inv_init : Inv init.
Proof. intros k. cbn. split; [constructor|]. intros m []. Qed.

Lemma ids_below_mono n n' s : n <= n' -> ids_below n s -> ids_below n' s.
Proof. intros L H m Hm. specialize (H m Hm). lia. Qed.
Lemma ids_below_drop n s i : ids_below n s -> ids_below n (drop_id s i).
Proof. intros H m Hm. apply in_drop_id in Hm. apply H. tauto. Qed.

Ltac split_key k k0 :=
  destruct (Nat.eq_dec k k0) as [->|Hne]; [rewrite kget_kset_same|rewrite kget_kset_other by exact Hne].

Lemma inv_step s o : Inv s -> Inv (fst (step s o)).
Proof.
  intros I. destruct o as [x|k0 b me|k0|k0 i|k0|k0 i|]; cbn [step].
  - exact I.
  - destruct (vstat s); intros k; cbn [fst keys next]; split_key k k0; try apply I.
    + cbn. split; [constructor; [tauto|constructor]|]. intros m [H|[]]. discriminate.
    + destruct (I k0) as [N B]. cbn. split.
      * constructor; [|exact N]. intros HI. apply B in HI. lia.
      * intros m [H|H]; [inversion H; lia|]. apply B in H. lia.
    + destruct (I k) as [N B]. split; [exact N|]. eapply ids_below_mono; [|exact B]. lia.
    + destruct (I k0) as [N B]. cbn. split.
      * constructor; [|apply nodup_drop_id; exact N]. intros HI. apply in_drop_id in HI. tauto.
      * intros m [H|H]; [discriminate|]. apply in_drop_id in H. apply B. tauto.
  - destruct (kget (keys s) k0) as [|top rest] eqn:G; [exact I|].
    destruct (vstat s); intros k; cbn [fst keys next]; split_key k k0; try apply I.
    + cbn. split; [constructor|]. intros m [].
    + destruct (I k0) as [N B]. rewrite G in N, B. cbn. split.
      * constructor; [|exact N]. intros HI. apply B in HI. lia.
      * intros m [H|H]; [inversion H; lia|]. apply B in H. lia.
    + destruct (I k) as [N B]. split; [exact N|]. eapply ids_below_mono; [|exact B]. lia.
    + destruct (I k0) as [N B]. rewrite G in N, B. cbn [map v_id mk]. split.
      * constructor; [|apply nodup_drop_id; exact N]. intros HI. apply in_drop_id in HI. tauto.
      * intros m [H|H]; [discriminate|]. apply in_drop_id in H. apply B. tauto.
  - destruct (find_id (kget (keys s) k0) i) as [v|]; [|exact I].
    intros k; cbn [fst keys next]; split_key k k0; try apply I.
    destruct (I k0) as [N B]. split; [apply nodup_drop_id; exact N|apply ids_below_drop; exact B].
  - destruct (kget (keys s) k0) as [|v r]; [exact I|]. destruct (v_marker v); exact I.
  - destruct (kget (keys s) k0) as [|v0 r0]; [exact I|]. destruct (find_id (v0 :: r0) i) as [v|]; [|exact I]. destruct (v_marker v); exact I.
  - exact I.
Qed.

Lemma inv_run : forall ops s, Inv s -> Inv (fst (run s ops)).
Proof.
  induction ops as [|o r IH]; intros s I; cbn [run]; [exact I|].
  pose proof (inv_step s o I) as I1. destruct (step s o) as [s1 x]. cbn [fst] in I1.
  specialize (IH s1 I1). destruct (run s1 r) as [s2 xs]. exact IH.
Qed.

Theorem ids_unique_per_key : forall ops k, NoDup (map v_id (kget (keys (fst (run init ops))) k)).
Proof. intros ops k. exact (proj1 (inv_run ops init inv_init k)). Qed.

(* ---------- every successful write yields a new distinct version id *)
Theorem new_id_is_fresh : forall s k b me s' i, Inv s -> vstat s = Enabled ->
  step s (Put k b me) = (s', O_put (Some (Some i))) ->
  (forall k', ~ In (Some i) (map v_id (kget (keys s) k'))) /\ i = next s /\ next s' = S (next s) /\
  find_id (kget (keys s') k) (Some i) = Some (mk (Some i) false b me).
Proof.
  intros s k b me s' i I E H. cbn [step] in H. rewrite E in H. inversion H; subst. cbn [next keys].
  split; [|split; [reflexivity|split; [reflexivity|]]].
  - intros k' HI. apply (proj2 (I k')) in HI. lia.
  - rewrite kget_kset_same. cbn. rewrite Nat.eqb_refl. reflexivity.
Qed.

(* the ids handed out along a history, in order *)
Definition out_id (x : out) : list nat :=
  match x with O_put (Some (Some i)) => [i] | O_deleted (Some (Some i)) => [i] | _ => [] end.
Fixpoint increasing_from (n : nat) (l : list nat) : Prop :=
  match l with [] => True | x :: r => n <= x /\ increasing_from (S x) r end.

Ltac fin := cbn; repeat split; auto; try lia; try (intros ? []); try (intros ? [?|[]]; subst; reflexivity).
Lemma step_next s o : next s <= next (fst (step s o)) /\ increasing_from (next s) (out_id (snd (step s o))) /\
  (forall i, In i (out_id (snd (step s o))) -> next (fst (step s o)) = S i).
Proof.
  destruct o as [x|k0 b me|k0|k0 i|k0|k0 i|]; cbn [step].
  - fin.
  - destruct (vstat s); fin.
  - destruct (kget (keys s) k0) as [|top rest]; [fin|]. destruct (vstat s); fin.
  - destruct (find_id (kget (keys s) k0) i); fin.
  - destruct (kget (keys s) k0) as [|v r]; [fin|]. destruct (v_marker v); fin.
  - destruct (kget (keys s) k0) as [|v0 r0]; [fin|]. destruct (find_id (v0 :: r0) i) as [v|]; [|fin]. destruct (v_marker v); fin.
  - fin.
Qed.

Lemma increasing_weaken n m l : n <= m -> increasing_from m l -> increasing_from n l.
Proof. destruct l as [|x r]; cbn; [auto|]. intros L [H1 H2]. split; [lia|exact H2]. Qed.
Lemma increasing_app n l1 l2 m : increasing_from n l1 -> (forall i, In i l1 -> S i <= m) -> n <= m -> increasing_from m l2 -> increasing_from n (l1 ++ l2).
Proof.
  revert n. induction l1 as [|x r IH]; intros n H1 Hb Hn H2; cbn.
  - eapply increasing_weaken; eauto.
  - destruct H1 as [A B]. split; [exact A|]. apply IH; auto.
    + intros i Hi. apply Hb. right. exact Hi.
    + apply Hb. left. reflexivity.
Qed.

Theorem handed_out_ids_increase : forall ops s, increasing_from (next s) (flat_map out_id (snd (run s ops))) /\ next s <= next (fst (run s ops)).
Proof.
  induction ops as [|o r IH]; intros s; cbn [run]; [cbn; auto|].
  pose proof (step_next s o) as [L [Inc Nx]].
  destruct (step s o) as [s1 x]. cbn [fst snd] in *. destruct (IH s1) as [IH1 IH2]. destruct (run s1 r) as [s2 xs]. cbn [fst snd flat_map] in *.
  split; [|lia].
  eapply increasing_app; [exact Inc| |exact L|exact IH1].
  intros i Hi. rewrite (Nx i Hi). lia.
Qed.

Lemma increasing_nodup n l : increasing_from n l -> NoDup l /\ forall x, In x l -> n <= x.
Proof.
  revert n. induction l as [|x r IH]; intros n H; cbn in *; [split; [constructor|tauto]|].
  destruct H as [A B]. destruct (IH _ B) as [N Lb]. split.
  - constructor; [|exact N]. intros HI. apply Lb in HI. lia.
  - intros y [->|Hy]; [exact A|]. apply Lb in Hy. lia.
Qed.
Theorem handed_out_ids_distinct : forall ops, NoDup (flat_map out_id (snd (run init ops))).
Proof. intros ops. destruct (handed_out_ids_increase ops init) as [H _]. exact (proj1 (increasing_nodup _ _ H)). Qed.

(* ---------- a version stays until it is deleted by id *)
(* in a versioned bucket (enabled, or suspended for the versions with an id) a version is untouched by every operation
   other than its own deletion by id *)
Theorem version_stays : forall s o k i v, Inv s -> vstat s <> Off -> (i = None -> vstat s = Enabled) ->
  o <> DeleteVersion k i -> (forall x, o = SetStatus x -> x <> Off) ->
  find_id (kget (keys s) k) i = Some v ->
  find_id (kget (keys (fst (step s o))) k) i = Some v /\ vstat (fst (step s o)) <> Off.
Proof.
  intros s o k i v I NOff Hnull ND NS F.
  destruct o as [x|k0 b me|k0|k0 j|k0|k0 j|]; cbn [step].
  - cbn. split; [exact F|]. apply (NS x eq_refl).
  - destruct (vstat s) eqn:E; [congruence| |]; cbn [fst keys vstat]; (split; [|congruence]).
    + split_key k k0; [|exact F]. cbn [find_id mk v_id]. destruct (vid_eqb (Some (next s)) i) eqn:E2; [|exact F].
      (* the new id is not in the stack: the ids there are below next *)
      exfalso. apply vid_eqb_eq in E2. subst i. apply find_id_in in F. destruct F as [Fi Fe].
      assert (HI : In (Some (next s)) (map v_id (kget (keys s) k0))) by (rewrite <- Fe; apply in_map; exact Fi).
      apply (proj2 (I k0)) in HI. lia.
    + split_key k k0; [|exact F]. destruct i as [n|]; [|specialize (Hnull eq_refl); congruence].
      cbn [find_id mk v_id vid_eqb]. rewrite find_id_drop_other by discriminate. exact F.
  - destruct (kget (keys s) k0) as [|top rest] eqn:G; [split; [exact F|exact NOff]|].
    destruct (vstat s) eqn:E; [congruence| |]; cbn [fst keys vstat]; (split; [|congruence]).
    + split_key k k0; [|exact F]. rewrite G in F. cbn [find_id mk v_id].
      destruct (vid_eqb (Some (next s)) i) eqn:E2; [|exact F].
      exfalso. apply vid_eqb_eq in E2. subst i. apply find_id_in in F. destruct F as [Fi Fe].
      assert (HI : In (Some (next s)) (map v_id (kget (keys s) k0))) by (rewrite G; rewrite <- Fe; apply in_map; exact Fi).
      apply (proj2 (I k0)) in HI. lia.
    + split_key k k0; [|exact F]. rewrite G in F. destruct i as [n|]; [|specialize (Hnull eq_refl); congruence].
      cbn [find_id mk v_id vid_eqb]. rewrite find_id_drop_other by discriminate. exact F.
  - destruct (find_id (kget (keys s) k0) j) as [w|] eqn:Fj; [|split; [exact F|exact NOff]].
    cbn [fst keys vstat]. split; [|exact NOff]. split_key k k0; [|exact F].
    rewrite find_id_drop_other; [exact F|]. intros ->. apply ND. reflexivity.
  - destruct (kget (keys s) k0) as [|w r]; [split; [exact F|exact NOff]|]. destruct (v_marker w); split; auto.
  - destruct (kget (keys s) k0) as [|v0 r0]; [split; [exact F|exact NOff]|]. destruct (find_id (v0 :: r0) j) as [w|]; [|split; auto]. destruct (v_marker w); split; auto.
  - split; [exact F|exact NOff].
Qed.

(* ... over whole histories: as long as it is not deleted by id (and, for the null version, versioning stays enabled),
   a version is returned by GET ?versionId with its own content and metadata after any sequence of operations *)
Definition harmless (k : nat) (i : vid) (o : op) : Prop :=
  o <> DeleteVersion k i /\ (forall x, o = SetStatus x -> x <> Off /\ (i = None -> x = Enabled)).

Theorem version_retrievable_after_history : forall ops s k i v, Inv s -> vstat s <> Off -> (i = None -> vstat s = Enabled) ->
  Forall (harmless k i) ops -> find_id (kget (keys s) k) i = Some v -> v_marker v = false ->
  snd (step (fst (run s ops)) (GetVersion k i)) = O_obj (v_blob v) (v_meta v) i.
Proof.
  induction ops as [|o r IH]; intros s k i v I NOff Hnull HF F NM; cbn [run].
  - cbn [fst step]. destruct (kget (keys s) k) as [|v0 r0] eqn:G; [discriminate|]. rewrite F, NM.
    destruct (find_id_in _ _ _ F) as [_ E]. rewrite E. reflexivity.
  - inversion HF as [|o' r' [H1 H2] HF']; subst.
    assert (NS : forall x, o = SetStatus x -> x <> Off) by (intros x E; exact (proj1 (H2 x E))).
    destruct (version_stays s o k i v I NOff Hnull H1 NS F) as [F1 NOff1].
    pose proof (inv_step s o I) as I1.
    assert (Hnull1 : i = None -> vstat (fst (step s o)) = Enabled).
    { intros E. specialize (Hnull E). destruct o as [x|k0 b me|k0|k0 j|k0|k0 j|]; cbn [step].
      - cbn. exact (proj2 (H2 x eq_refl) E).
      - rewrite Hnull. reflexivity.
      - destruct (kget (keys s) k0); [exact Hnull|]. rewrite Hnull. reflexivity.
      - destruct (find_id (kget (keys s) k0) j); exact Hnull.
      - destruct (kget (keys s) k0) as [|w r0]; [exact Hnull|]. destruct (v_marker w); exact Hnull.
      - destruct (kget (keys s) k0) as [|w0 r0]; [exact Hnull|]. destruct (find_id (w0 :: r0) j) as [w|]; [|exact Hnull]. destruct (v_marker w); exact Hnull.
      - exact Hnull. }
    destruct (step s o) as [s1 x]. cbn [fst] in *.
    specialize (IH s1 k i v I1 NOff1 Hnull1 HF' F1 NM). destruct (run s1 r) as [s2 xs]. exact IH.
Qed.

(* ---------- a delete without an id only adds a delete marker; the key then reads as missing *)
Theorem delete_adds_marker : forall s k top rest, vstat s = Enabled -> kget (keys s) k = top :: rest ->
  let s' := fst (step s (Delete k)) in
  snd (step s (Delete k)) = O_deleted (Some (Some (next s))) /\
  (exists m, kget (keys s') k = m :: top :: rest /\ v_id m = Some (next s) /\ v_marker m = true) /\
  snd (step s' (Get k)) = O_err NoSuchKey true /\
  (forall k', k' <> k -> kget (keys s') k' = kget (keys s) k').
Proof.
  intros s k top rest E G s'. subst s'. cbn [step]. rewrite G, E. cbn [fst snd keys].
  split; [reflexivity|]. split; [|split].
  - eexists. rewrite kget_kset_same. split; [reflexivity|]. split; reflexivity.
  - cbn [step keys]. rewrite kget_kset_same. reflexivity.
  - intros k' Hne. apply kget_kset_other. exact Hne.
Qed.

(* ---------- deleting the newest version or marker re-exposes the previous one *)
Theorem deleting_newest_reexposes_previous : forall s k v w rest, Inv s -> kget (keys s) k = v :: w :: rest ->
  let s' := fst (step s (DeleteVersion k (v_id v))) in
  snd (step s (DeleteVersion k (v_id v))) = O_delver (v_marker v) /\
  kget (keys s') k = w :: rest /\
  snd (step s' (Get k)) = (if v_marker w then O_err NoSuchKey true else O_obj (v_blob w) (v_meta w) (v_id w)).
Proof.
  intros s k v w rest I G s'. subst s'. cbn [step]. rewrite G. cbn [find_id]. rewrite vid_eqb_refl. cbn [fst snd keys].
  assert (D : drop_id (v :: w :: rest) (v_id v) = w :: rest).
  { change (drop_id (v :: w :: rest) (v_id v)) with (if negb (vid_eqb (v_id v) (v_id v)) then v :: drop_id (w :: rest) (v_id v) else drop_id (w :: rest) (v_id v)).
    rewrite vid_eqb_refl. cbn [negb]. apply drop_id_notin.
    destruct (I k) as [N _]. rewrite G in N. inversion N; assumption. }
  split; [reflexivity|]. rewrite kget_kset_same, D. split; [reflexivity|].
  cbn [step keys]; rewrite ?kget_kset_same. destruct (v_marker w); reflexivity.
Qed.

(* ---------- ListObjectVersions reports exactly the existing versions and markers, newest first, one of them latest *)
Definition entry_of (latest : bool) (v : ver) : vid * bool * nat * bool := (v_id v, v_marker v, v_blob v, latest).
Definition listing_of (stack : list ver) : list (vid * bool * nat * bool) :=
  match stack with [] => [] | v :: r => entry_of true v :: map (entry_of false) r end.

Theorem listing_is_exact : forall s, snd (step s ListVersions) = O_list (map (fun ks => (fst ks, listing_of (snd ks))) (keys s)).
Proof. intros s. reflexivity. Qed.

Lemma listing_shape : forall stack,
  map (fun e => match e with (i, m, b, _) => (i, m, b) end) (listing_of stack) = map (fun v => (v_id v, v_marker v, v_blob v)) stack /\
  length (filter (fun e => snd e) (listing_of stack)) = (match stack with [] => 0 | _ => 1 end).
Proof.
  intros [|v r]; cbn; [auto|]. split.
  - f_equal. induction r as [|w r IH]; cbn; [reflexivity|]. f_equal. exact IH.
  - f_equal. induction r as [|w r IH]; cbn; [reflexivity|exact IH].
Qed.

(* the key table holds each key once, so the listing has one group per key *)
Lemma kset_keys l k s : NoDup (map fst l) -> NoDup (map fst (kset l k s)) /\ (forall x, In x (map fst (kset l k s)) <-> x = k \/ In x (map fst l)).
Proof.
  induction l as [|[j t] r IH]; cbn; intros N.
  - split; [constructor; [tauto|constructor]|]. intros x. intuition congruence.
  - inversion N; subst. destruct (Nat.eqb j k) eqn:E; cbn.
    + apply Nat.eqb_eq in E. subst j. split; [constructor; assumption|]. intros x. intuition congruence.
    + destruct (IH H2) as [N' M]. split.
      * constructor; [|exact N']. intros HI. apply M in HI. destruct HI as [->|HI]; [rewrite Nat.eqb_refl in E; discriminate|tauto].
      * intros x. rewrite M. tauto.
Qed.
Lemma keys_nodup_step s o : NoDup (map fst (keys s)) -> NoDup (map fst (keys (fst (step s o)))).
Proof.
  intros N. destruct o as [x|k0 b me|k0|k0 i|k0|k0 i|]; cbn [step]; try exact N.
  - destruct (vstat s); cbn [fst keys]; apply kset_keys; exact N.
  - destruct (kget (keys s) k0); [exact N|]. destruct (vstat s); cbn [fst keys]; apply kset_keys; exact N.
  - destruct (find_id (kget (keys s) k0) i); [|exact N]. cbn [fst keys]. apply kset_keys. exact N.
  - destruct (kget (keys s) k0) as [|v r]; [exact N|]. destruct (v_marker v); exact N.
  - destruct (kget (keys s) k0) as [|v0 r0]; [exact N|]. destruct (find_id (v0 :: r0) i) as [v|]; [|exact N]. destruct (v_marker v); exact N.
Qed.
Theorem listing_one_group_per_key : forall ops, NoDup (map fst (keys (fst (run init ops)))).
Proof.
  assert (G : forall ops s, NoDup (map fst (keys s)) -> NoDup (map fst (keys (fst (run s ops))))).
  { induction ops as [|o r IH]; intros s N; cbn [run]; [exact N|].
    pose proof (keys_nodup_step s o N) as N1. destruct (step s o) as [s1 x]. cbn [fst] in N1.
    specialize (IH s1 N1). destruct (run s1 r) as [s2 xs]. exact IH. }
  intros ops. apply G. constructor.
Qed.
Lemma kget_in l k : NoDup (map fst l) -> forall s, In (k, s) l -> kget l k = s.
Proof.
  induction l as [|[j t] r IH]; cbn; intros N s H; [tauto|]. inversion N; subst.
  destruct H as [H|H].
  - inversion H; subst. rewrite Nat.eqb_refl. reflexivity.
  - destruct (Nat.eqb j k) eqn:E; [|apply IH; assumption].
    apply Nat.eqb_eq in E. subst j. exfalso. apply H2. change k with (fst (k, s)). apply in_map. exact H.
Qed.
