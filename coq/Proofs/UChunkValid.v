(* C12, the unsigned reader (Model/UnsignedChunk.v, a transcription of s3api/utils/unsigned-chunk-reader.go): a valid stream decodes to
   its payload whatever destination buffer sizes the caller reads with.

   The model reads from the bytes its bufio.Reader delivers; how the network fragments them is bufio's business (ReadString and
   io.ReadFull block until the bytes are there) and is not modelled. What is quantified here is what the reader itself controls:
   the sizes of the destination buffers of successive Read calls (each at least 1), against the stash of undelivered payload. *)
From Coq Require Import NArith ZArith List Bool Lia.
From VGW Require Import Base.Bytes Crypto.Crc Model.SignedChunk Model.UnsignedChunk Proofs.ChunkFrag.
Import ListNotations.
Open Scope N_scope.

Lemma read_line_self : forall m r acc, ~ In 10 m -> read_line (m ++ 10 :: r) acc = Some (acc ++ m ++ [10], r).
Proof.
  induction m as [|c m IH]; intros r acc Hn; cbn [app read_line].
  - rewrite N.eqb_refl. reflexivity.
  - destruct (c =? 10) eqn:E; [apply N.eqb_eq in E; subst c; exfalso; apply Hn; left; reflexivity|].
    rewrite IH by (intros H; apply Hn; right; exact H). rewrite <- app_assoc. reflexivity.
Qed.

Section UValid.
  Variable kind : trailer_kind.
  Variables (a0 total : bytes).

  Definition uchunk (c : bytes * bytes) : bytes := fst c ++ 13 :: 10 :: snd c ++ [13; 10].
  Definition ufinal : bytes := a0 ++ 13 :: 10 :: trailer_name kind ++ 58 :: trailer_sum kind total ++ [13; 10; 13; 10].
  Fixpoint uenc (cs : list (bytes * bytes)) : bytes := match cs with [] => ufinal | c :: r => uchunk c ++ uenc r end.

  Definition uwf_chunk (c : bytes * bytes) : Prop :=
    ~ In 10 (fst c) /\ parse_hex (trim (fst c ++ [13; 10])) = Some (Z.of_nat (List.length (snd c))) /\ snd c <> [].
  Hypothesis Hfin : ~ In 10 a0 /\ parse_hex (trim (a0 ++ [13; 10])) = Some 0%Z.
  (* facts about the base64 checksum string the proof does not redo: no CR, no colon, no surrounding white space *)
  Hypothesis Hck13 : ~ In 13 (trailer_sum kind total).
  Hypothesis Hck58 : existsb (N.eqb 58) (trailer_sum kind total) = false.
  Hypothesis Hcktrim : trim (trailer_name kind ++ 58 :: trailer_sum kind total) = trailer_name kind ++ 58 :: trailer_sum kind total.

  Lemma tname_no13 : ~ In 13 (trailer_name kind).
  Proof. destruct kind; intros H; vm_compute in H; repeat (destruct H as [H|H]; [discriminate|]); exact H. Qed.

  Lemma read_trailer_ok : forall s r, rest s = trailer_name kind ++ 58 :: trailer_sum kind total ++ [13; 10; 13; 10] ++ r -> hashed s = total ->
    read_trailer kind s = U_EOF.
  Proof.
    intros s r Hr Hh. unfold read_trailer. rewrite Hr.
    replace (trailer_name kind ++ 58 :: trailer_sum kind total ++ [13; 10; 13; 10] ++ r) with ((trailer_name kind ++ 58 :: trailer_sum kind total) ++ 13 :: [10; 13; 10] ++ r)
      by (repeat first [rewrite <- app_assoc | progress cbn [app]]; reflexivity).
    rewrite read_until_self.
    2: { intros H. apply in_app_or in H. destruct H as [H|[H|H]]; [exact (tname_no13 H)|discriminate|exact (Hck13 H)]. }
    cbn [app beq]. rewrite !N.eqb_refl. cbn [andb negb]. rewrite Hcktrim.
    rewrite (read_until_self 58 (trailer_name kind) _ [] (tname_no58 kind)). cbn [app]. rewrite Hck58, beq_refl. cbn [negb]. rewrite Hh, beq_refl. reflexivity.
  Qed.

  Definition CL (cs : list (bytes * bytes)) (b : nat) (s : ust) (out : bytes) : Prop :=
    rest s = uenc cs /\ uoff s = List.length out /\ hashed s ++ concat (map snd cs) = total /\ Forall uwf_chunk cs /\ (List.length out <= b)%nat.

  Lemma chunk_loop_ok : forall cs f b s out, CL cs b s out -> (List.length cs < f)%nat -> (1 <= b)%nat ->
    exists t e s', chunk_loop kind f b s out = (out ++ t, e, s') /\
      ((e = U_EOF /\ t = concat (map snd cs)) \/
       (e = U_None /\ out ++ t <> [] /\ exists cs', rest s' = uenc cs' /\ uoff s' = O /\ Forall uwf_chunk cs' /\ ustash s' <> [] /\
          t ++ ustash s' ++ concat (map snd cs') = concat (map snd cs) /\ hashed s' = hashed s ++ t ++ ustash s')).
  Proof.
    induction cs as [|[a d] cs IH]; intros f b s out [Hr [Ho [Hh [Hwf Hle]]]] Hf Hb; (destruct f as [|f]; [lia|]); cbn [chunk_loop].
    - cbn [uenc] in Hr. unfold ufinal in Hr. rewrite Hr. destruct Hfin as [Ha0 Hp0].
      replace (a0 ++ 13 :: 10 :: trailer_name kind ++ 58 :: trailer_sum kind total ++ [13; 10; 13; 10])
        with ((a0 ++ [13]) ++ 10 :: trailer_name kind ++ 58 :: trailer_sum kind total ++ [13; 10; 13; 10] ++ [])
        by (repeat first [rewrite <- app_assoc | progress cbn [app]]; rewrite ?app_nil_r; reflexivity).
      rewrite read_line_self by (intros H; apply in_app_or in H; destruct H as [H|[H|[]]]; [exact (Ha0 H)|discriminate]).
      cbn [app]. replace ((a0 ++ [13]) ++ [10]) with (a0 ++ [13; 10]) by (rewrite <- app_assoc; reflexivity). rewrite Hp0. cbn [Z.eqb].
      rewrite (read_trailer_ok _ []); [| reflexivity | cbn [hashed]; cbn [concat map] in Hh; rewrite app_nil_r in Hh; exact Hh].
      exists [], U_EOF. eexists. split; [rewrite app_nil_r; reflexivity|]. left. split; reflexivity.
    - cbn [uenc] in Hr. unfold uchunk in Hr. cbn [fst snd] in Hr. inversion Hwf as [|c cs0 [Ha [Hp Hd]] Hwf']; subst c cs0. cbn [fst snd] in Ha, Hp, Hd.
      rewrite Hr.
      replace ((a ++ 13 :: 10 :: d ++ [13; 10]) ++ uenc cs) with ((a ++ [13]) ++ 10 :: d ++ [13; 10] ++ uenc cs)
        by (repeat first [rewrite <- app_assoc | progress cbn [app]]; reflexivity).
      rewrite read_line_self by (intros H; apply in_app_or in H; destruct H as [H|[H|[]]]; [exact (Ha H)|discriminate]).
      cbn [app]. replace ((a ++ [13]) ++ [10]) with (a ++ [13; 10]) by (rewrite <- app_assoc; reflexivity). rewrite Hp.
      assert (Hn : List.length d <> O) by (destruct d; [exfalso; apply Hd; reflexivity|discriminate]).
      replace (Z.of_nat (List.length d) =? 0)%Z with false by (symmetry; apply Z.eqb_neq; lia).
      replace (Z.of_nat (List.length d) <? 0)%Z with false by (symmetry; apply Z.ltb_ge; lia).
      match goal with |- context [(Z.of_nat (List.length ?X) <? Z.of_nat (List.length d))%Z] => replace (Z.of_nat (List.length X) <? Z.of_nat (List.length d))%Z with false by (symmetry; apply Z.ltb_ge; rewrite app_length; lia) end.
      rewrite Nat2Z.id, firstn_len_app, skipn_len_app. cbn [read_and_skip]. rewrite !N.eqb_refl. cbn [hashed ustash uoff rest].
      set (room := (b - uoff s)%nat). set (tk := Nat.min room (List.length d)).
      destruct (Nat.ltb tk (List.length d)) eqn:Et.
      + apply Nat.ltb_lt in Et. exists (firstn tk d), U_None. eexists. split; [reflexivity|]. right. split; [reflexivity|]. split.
        * intros H. apply app_eq_nil in H. destruct H as [H1 H2]. subst out. cbn [List.length] in *.
          assert (tk <> O) by (unfold tk, room; lia). destruct d; [exfalso; apply Hd; reflexivity|]. destruct tk; [lia|]. discriminate H2.
        * exists cs. cbn [rest uoff ustash hashed]. repeat split; try assumption.
          -- intros H. apply (f_equal (@List.length N)) in H. rewrite skipn_length in H. cbn [List.length] in H. lia.
          -- cbn [concat map snd]. transitivity ((firstn tk d ++ skipn tk d) ++ concat (map snd cs)); [rewrite <- app_assoc; reflexivity|rewrite firstn_skipn; reflexivity].
          -- transitivity (hashed s ++ (firstn tk d ++ skipn tk d)); [rewrite firstn_skipn; reflexivity|reflexivity].
      + apply Nat.ltb_ge in Et. assert (Htk : tk = List.length d) by (unfold tk in *; lia). rewrite Htk, firstn_all.
        destruct (IH f b {| rest := uenc cs; ustash := ustash s; uoff := (uoff s + List.length d)%nat; hashed := hashed s ++ d |} (out ++ d)) as [t [e [s' [Hc Hres]]]].
        * unfold CL. cbn [rest uoff hashed]. repeat split; try assumption.
          -- rewrite app_length. lia.
          -- rewrite <- app_assoc. exact Hh.
          -- rewrite app_length. unfold tk, room in *. lia.
        * cbn [List.length] in Hf. lia.
        * exact Hb.
        * exists (d ++ t), e, s'. split; [rewrite Hc, app_assoc; reflexivity|]. cbn [concat map snd]. cbn [hashed] in Hres.
          destruct Hres as [[He Ht]|[He [Hne [cs' [H1 [H2 [H3 [H4 [H5 H6]]]]]]]]].
          -- left. split; [exact He|rewrite Ht; reflexivity].
          -- right. split; [exact He|]. split; [rewrite app_assoc; exact Hne|]. exists cs'. repeat split; try assumption.
             ++ rewrite <- app_assoc. rewrite H5. reflexivity.
             ++ rewrite H6. rewrite <- !app_assoc. reflexivity.
  Qed.

  Lemma uenc_len : forall cs, (List.length cs < List.length (uenc cs))%nat.
  Proof.
    induction cs as [|c cs IH]; cbn [uenc List.length].
    - unfold ufinal. rewrite app_length. cbn [List.length]. lia.
    - unfold uchunk. rewrite !app_length. cbn [List.length]. lia.
  Qed.

  (* between two Reads: the undelivered payload is the stash followed by the data of the chunks still in the stream *)
  Definition UI (s : ust) (acc : bytes) : Prop :=
    exists cs, rest s = uenc cs /\ uoff s = O /\ Forall uwf_chunk cs /\ hashed s = acc ++ ustash s /\ acc ++ ustash s ++ concat (map snd cs) = total.

  Lemma uread_ok : forall s acc b, UI s acc -> (1 <= b)%nat ->
    exists out e s', uread kind s b = (out, e, s') /\
      ((e = U_EOF /\ acc ++ out = total) \/ (e = U_None /\ out <> [] /\ UI s' (acc ++ out))).
  Proof.
    intros s acc b [cs [Hr [Ho [Hwf [Hh Ht]]]]] Hb. unfold uread. destruct (ustash s) as [|x st'] eqn:Est.
    - rewrite app_nil_r in Hh. cbn [app] in Ht.
      destruct (chunk_loop_ok cs (S (List.length (rest s))) b s []) as [t [e [s' [Hc Hres]]]].
      + unfold CL. cbn [List.length]. repeat split; try assumption; [rewrite Hh; exact Ht|lia].
      + rewrite Hr. pose proof (uenc_len cs). lia.
      + exact Hb.
      + cbn [app] in Hc. exists t, e, s'. split; [exact Hc|]. destruct Hres as [[He Hte]|[He [Hne [cs' [H1 [H2 [H3 [H4 [H5 H6]]]]]]]]].
        * left. split; [exact He|]. rewrite Hte. exact Ht.
        * right. split; [exact He|]. split; [exact Hne|]. exists cs'. repeat split; try assumption.
          -- rewrite H6, Hh, <- app_assoc. reflexivity.
          -- rewrite <- app_assoc, H5. exact Ht.
    - set (st := x :: st') in *. set (n := Nat.min b (List.length st)).
      assert (Hst : st <> []) by discriminate. assert (Hls : (1 <= List.length st)%nat) by (unfold st; cbn [List.length]; lia).
      destruct (Nat.ltb n (List.length st)) eqn:En.
      + apply Nat.ltb_lt in En. exists (firstn n st), U_None. eexists. split; [reflexivity|]. right. split; [reflexivity|]. split.
        * intros H. apply (f_equal (@List.length N)) in H. rewrite firstn_length in H. cbn [List.length] in H. unfold n in *. lia.
        * exists cs. cbn [rest uoff ustash hashed]. repeat split; try assumption.
          -- rewrite Hh. transitivity (acc ++ (firstn n st ++ skipn n st)); [rewrite firstn_skipn; reflexivity|rewrite app_assoc; reflexivity].
          -- rewrite <- app_assoc. transitivity (acc ++ (firstn n st ++ skipn n st) ++ concat (map snd cs)); [rewrite <- app_assoc; reflexivity|rewrite firstn_skipn; exact Ht].
      + apply Nat.ltb_ge in En. assert (Hn : n = List.length st) by (unfold n in *; lia). rewrite Hn, firstn_all.
        destruct (chunk_loop_ok cs (S (List.length (rest s))) b {| rest := rest s; ustash := st; uoff := (uoff s + List.length st)%nat; hashed := hashed s |} st) as [t [e [s' [Hc Hres]]]].
        * unfold CL. cbn [rest uoff hashed]. repeat split; try assumption; [lia|rewrite Hh, <- app_assoc; exact Ht|unfold n in *; lia].
        * rewrite Hr. pose proof (uenc_len cs). lia.
        * exact Hb.
        * cbn [rest] in Hc. exists (st ++ t), e, s'. split; [exact Hc|]. cbn [hashed] in Hres.
          destruct Hres as [[He Hte]|[He [Hne [cs' [H1 [H2 [H3 [H4 [H5 H6]]]]]]]]].
          -- left. split; [exact He|]. rewrite Hte. exact Ht.
          -- right. split; [exact He|]. split; [exact Hne|]. exists cs'. repeat split; try assumption.
             ++ rewrite H6, Hh, <- !app_assoc. reflexivity.
             ++ rewrite <- !app_assoc. rewrite H5. exact Ht.
  Qed.

  (* every schedule of destination sizes (each at least one byte) delivers the payload and ends cleanly *)
  Theorem urun_valid : forall fuel s bufs dflt acc, UI s acc -> Forall (fun b => (1 <= b)%nat) bufs -> (1 <= dflt)%nat ->
    (List.length total - List.length acc < fuel)%nat -> urun kind fuel s bufs dflt acc = (total, U_EOF).
  Proof.
    induction fuel as [|f IH]; intros s bufs dflt acc Hui Hbufs Hd Hf; [lia|]. cbn [urun].
    set (b := match bufs with x :: _ => x | [] => dflt end). set (bufs' := match bufs with _ :: r => r | [] => [] end).
    replace (match bufs with x :: r => (x, r) | [] => (dflt, []) end) with (b, bufs') by (destruct bufs; reflexivity).
    assert (Hb : (1 <= b)%nat) by (unfold b; destruct bufs; [exact Hd|inversion Hbufs; assumption]).
    assert (Hbufs' : Forall (fun b => (1 <= b)%nat) bufs') by (unfold bufs'; destruct bufs; [constructor|inversion Hbufs; assumption]).
    destruct (uread_ok s acc b Hui Hb) as [out [e [s' [Hr Hres]]]]. rewrite Hr.
    destruct Hres as [[He Ht]|[He [Hne Hui']]]; subst e; [rewrite Ht; reflexivity|].
    apply IH; try assumption. destruct Hui' as [cs [_ [_ [_ [_ Htot]]]]].
    apply (f_equal (@List.length N)) in Htot. rewrite !app_length in Htot. rewrite app_length.
    assert (List.length out <> O) by (destruct out; [exfalso; apply Hne; reflexivity|discriminate]). lia.
  Qed.

  Corollary urun_valid_init : forall cs bufs dflt fuel, Forall uwf_chunk cs -> concat (map snd cs) = total ->
    Forall (fun b => (1 <= b)%nat) bufs -> (1 <= dflt)%nat -> (List.length total < fuel)%nat ->
    urun kind fuel (uinit (uenc cs)) bufs dflt [] = (total, U_EOF).
  Proof.
    intros cs bufs dflt fuel Hwf Htot Hb Hd Hf. apply urun_valid; try assumption; [|cbn [List.length]; lia].
    exists cs. unfold uinit. cbn [rest uoff ustash hashed app]. repeat split; try assumption.
  Qed.
End UValid.
