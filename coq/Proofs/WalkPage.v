(* C07, pagination: with no prefix and no delimiter, Walk with any marker and any page size returns, on an order-compatible tree,
   exactly the page the S3 listing rule demands: the first [max] keys strictly after the marker, in order; truncated iff more keys
   remain; the next marker is the last key of the page. Following the markers therefore visits every key exactly once. *)
From Coq Require Import String Ascii List Arith NArith Lia Bool.
From VGW Require Import Base.GoStr Model.Walk Spec.ListSpec Proofs.WalkProof Proofs.WalkFlat Proofs.WalkRefine.
Import ListNotations.
Open Scope string_scope.
Open Scope list_scope.

(* ---------- the order on strings *)
Lemma N_of_ascii_inj a b : N_of_ascii a = N_of_ascii b -> a = b.
Proof. intros H. rewrite <- (ascii_N_embedding a), <- (ascii_N_embedding b), H. reflexivity. Qed.

Lemma str_ltb_trans : forall a b c, str_ltb a b = true -> str_ltb b c = true -> str_ltb a c = true.
Proof.
  induction a as [|x a IH]; intros [|y b] [|z c] H1 H2; cbn in *; try discriminate; try reflexivity.
  destruct (N.ltb (N_of_ascii x) (N_of_ascii y)) eqn:E1.
  - destruct (N.ltb (N_of_ascii y) (N_of_ascii z)) eqn:E2.
    + apply N.ltb_lt in E1, E2. replace (N.ltb (N_of_ascii x) (N_of_ascii z)) with true by (symmetry; apply N.ltb_lt; lia). reflexivity.
    + destruct (N.ltb (N_of_ascii z) (N_of_ascii y)) eqn:E3; [discriminate|]. apply N.ltb_lt in E1. apply N.ltb_ge in E2, E3.
      replace (N.ltb (N_of_ascii x) (N_of_ascii z)) with true by (symmetry; apply N.ltb_lt; lia). reflexivity.
  - destruct (N.ltb (N_of_ascii y) (N_of_ascii x)) eqn:E1'; [discriminate|]. apply N.ltb_ge in E1, E1'.
    assert (N_of_ascii x = N_of_ascii y) by lia. rewrite H in *.
    destruct (N.ltb (N_of_ascii y) (N_of_ascii z)) eqn:E2; [reflexivity|].
    destruct (N.ltb (N_of_ascii z) (N_of_ascii y)) eqn:E3; [discriminate|]. eapply IH; eauto.
Qed.

Lemma str_ltb_tricho : forall a b, str_ltb a b = true \/ a = b \/ str_ltb b a = true.
Proof.
  induction a as [|x a IH]; intros [|y b]; cbn; auto.
  destruct (N.ltb (N_of_ascii x) (N_of_ascii y)) eqn:E1; [auto|].
  destruct (N.ltb (N_of_ascii y) (N_of_ascii x)) eqn:E2; [auto|].
  apply N.ltb_ge in E1, E2. assert (Hxy : x = y) by (apply N_of_ascii_inj; lia). subst y.
  destruct (IH b) as [H|[H|H]]; [left; exact H|right; left; subst; reflexivity|right; right; exact H].
Qed.

Lemma str_ltb_asym : forall a b, str_ltb a b = true -> str_ltb b a = false.
Proof.
  intros a b H. destruct (str_ltb b a) eqn:E; [|reflexivity]. pose proof (str_ltb_trans _ _ _ H E) as Hc. rewrite str_ltb_irrefl in Hc. discriminate.
Qed.

(* ---------- the walk as a fold over the nodes in walk order *)
(* every node below the root, as (text compared with the marker and listed: "path" or "path/", is it an object) *)
Fixpoint nodes_at (path : string) (t : tree) : list (string * bool) :=
  match t with
  | F b => [(path, b)]
  | D b kids =>
      (if String.eqb path "." then [] else [((path ++ "/")%string, b)]) ++
      (fix go (k : list (string * tree)) : list (string * bool) :=
         match k with [] => [] | (n, c) :: r => nodes_at (pjoin path n) c ++ go r end) kids
  end.

Section Page.
  Variables (marker : string) (max : nat).

  Definition mark_past (s : st) : st :=
    {| objs := objs s; cps := cps s; pastMarker := true; pastMax := pastMax s; truncated := truncated s; newMarker := newMarker s |}.

  Definition kstep (e : string * bool) (s : st) : ctl * st :=
    let emit := if snd e then emit_obj max (fst e) Cont s else (Cont, s) in
    if pastMarker s then emit
    else if String.eqb (fst e) marker then (Cont, mark_past s)
    else if str_ltb (fst e) marker then (Cont, s)
    else emit.

  Fixpoint frun (l : list (string * bool)) (s : st) : ctl * st :=
    match l with
    | [] => (Cont, s)
    | e :: r => let '(c, s1) := kstep e s in match c with Cont => frun r s1 | other => (other, s1) end
    end.

  Lemma frun_app : forall l1 l2 s, frun (l1 ++ l2) s = let '(c, s1) := frun l1 s in match c with Cont => frun l2 s1 | other => (other, s1) end.
  Proof.
    induction l1 as [|e l1 IH]; intros l2 s; cbn [app frun]; [reflexivity|].
    destruct (kstep e s) as [c s1]. destruct c; try reflexivity. apply IH.
  Qed.

  (* the callback, for a node other than the root, is the key step *)
  Lemma cb_kstep : forall path name t s, path <> "." ->
    cb "" "" marker max [] path name t s = kstep ((if is_dir t then (path ++ "/")%string else path), isobj t) s.
  Proof.
    intros path name t s Hp. unfold cb, kstep. cbn [fst snd].
    destruct (String.eqb path ".") eqn:E; [apply String.eqb_eq in E; congruence|].
    cbn [existsb]. rewrite andb_false_r.
    destruct t as [b|b kids]; cbn [is_dir isobj String.eqb negb andb].
    - destruct (pastMarker s); [reflexivity|]. destruct (String.eqb path marker); [reflexivity|]. destruct (str_ltb path marker); reflexivity.
    - destruct (pastMarker s); [reflexivity|]. destruct (String.eqb (path ++ "/") marker); [reflexivity|]. destruct (str_ltb (path ++ "/") marker); reflexivity.
  Qed.

  Lemma kstep_ctl : forall e s, fst (kstep e s) = Cont \/ fst (kstep e s) = SkipAll.
  Proof.
    intros [p ob] s. unfold kstep, emit_obj. cbn [fst snd].
    destruct (pastMarker s); [|destruct (String.eqb p marker); [left; reflexivity|destruct (str_ltb p marker); [left; reflexivity|]]];
      (destruct ob; [destruct (pastMax s); [right|left]; reflexivity|left; reflexivity]).
  Qed.
  Lemma frun_ctl : forall l s, fst (frun l s) = Cont \/ fst (frun l s) = SkipAll.
  Proof.
    induction l as [|e l IH]; intros s; cbn [frun]; [left; reflexivity|].
    pose proof (kstep_ctl e s) as H. destruct (kstep e s) as [c s1]. cbn [fst] in H. destruct H as [H|H]; subst c; [apply IH|right; reflexivity].
  Qed.

  Lemma walk_node_frun : forall t path name s, names_ok t -> path <> "." ->
    walk_node "" "" marker max [] path name t s = frun (nodes_at path t) s.
  Proof.
    induction t as [b|b kids IH] using tree_ind'; intros path name s Hn Hp; cbn [walk_node nodes_at].
    - rewrite cb_kstep by assumption. cbn [is_dir isobj frun]. destruct (kstep (path, b) s) as [c s1]. destruct c; reflexivity.
    - rewrite cb_kstep by assumption. cbn [is_dir isobj].
      destruct (String.eqb path ".") eqn:E; [apply String.eqb_eq in E; congruence|]. cbn [app frun].
      pose proof (kstep_ctl ((path ++ "/")%string, b) s) as Hc. destruct (kstep ((path ++ "/")%string, b) s) as [c s1]. cbn [fst] in Hc.
      destruct Hc as [Hc|Hc]; subst c; [|reflexivity].
      cbn [names_ok] in Hn. clear s. revert s1 Hn. induction IH as [|[n k] r Hk Hr IHr]; intros s1 Hn; [reflexivity|].
      destruct Hn as [Hn1 [Hn2 [Hn3 Hn4]]]. cbn [snd] in Hk.
      rewrite (Hk (pjoin path n) n s1 Hn3 (pjoin_not_dot _ _ Hn1 Hn2)). rewrite frun_app.
      pose proof (frun_ctl (nodes_at (pjoin path n) k) s1) as Hc. destruct (frun (nodes_at (pjoin path n) k) s1) as [c1 s2]. cbn [fst] in Hc.
      destruct Hc as [Hc|Hc]; subst c1; [apply IHr; exact Hn4|reflexivity].
  Qed.

  Lemma walk_root_frun : forall b kids s, names_ok (D b kids) ->
    walk_node "" "" marker max [] "." "." (D b kids) s = frun (nodes_at "." (D b kids)) s.
  Proof.
    intros b kids s Hn. cbn [walk_node nodes_at String.eqb Ascii.eqb Bool.eqb]. cbn [app].
    assert (Hcb : cb "" "" marker max [] "." "." (D b kids) s = (Cont, s)) by reflexivity. rewrite Hcb. clear Hcb.
    cbn [names_ok] in Hn. revert s Hn. induction kids as [|[n k] r IHr]; intros s Hn; [reflexivity|].
    destruct Hn as [Hn1 [Hn2 [Hn3 Hn4]]].
    rewrite (walk_node_frun k (pjoin "." n) n s Hn3 (pjoin_not_dot _ _ Hn1 Hn2)). rewrite frun_app.
    pose proof (frun_ctl (nodes_at (pjoin "." n) k) s) as Hc. destruct (frun (nodes_at (pjoin "." n) k) s) as [c1 s2]. cbn [fst] in Hc.
    destruct Hc as [Hc|Hc]; subst c1; [apply IHr; exact Hn4|reflexivity].
  Qed.

  (* ---------- what the fold computes on a sorted node list *)
  Definition eligible (pm : bool) (e : string * bool) : bool := snd e && (pm || str_ltb marker (fst e)).
  Definition after (pm : bool) (l : list (string * bool)) : list string := map fst (filter (eligible pm) l).

  Definition Inv (s : st) : Prop :=
    cps s = [] /\ truncated s = false /\ List.length (objs s) <= max /\ (pastMax s = true <-> List.length (objs s) = max) /\
    (pastMax s = true -> newMarker s = last (objs s) "").

  Lemma sorted_head_lt : forall a l x, sorted_b (a :: l) = true -> In x l -> str_ltb a x = true.
  Proof.
    intros a l. revert a. induction l as [|b l IH]; intros a x Hs Hx; [destruct Hx|].
    cbn [sorted_b] in Hs. apply andb_true_iff in Hs. destruct Hs as [Hab Hs]. destruct Hx as [Hx|Hx]; [subst; exact Hab|].
    eapply str_ltb_trans; [exact Hab|]. apply IH; assumption.
  Qed.

  Lemma after_past : forall l, (forall e, In e l -> str_ltb marker (fst e) = true) -> after false l = after true l.
  Proof.
    induction l as [|e l IH]; intros H; [reflexivity|]. unfold after. cbn [filter].
    assert (He : eligible false e = eligible true e) by (unfold eligible; rewrite (H e (or_introl eq_refl)); reflexivity).
    rewrite He. assert (IH' : after false l = after true l) by (apply IH; intros e' He'; apply H; right; exact He').
    unfold after in IH'. destruct (eligible true e); cbn [map]; [f_equal|]; exact IH'.
  Qed.

  Lemma last_snoc : forall (l : list string) x d, last (l ++ [x]) d = x.
  Proof. intros l x d. apply last_last. Qed.

  Lemma after_cons : forall pm e l, after pm (e :: l) = if eligible pm e then fst e :: after pm l else after pm l.
  Proof. intros pm e l. unfold after. cbn [filter]. destruct (eligible pm e); reflexivity. Qed.

  Lemma frun_page : 0 < max -> forall l s, sorted_b (map fst l) = true -> Inv s ->
    let Es := after (pastMarker s) l in
    let room := max - List.length (objs s) in
    let s' := snd (frun l s) in
    objs s' = objs s ++ firstn room Es /\ cps s' = [] /\ truncated s' = Nat.ltb room (List.length Es) /\
    (truncated s' = true -> newMarker s' = last (objs s') "").
  Proof.
    intros Hmax. induction l as [|[p ob] l IH]; intros s Hs HI; cbv zeta.
    - destruct HI as [Hc [Ht [Hl [Hpx Hnm]]]]. cbn [frun snd after map filter List.length firstn]. rewrite firstn_nil, app_nil_r, Ht.
      split; [reflexivity|]. split; [exact Hc|]. split; [destruct (max - List.length (objs s)); reflexivity|]. intros H; discriminate.
    - assert (Hs' : sorted_b (map fst l) = true) by (cbn [map] in Hs; eapply sorted_tail; exact Hs).
      assert (Hlt : forall e, In e l -> str_ltb p (fst e) = true).
      { intros e He. cbn [map fst] in Hs. apply (sorted_head_lt p (map fst l)); [exact Hs|]. apply in_map. exact He. }
      (* the step that lists p *)
      assert (Hemit : forall pm, pastMarker s = pm -> ob = true -> eligible pm (p, ob) = true ->
                (forall s1, pastMarker s1 = pm -> Inv s1 -> let s' := snd (frun l s1) in
                   objs s' = objs s1 ++ firstn (max - List.length (objs s1)) (after pm l) /\ cps s' = [] /\
                   truncated s' = Nat.ltb (max - List.length (objs s1)) (List.length (after pm l)) /\ (truncated s' = true -> newMarker s' = last (objs s') "")) ->
                let s' := snd (let '(c, s1) := emit_obj max p Cont s in match c with Cont => frun l s1 | other => (other, s1) end) in
                objs s' = objs s ++ firstn (max - List.length (objs s)) (p :: after pm l) /\ cps s' = [] /\
                truncated s' = Nat.ltb (max - List.length (objs s)) (S (List.length (after pm l))) /\ (truncated s' = true -> newMarker s' = last (objs s') "")).
      { intros pm Hpm Hob Hel Hrest. destruct HI as [Hc [Ht [Hl [Hpx Hnm]]]]. unfold emit_obj. destruct (pastMax s) eqn:Epx.
        - cbn [snd objs cps truncated newMarker]. assert (Hfull : List.length (objs s) = max) by (apply Hpx; reflexivity).
          rewrite Hfull, Nat.sub_diag. cbn [firstn]. rewrite app_nil_r. split; [reflexivity|split; [exact Hc|split; [reflexivity|intros _; apply Hnm; reflexivity]]].
        - assert (Hlt' : List.length (objs s) < max). { destruct (Nat.eq_dec (List.length (objs s)) max) as [E|E]; [apply Hpx in E; congruence|lia]. }
          rewrite Hc. cbn [List.length]. rewrite Nat.add_0_r.
          set (s1 := {| objs := objs s ++ [p]; cps := []; pastMarker := pastMarker s; pastMax := Nat.eqb (List.length (objs s ++ [p])) max;
                        truncated := truncated s; newMarker := if Nat.eqb (List.length (objs s ++ [p])) max then p else newMarker s |}).
          assert (HI1 : Inv s1).
          { unfold Inv, s1. cbn [objs cps truncated pastMax newMarker]. rewrite app_length. cbn [List.length]. repeat split; try assumption; try lia.
            - intros H. apply Nat.eqb_eq in H. exact H.
            - intros H. apply Nat.eqb_eq. exact H.
            - intros H. rewrite H. rewrite last_snoc. reflexivity. }
          specialize (Hrest s1 Hpm HI1). cbv zeta in Hrest. cbn [snd]. destruct Hrest as [H1 [H2 [H3 H4]]].
          assert (Ho1 : objs s1 = objs s ++ [p]) by reflexivity. rewrite Ho1 in H1, H3. rewrite app_length in H1, H3. cbn [List.length] in H1, H3.
          replace (max - List.length (objs s)) with (S (max - (List.length (objs s) + 1))) by lia. cbn [firstn].
          split; [rewrite H1, <- app_assoc; reflexivity|]. split; [exact H2|]. split; [rewrite H3; reflexivity|exact H4]. }
      cbn [frun]. unfold kstep. cbn [fst snd]. rewrite after_cons. unfold eligible. cbn [fst snd]. destruct (pastMarker s) eqn:Epm.
      + (* already past the marker *)
        cbn [orb]. rewrite andb_true_r. destruct ob.
        * cbn [List.length]. apply (Hemit true eq_refl eq_refl); [reflexivity|]. intros s1 Hp1 HI1. specialize (IH s1 Hs' HI1). rewrite Hp1 in IH. exact IH.
        * specialize (IH s Hs' HI). rewrite Epm in IH. exact IH.
      + cbn [orb]. destruct (String.eqb p marker) eqn:Eeq.
        * (* the marker itself: everything after it is listed *)
          apply String.eqb_eq in Eeq. subst p. rewrite str_ltb_irrefl, andb_false_r. rewrite (after_past l Hlt).
          assert (HIm : Inv (mark_past s)) by exact HI.
          specialize (IH (mark_past s) Hs' HIm). exact IH.
        * destruct (str_ltb p marker) eqn:Elt.
          -- rewrite (str_ltb_asym _ _ Elt), andb_false_r. specialize (IH s Hs' HI). rewrite Epm in IH. exact IH.
          -- assert (Hgt : str_ltb marker p = true).
             { destruct (str_ltb_tricho p marker) as [H|[H|H]]; [congruence|subst; rewrite String.eqb_refl in Eeq; discriminate|exact H]. }
             rewrite Hgt, andb_true_r. destruct ob.
             ++ cbn [List.length]. apply (Hemit false eq_refl eq_refl); [unfold eligible; cbn [fst snd andb orb]; exact Hgt|].
                intros s1 Hp1 HI1. specialize (IH s1 Hs' HI1). rewrite Hp1 in IH. exact IH.
             ++ specialize (IH s Hs' HI). rewrite Epm in IH. exact IH.
  Qed.
End Page.

(* ---------- keys, nodes and the S3 rule *)
Lemma keys_nodes : forall t path, keys_at path t = map fst (filter snd (nodes_at path t)).
Proof.
  induction t as [b|b kids IH] using tree_ind'; intros path.
  - cbn [keys_at nodes_at filter snd]. destruct b; reflexivity.
  - cbn [keys_at nodes_at]. rewrite filter_app, map_app. f_equal.
    + destruct (String.eqb path "."); cbn [negb andb]; [rewrite andb_false_r; reflexivity|]. rewrite andb_true_r. cbn [filter snd]. destruct b; reflexivity.
    + induction IH as [|[n k] r Hk Hr IHr]; [reflexivity|]. cbn [snd] in Hk. rewrite filter_app, map_app, <- Hk, IHr. reflexivity.
Qed.

Lemma sorted_cons_all : forall a l, sorted_b l = true -> (forall x, In x l -> str_ltb a x = true) -> sorted_b (a :: l) = true.
Proof. intros a [|b r] Hs H; [reflexivity|]. cbn [sorted_b]. rewrite (H b (or_introl eq_refl)). exact Hs. Qed.

Lemma sorted_filter : forall (f : string -> bool) l, sorted_b l = true -> sorted_b (filter f l) = true.
Proof.
  intros f. induction l as [|a l IH]; intros Hs; [reflexivity|]. cbn [filter].
  assert (Hl : sorted_b l = true) by (eapply sorted_tail; exact Hs).
  destruct (f a); [|apply IH; exact Hl]. apply sorted_cons_all; [apply IH; exact Hl|].
  intros x Hx. apply filter_In in Hx. destruct Hx as [Hx _]. exact (sorted_head_lt a l x Hs Hx).
Qed.

Lemma sorted_keys_of_nodes : forall (l : list (string * bool)), sorted_b (map fst l) = true -> sorted_b (map fst (filter snd l)) = true.
Proof.
  induction l as [|[p ob] l IH]; intros Hs; [reflexivity|]. cbn [map fst] in Hs. cbn [filter snd].
  assert (Hl : sorted_b (map fst l) = true) by (eapply sorted_tail; exact Hs).
  destruct ob; [|apply IH; exact Hl]. cbn [map fst]. apply sorted_cons_all; [apply IH; exact Hl|].
  intros x Hx. apply in_map_iff in Hx. destruct Hx as [[q o] [Hq Hin]]. cbn [fst] in Hq. subst q. apply filter_In in Hin. destruct Hin as [Hin _].
  apply (sorted_head_lt p (map fst l)); [exact Hs|]. apply (in_map fst) in Hin. exact Hin.
Qed.

Lemma after_keys : forall marker pm (l : list (string * bool)),
  after marker pm l = filter (fun k => pm || str_ltb marker k) (map fst (filter snd l)).
Proof.
  intros marker pm. induction l as [|[p ob] l IH]; [reflexivity|]. rewrite after_cons. unfold eligible. cbn [fst snd filter].
  destruct ob; cbn [andb map fst filter]; [|exact IH]. destruct (pm || str_ltb marker p); [f_equal|]; exact IH.
Qed.

Lemma objs_of_firstn : forall n l, objs_of (firstn n (map EObj l)) = firstn n l.
Proof. intros n l. rewrite firstn_map. apply objs_of_map. Qed.
Lemma cps_of_firstn : forall n l, cps_of (firstn n (map EObj l)) = [].
Proof. intros n l. rewrite firstn_map. apply cps_of_map. Qed.
Lemma last_map_EObj : forall l, etext (last (map EObj l) (EObj "")) = last l "".
Proof. induction l as [|a l IH]; [reflexivity|]. cbn [map]. destruct l as [|b r]; [reflexivity|]. exact IH. Qed.
Lemma filter_map_EObj : forall (f : string -> bool) l, filter (fun e => f (etext e)) (map EObj l) = map EObj (filter f l).
Proof. intros f. induction l as [|a l IH]; [reflexivity|]. cbn [map filter etext]. destruct (f a); cbn [map]; [f_equal|]; exact IH. Qed.

Lemma s3_list_page : forall keys marker max, sorted_b keys = true ->
  s3_list keys "" "" marker max =
    let ks := filter (fun k => String.eqb marker "" || str_ltb marker k) keys in
    let more := Nat.ltb max (List.length ks) && negb (Nat.eqb max 0) in
    {| r_objs := firstn max ks; r_cps := []; r_trunc := more; r_next := if more then last (firstn max ks) "" else "" |}.
Proof.
  intros keys marker max Hs. unfold s3_list, entries_after.
  rewrite (filter_all (fun k => has_prefix k "")) by apply has_prefix_empty.
  assert (M : map (entry_of "" "") keys = map EObj keys) by (apply map_ext; intros; reflexivity).
  rewrite M, dedup_sorted_objs by exact Hs.
  rewrite (filter_map_EObj (fun k => String.eqb marker "" || str_ltb marker k)).
  cbv zeta. rewrite map_length, firstn_map, objs_of_map, cps_of_map, last_map_EObj. reflexivity.
Qed.

(* a page of the real walk = the page of the S3 rule, for every marker and every page size *)
Theorem paginated_refines : forall b kids marker max, names_ok (D b kids) ->
  sorted_b (map fst (nodes_at "." (D b kids))) = true ->
  walk (D b kids) "" "" marker max [] true = Some (s3_list (sort_strs (keys_at "." (D b kids))) "" "" marker max).
Proof.
  intros b kids marker max Hn Hs.
  assert (Hks : sorted_b (keys_at "." (D b kids)) = true) by (rewrite keys_nodes; apply sorted_keys_of_nodes; exact Hs).
  rewrite sort_sorted by exact Hks. rewrite s3_list_page by exact Hks. cbv zeta.
  unfold walk. destruct (Nat.eqb max 0) eqn:E0.
  - apply Nat.eqb_eq in E0. subst max. cbn [firstn]. rewrite andb_false_r. reflexivity.
  - apply Nat.eqb_neq in E0. cbn [str_last_index last_index_from String.length has_prefix String.eqb Ascii.eqb Bool.eqb].
    set (s0 := {| objs := []; cps := []; pastMarker := String.eqb marker ""; pastMax := false; truncated := false; newMarker := "" |}).
    rewrite (walk_root_frun marker max b kids s0 Hn).
    assert (HI : Inv max s0). { unfold Inv, s0. cbn [objs cps truncated pastMax newMarker List.length]. repeat split; try lia; try discriminate. }
    pose proof (frun_page marker max ltac:(lia) (nodes_at "." (D b kids)) s0 Hs HI) as Hp. cbv zeta in Hp.
    pose proof (frun_ctl marker max (nodes_at "." (D b kids)) s0) as Hc.
    destruct (frun marker max (nodes_at "." (D b kids)) s0) as [c s']. cbn [fst snd] in Hp, Hc.
    destruct Hp as [H1 [H2 [H3 H4]]]. unfold s0 in H1, H3. cbn [objs pastMarker List.length app] in H1, H3. rewrite Nat.sub_0_r in H1, H3.
    rewrite after_keys, <- keys_nodes in H1, H3.
    match goal with |- _ = Some ?R =>
      assert (Hres : {| r_objs := objs s'; r_cps := sort_strs (cps s'); r_trunc := truncated s'; r_next := if truncated s' then newMarker s' else "" |} = R) end.
    { cbn [negb]. rewrite andb_true_r.
      rewrite H2. cbn [sort_strs fold_right]. rewrite <- H1, <- H3. destruct (truncated s') eqn:Et; [rewrite (H4 eq_refl)|]; reflexivity. }
    destruct Hc as [Hc|Hc]; subst c; cbv beta iota; rewrite Hres; reflexivity.
Qed.

(* ---------- following the markers visits every key exactly once, in order *)
Definition gt (m : string) (k : string) : bool := String.eqb m "" || str_ltb m k.

Lemma filter_all_in {A} (f : A -> bool) l : (forall x, In x l -> f x = true) -> filter f l = l.
Proof. induction l as [|x l IH]; intros H; cbn [filter]; [reflexivity|]. rewrite (H x (or_introl eq_refl)). f_equal. apply IH. intros y Hy. apply H. right. exact Hy. Qed.
Lemma filter_none_in {A} (f : A -> bool) l : (forall x, In x l -> f x = false) -> filter f l = [].
Proof. induction l as [|x l IH]; intros H; cbn [filter]; [reflexivity|]. rewrite (H x (or_introl eq_refl)). apply IH. intros y Hy. apply H. right. exact Hy. Qed.

Lemma sorted_app_r : forall l1 l2, sorted_b (l1 ++ l2) = true -> sorted_b l2 = true.
Proof. induction l1 as [|a l1 IH]; intros l2 H; [exact H|]. apply IH. eapply sorted_tail. exact H. Qed.
Lemma sorted_app_lt : forall l1 l2 x y, sorted_b (l1 ++ l2) = true -> In x l1 -> In y l2 -> str_ltb x y = true.
Proof.
  induction l1 as [|a l1 IH]; intros l2 x y H Hx Hy; [destruct Hx|]. cbn [app] in H. destruct Hx as [Hx|Hx].
  - subst a. apply (sorted_head_lt x (l1 ++ l2)); [exact H|]. apply in_or_app. right. exact Hy.
  - apply (IH l2); [eapply sorted_tail; exact H|exact Hx|exact Hy].
Qed.

Lemma filter_gt_sorted_head : forall a l, sorted_b (a :: l) = true -> a <> "" -> filter (gt a) (a :: l) = l.
Proof.
  intros a l Hs Ha. cbn [filter]. unfold gt at 1. rewrite str_ltb_irrefl, orb_false_r.
  destruct (String.eqb a "") eqn:E; [apply String.eqb_eq in E; congruence|].
  apply filter_all_in. intros x Hx. unfold gt. rewrite (sorted_head_lt a l x Hs Hx). apply orb_true_r.
Qed.

Lemma filter_gt_split : forall X p Q, sorted_b (X ++ p :: Q) = true -> p <> "" -> filter (gt p) (X ++ p :: Q) = Q.
Proof.
  intros X p Q Hs Hp. rewrite filter_app. rewrite (filter_none_in (gt p) X).
  - cbn [app]. apply filter_gt_sorted_head; [eapply sorted_app_r; exact Hs|exact Hp].
  - intros x Hx. unfold gt. destruct (String.eqb p "") eqn:E; [apply String.eqb_eq in E; congruence|]. cbn [orb].
    apply str_ltb_asym. apply (sorted_app_lt X (p :: Q)); [exact Hs|exact Hx|left; reflexivity].
Qed.

(* the keys after a marker are a suffix of the sorted key list *)
Lemma filter_gt_suffix : forall m K, sorted_b K = true -> exists A, K = A ++ filter (gt m) K.
Proof.
  intros m. induction K as [|k K IH]; intros Hs; [exists []; reflexivity|]. cbn [filter]. destruct (gt m k) eqn:E.
  - exists []. cbn [app]. f_equal. symmetry. apply filter_all_in. intros x Hx. unfold gt in *.
    destruct (String.eqb m ""); [reflexivity|]. cbn [orb] in *. eapply str_ltb_trans; [exact E|exact (sorted_head_lt k K x Hs Hx)].
  - destruct (IH (sorted_tail _ _ Hs)) as [A HA]. exists (k :: A). cbn [app]. f_equal. exact HA.
Qed.

Fixpoint pages (K : list string) (m : string) (max fuel : nat) : list string :=
  match fuel with
  | O => []
  | S f => let r := s3_list K "" "" m max in r_objs r ++ (if r_trunc r then pages K (r_next r) max f else [])
  end.

Lemma firstn_last_split : forall (l : list string) n, 0 < n -> n < List.length l ->
  exists P', firstn n l = P' ++ [last (firstn n l) ""].
Proof.
  intros l n Hn Hl. destruct (firstn n l) as [|a r] eqn:E.
  - apply (f_equal (@List.length string)) in E. rewrite firstn_length in E. cbn [List.length] in E. lia.
  - exists (removelast (a :: r)). apply app_removelast_last. discriminate.
Qed.

Theorem pages_all : forall K max, sorted_b K = true -> (forall k, In k K -> k <> "") -> 0 < max ->
  forall fuel m, List.length (filter (gt m) K) < fuel -> pages K m max fuel = filter (gt m) K.
Proof.
  intros K max Hs Hne Hmax. induction fuel as [|f IH]; intros m Hf; [lia|]. cbn [pages]. rewrite s3_list_page by exact Hs. cbv zeta.
  change (fun k : string => String.eqb m "" || str_ltb m k) with (gt m). set (R := filter (gt m) K) in *.
  cbn [r_objs r_trunc r_next]. replace (negb (Nat.eqb max 0)) with true by (symmetry; apply negb_true_iff; apply Nat.eqb_neq; lia). rewrite andb_true_r.
  destruct (Nat.ltb max (List.length R)) eqn:El.
  - apply Nat.ltb_lt in El. destruct (firstn_last_split R max Hmax El) as [P' HP]. set (p := last (firstn max R) "") in *.
    destruct (filter_gt_suffix m K Hs) as [A HA]. fold R in HA.
    assert (HK : K = (A ++ P') ++ p :: skipn max R). { rewrite HA at 1. rewrite <- (firstn_skipn max R) at 1. rewrite HP, <- !app_assoc. reflexivity. }
    assert (Hp : p <> ""). { apply Hne. rewrite HK. apply in_or_app. right. left. reflexivity. }
    assert (Hnext : filter (gt p) K = skipn max R). { rewrite HK at 1. apply filter_gt_split; [rewrite <- HK; exact Hs|exact Hp]. }
    rewrite IH by (rewrite Hnext, skipn_length; lia). rewrite Hnext. apply firstn_skipn.
  - apply Nat.ltb_ge in El. rewrite app_nil_r. apply firstn_all2. exact El.
Qed.

(* the same walk of the real model: page after page from the empty marker, every key of the tree, once, in order *)
Fixpoint wpages (t : tree) (m : string) (max fuel : nat) : list string :=
  match fuel with
  | O => []
  | S f => match walk t "" "" m max [] true with
           | Some r => r_objs r ++ (if r_trunc r then wpages t (r_next r) max f else [])
           | None => []
           end
  end.

Lemma keys_nonempty : forall t path, names_ok t -> path <> "" -> forall k, In k (keys_at path t) -> k <> "".
Proof.
  induction t as [b|b kids IH] using tree_ind'; intros path Hn Hp k Hk.
  - cbn [keys_at] in Hk. destruct b; [destruct Hk as [Hk|[]]; subst; exact Hp|destruct Hk].
  - cbn [keys_at] in Hk. apply in_app_or in Hk. destruct Hk as [Hk|Hk].
    + destruct (b && negb (String.eqb path ".")); [|destruct Hk]. destruct Hk as [Hk|[]]. subst k. destruct path; [congruence|discriminate].
    + cbn [names_ok] in Hn. induction IH as [|[n c] r Hc Hr IHr]; [destruct Hk|]. destruct Hn as [Hn1 [Hn2 [Hn3 Hn4]]]. cbn [snd] in Hc.
      apply in_app_or in Hk. destruct Hk as [Hk|Hk]; [|apply IHr; assumption].
      apply (Hc (pjoin path n) Hn3); [|exact Hk]. unfold pjoin. destruct (String.eqb path "."); [exact Hn2|]. destruct path; [congruence|discriminate].
Qed.

Theorem walk_pages_all : forall b kids max fuel, names_ok (D b kids) ->
  sorted_b (map fst (nodes_at "." (D b kids))) = true -> 0 < max -> List.length (keys_at "." (D b kids)) < fuel ->
  wpages (D b kids) "" max fuel = keys_at "." (D b kids).
Proof.
  intros b kids max fuel Hn Hs Hmax Hf. set (K := keys_at "." (D b kids)) in *.
  assert (Hks : sorted_b K = true) by (unfold K; rewrite keys_nodes; apply sorted_keys_of_nodes; exact Hs).
  assert (Hwp : forall f m, wpages (D b kids) m max f = pages K m max f).
  { induction f as [|f IH]; intros m; cbn [wpages pages]; [reflexivity|]. rewrite (paginated_refines b kids m max Hn Hs). fold K. rewrite (sort_sorted K Hks).
    destruct (r_trunc (s3_list K "" "" m max)); [rewrite IH|]; reflexivity. }
  rewrite Hwp. rewrite (pages_all K max Hks); [apply filter_all_in; intros; reflexivity| |exact Hmax|].
  - intros k Hk. apply (keys_nonempty (D b kids) "." Hn); [discriminate|exact Hk].
  - rewrite filter_all_in by (intros; reflexivity). exact Hf.
Qed.
