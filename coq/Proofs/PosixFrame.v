(* C01 / C08, the frame of an upload in the tree model of the posix backend: an acknowledged PutObject of a (non directory) key
   changes what GetObject answers for that key only — every other file key of every bucket reads exactly as before. *)
From Coq Require Import String Ascii List Arith Bool ZArith Lia.
From VGW Require Import Base.GoStr Model.Walk Model.Paths Model.Posix Proofs.PosixProof.
Import ListNotations.
Open Scope string_scope.
Open Scope list_scope.

(* what a GET of a file key sees at a path: the file node there, if any *)
Definition getf (t : node) (p : list string) : option (nat * attrs) :=
  match lookp t p with L_node (NF blob a) => Some (blob, a) | _ => None end.

Lemma getf_dir_cons : forall a k s r, getf (ND a k) (s :: r) = match kfind k s with Some c => getf c r | None => None end.
Proof. intros. unfold getf. cbn [lookp]. destruct (kfind k s); reflexivity. Qed.
Lemma getf_file_cons : forall bl a s r, getf (NF bl a) (s :: r) = None.
Proof. reflexivity. Qed.

Lemma kfind_kput_other : forall k s x s', s' <> s -> kfind (kput k s x) s' = kfind k s'.
Proof.
  induction k as [|[m t] r IH]; intros s x s' Hne; cbn [kput kfind].
  - destruct (String.eqb s s') eqn:E; [apply String.eqb_eq in E; congruence|reflexivity].
  - destruct (String.eqb m s) eqn:E1.
    + apply String.eqb_eq in E1. subst m. cbn [kfind]. destruct (String.eqb s s') eqn:E; [apply String.eqb_eq in E; congruence|reflexivity].
    + destruct (str_ltb s m); cbn [kfind].
      * destruct (String.eqb s s') eqn:E; [apply String.eqb_eq in E; congruence|reflexivity].
      * destruct (String.eqb m s'); [reflexivity|apply IH; exact Hne].
Qed.

Lemma getf_empty_dir : forall p, getf (ND [] []) p = None.
Proof. intros [|s r]; reflexivity. Qed.

Lemma prefix_cases : forall (q p : list string), (exists r, p = q ++ r) \/ (forall r, p <> q ++ r).
Proof.
  induction q as [|s q IH]; intros p; [left; exists p; reflexivity|].
  destruct p as [|s' p]; [right; intros r; discriminate|].
  destruct (string_dec s' s) as [E|E].
  - subst s'. destruct (IH p) as [[r Hr]|Hn]; [left; exists r; cbn; rewrite Hr; reflexivity|right; intros r H; inversion H as [H1]; exact (Hn r H1)].
  - right. intros r H. inversion H. congruence.
Qed.

(* (a) writing a node at p does not change what is seen at a path that does not start with p *)
Lemma getf_setp_apart : forall p t x p', (forall r, p' <> p ++ r) -> getf (setp t p x) p' = getf t p'.
Proof.
  induction p as [|s r0 IH]; intros t x p' Hn; [exfalso; apply (Hn p'); reflexivity|].
  destruct t as [bl a|a k]; [reflexivity|]. cbn [setp].
  destruct p' as [|s' r']; [reflexivity|]. rewrite !getf_dir_cons.
  destruct (string_dec s' s) as [E|E].
  - subst s'. rewrite kfind_kput_same.
    assert (Hn' : forall r, r' <> r0 ++ r) by (intros r H; apply (Hn r); cbn; rewrite H; reflexivity).
    destruct (kfind k s) as [c|].
    + apply (IH c x r' Hn').
    + rewrite (IH (ND [] []) x r' Hn'). apply getf_empty_dir.
  - rewrite kfind_kput_other by exact E. reflexivity.
Qed.

(* (d) writing a node below which nothing is a file, at a path below which nothing was a file: still nothing *)
Lemma getf_setp_below : forall q t x r, (forall r2, getf x r2 = None) -> getf t (q ++ r) = None -> getf (setp t q x) (q ++ r) = None.
Proof.
  induction q as [|s q IH]; intros t x r Hx Ht; cbn [setp app]; [apply Hx|].
  destruct t as [bl a|a k]; [exact Ht|]. cbn [app] in Ht. rewrite getf_dir_cons in *. rewrite kfind_kput_same.
  destruct (kfind k s) as [c|].
  - apply (IH c x r Hx Ht).
  - apply (IH (ND [] []) x r Hx). apply getf_empty_dir.
Qed.

(* (e) below a file nothing is a file *)
Lemma getf_below_file : forall p t blob a r, r <> [] -> getf (setp t p (NF blob a)) (p ++ r) = None.
Proof.
  induction p as [|s p IH]; intros t blob a r Hr; cbn [setp app].
  - destruct r; [congruence|reflexivity].
  - destruct t as [bl a0|a0 k]; [reflexivity|]. rewrite getf_dir_cons, kfind_kput_same.
    destruct (kfind k s) as [c|]; apply IH; exact Hr.
Qed.

(* (b) a file below p means p is a directory *)
Lemma getf_ext_dir : forall p t r v, getf t (p ++ r) = Some v -> r <> [] -> exists a k, lookp t p = L_node (ND a k).
Proof.
  induction p as [|s p IH]; intros t r v H Hr; cbn [app] in H.
  - destruct r as [|s r]; [congruence|]. destruct t as [bl a|a k]; [discriminate|]. exists a, k. reflexivity.
  - destruct t as [bl a|a k]; [discriminate|]. rewrite getf_dir_cons in H. cbn [lookp].
    destruct (kfind k s) as [c|]; [|discriminate]. apply (IH c r v H Hr).
Qed.

Lemma lookp_none_ext : forall p t r, (lookp t p = L_noent \/ lookp t p = L_notdir) -> getf t (p ++ r) = None.
Proof.
  induction p as [|s p IH]; intros t r H; cbn [app].
  - cbn in H. destruct H; discriminate.
  - destruct t as [bl a|a k]; [reflexivity|]. rewrite getf_dir_cons. cbn [lookp] in H. destruct (kfind k s) as [c|]; [apply (IH c r H)|reflexivity].
Qed.

(* (c) MkdirAll changes no file *)
Lemma getf_mkdir_all : forall fuel t q t1 p', mkdir_all fuel t q = Some t1 -> getf t1 p' = getf t p'.
Proof.
  induction fuel as [|f IH]; intros t q t1 p' H; [discriminate|]. cbn [mkdir_all] in H.
  destruct (lookp t q) as [[bl a|a k]| |] eqn:L; [discriminate|inversion H; reflexivity| |].
  - destruct q as [|s r]; [cbn in L; discriminate|].
    destruct (mkdir_all f t (removelast (s :: r))) as [t'|] eqn:M; [|discriminate].
    assert (Et : t1 = setp t' (s :: r) (ND [] [])) by congruence. rewrite Et. clear H Et.
    destruct (prefix_cases (s :: r) p') as [[r2 Hr2]|Hn].
    + subst p'.
      assert (E0 : getf t ((s :: r) ++ r2) = None) by (apply lookp_none_ext; left; exact L).
      assert (E1 : getf (setp t' (s :: r) (ND [] [])) ((s :: r) ++ r2) = None).
      { apply getf_setp_below; [apply getf_empty_dir|]. rewrite (IH _ _ _ _ M). exact E0. }
      rewrite E1, E0. reflexivity.
    + rewrite getf_setp_apart by exact Hn. apply (IH _ _ _ _ M).
  - destruct q as [|s r]; [cbn in L; discriminate|].
    destruct (mkdir_all f t (removelast (s :: r))) as [t'|] eqn:M; [|discriminate].
    assert (Et : t1 = setp t' (s :: r) (ND [] [])) by congruence. rewrite Et. clear H Et.
    destruct (prefix_cases (s :: r) p') as [[r2 Hr2]|Hn].
    + subst p'.
      assert (E0 : getf t ((s :: r) ++ r2) = None) by (apply lookp_none_ext; right; exact L).
      assert (E1 : getf (setp t' (s :: r) (ND [] [])) ((s :: r) ++ r2) = None).
      { apply getf_setp_below; [apply getf_empty_dir|]. rewrite (IH _ _ _ _ M). exact E0. }
      rewrite E1, E0. reflexivity.
    + rewrite getf_setp_apart by exact Hn. apply (IH _ _ _ _ M).
Qed.

(* ---------- buckets stay what they are *)
Lemma top_kind_setp : forall t s r x s', r <> [] -> (exists a k, lookp t [s] = L_node (ND a k)) ->
  bucket_ok (setp t (s :: r) x) s' = bucket_ok t s'.
Proof.
  intros t s r x s' Hr [a [k Hl]]. destruct t as [bl a0|a0 k0]; [cbn in Hl; discriminate|].
  cbn [lookp] in Hl. destruct (kfind k0 s) as [c|] eqn:F; [|discriminate]. cbn [lookp] in Hl. inversion Hl; subst c.
  unfold bucket_ok. cbn [setp lookp]. rewrite F.
  destruct (string_dec s' s) as [E|E].
  - subst s'. rewrite kfind_kput_same, F. cbn [lookp]. destruct r as [|s2 r2]; [congruence|]. reflexivity.
  - rewrite kfind_kput_other by exact E. reflexivity.
Qed.

Lemma bucket_ok_mkdir_all : forall fuel t b r t1, mkdir_all fuel t (b :: r) = Some t1 -> bucket_ok t b = true ->
  forall b', bucket_ok t1 b' = bucket_ok t b'.
Proof.
  induction fuel as [|f IH]; intros t b r t1 H Hb b'; [discriminate|]. cbn [mkdir_all] in H.
  destruct (lookp t (b :: r)) as [[bl a|a k]| |] eqn:L; [discriminate|inversion H; reflexivity| |].
  all: destruct r as [|s2 r2]; [unfold bucket_ok in Hb; rewrite L in Hb; discriminate|].
  all: destruct (mkdir_all f t (removelast (b :: s2 :: r2))) as [t'|] eqn:M; [|discriminate].
  all: assert (Et : t1 = setp t' (b :: s2 :: r2) (ND [] [])) by congruence; rewrite Et; clear H Et.
  all: assert (R : removelast (b :: s2 :: r2) = b :: removelast (s2 :: r2)) by reflexivity; rewrite R in M.
  all: pose proof (IH t b (removelast (s2 :: r2)) t' M Hb) as Hk.
  all: rewrite top_kind_setp; [apply Hk|discriminate|].
  all: destruct (bucket_ok_dir t' b) as [a [k E]]; [rewrite Hk; exact Hb|exists a, k; exact E].
Qed.

(* ---------- what GetObject answers for a file key is a function of getf *)
Definition get_answer (v : option (nat * attrs)) : obs :=
  match v with
  | Some (blob, a) => O_get (Some blob) (match aget a "etag" with Some e => e | None => "" end)
                            (match aget a "content-type" with Some c => c | None => "binary/octet-stream" end) (user_meta a)
  | None => O_err NoSuchKey
  end.

Lemma get_file_key : forall root b key, ends_slash key = false ->
  snd (step root (GetObject b key)) =
    if negb (valid_object_name key) then O_err InvalidURI else if negb (bucket_ok root b) then O_err NoSuchBucket else get_answer (getf root (b :: segs key)).
Proof.
  intros root b key Hs. cbn [step]. destruct (valid_object_name key); cbn [negb]; [|reflexivity].
  destruct (bucket_ok root b); cbn [negb]; [|reflexivity]. unfold getf.
  destruct (lookp root (b :: segs key)) as [[bl a|a k]| |]; rewrite ?Hs; reflexivity.
Qed.

(* ---------- the frame theorem *)
Theorem put_frame : forall root b key blob len ctype meta root' b' key',
  ends_slash key = false -> step root (PutObject b key blob len ctype meta) = (root', O_ok) ->
  ends_slash key' = false -> b' :: segs key' <> b :: segs key ->
  snd (step root' (GetObject b' key')) = snd (step root (GetObject b' key')).
Proof.
  intros root b key blob len ctype meta root' b' key' Hs H Hs' Hne.
  rewrite !get_file_key by exact Hs'. cbn [step] in H.
  destruct (valid_object_name key) eqn:V; cbn [negb] in H; [|inversion H].
  destruct (bucket_ok root b) eqn:B; cbn [negb] in H; [|inversion H]. rewrite Hs in H.
  set (p := b :: segs key) in *. set (p' := b' :: segs key') in *.
  destruct (lookp root p) as [[bl0 a0|a0 k0]| |] eqn:L; try (inversion H; fail).
  all: set (r0 := match lookp root [b; ".sgwtmp"] with L_noent => setp root [b; ".sgwtmp"] (ND [] []) | _ => root end) in *.
  all: match type of H with context [mkdir_all ?f ?t ?q] => destruct (mkdir_all f t q) as [r1|] eqn:M end; [|inversion H].
  all: match type of H with (setp ?rr ?pp ?x, O_ok) = _ => assert (Er : root' = setp rr pp x) by congruence end; clear H; rewrite Er; clear Er.
  all: assert (Hseg : segs key <> []) by (intros E; unfold p in L; rewrite E in L; destruct (bucket_ok_dir _ _ B) as [ab [kb Lb]]; rewrite Lb in L; discriminate).
  all: destruct (segs key) as [|s1 rs] eqn:Sk; [congruence|]; clear Hseg.
  (* the file view and the buckets after the preparatory steps *)
  all: assert (G0 : getf r0 p' = getf root p' /\ (forall bb, bucket_ok r0 bb = bucket_ok root bb)).
  1,3: (unfold r0; destruct (lookp root [b; ".sgwtmp"]) as [n| |] eqn:Lt; [split; reflexivity| |split; reflexivity]; split;
        [destruct (prefix_cases [b; ".sgwtmp"] p') as [[r2 Hr2]|Hn];
           [rewrite Hr2; rewrite getf_setp_below; [symmetry; apply lookp_none_ext; left; exact Lt|apply getf_empty_dir|apply lookp_none_ext; left; exact Lt]
           |apply getf_setp_apart; exact Hn]
        |intros bb; apply top_kind_setp; [discriminate|apply bucket_ok_dir; exact B]]).
  all: destruct G0 as [G0 B0].
  all: assert (G1 : getf r1 p' = getf root p') by (rewrite (getf_mkdir_all _ _ _ _ p' M); exact G0).
  all: assert (R : removelast p = b :: removelast (s1 :: rs)) by (unfold p; reflexivity).
  all: assert (B1 : forall bb, bucket_ok r1 bb = bucket_ok root bb)
         by (intros bb; rewrite R in M; rewrite (bucket_ok_mkdir_all _ _ _ _ _ M); [apply B0|rewrite B0; exact B]).
  all: assert (B2 : bucket_ok (setp r1 p (NF blob (("etag", etag_of blob) :: (if String.eqb ctype "" then [] else [("content-type", ctype)]) ++ meta_attrs meta))) b' = bucket_ok root b')
         by (unfold p; rewrite top_kind_setp; [apply B1|discriminate|apply bucket_ok_dir; rewrite B1; exact B]).
  all: rewrite B2; destruct (valid_object_name key'); cbn [negb]; [|reflexivity]; destruct (bucket_ok root b'); cbn [negb]; [|reflexivity]; f_equal.
  all: destruct (prefix_cases p p') as [[r2 Hr2]|Hn];
       [|rewrite getf_setp_apart by exact Hn; exact G1].
  all: destruct r2 as [|s2 r2]; [rewrite app_nil_r in Hr2; congruence|].
  all: rewrite Hr2, getf_below_file by discriminate.
  all: destruct (getf root (p ++ s2 :: r2)) as [v|] eqn:Gv; [|reflexivity].
  all: assert (Hnn : s2 :: r2 <> []) by discriminate.
  all: destruct (getf_ext_dir p root (s2 :: r2) v Gv Hnn) as [a1 [k1 L1]]; rewrite L1 in L; discriminate.
Qed.

(* ---------- the other operations leave every file as it was, or remove exactly one *)
Lemma kfind_kdel_other : forall k s s', s' <> s -> kfind (kdel k s) s' = kfind k s'.
Proof.
  induction k as [|[m t] r IH]; intros s s' Hne; cbn [kdel kfind]; [reflexivity|].
  destruct (String.eqb m s) eqn:E.
  - apply String.eqb_eq in E. subst m. destruct (String.eqb s s') eqn:E2; [apply String.eqb_eq in E2; congruence|reflexivity].
  - cbn [kfind]. destruct (String.eqb m s'); [reflexivity|apply IH; exact Hne].
Qed.

Lemma kfind_kdel_same : forall k s, (forall m t, In (m, t) k -> True) -> kfind (kdel k s) s = kfind (kdel k s) s.
Proof. reflexivity. Qed.

Lemma delp_single : forall a k s, delp (ND a k) [s] = ND a (kdel k s).
Proof. reflexivity. Qed.
Lemma delp_deeper : forall a k s s2 r, delp (ND a k) (s :: s2 :: r) = match kfind k s with Some c => ND a (kput k s (delp c (s2 :: r))) | None => ND a k end.
Proof. reflexivity. Qed.
Lemma delp_file : forall bl a p, delp (NF bl a) p = NF bl a.
Proof. intros bl a [|s [|s2 r]]; reflexivity. Qed.

Lemma getf_delp_apart : forall p t p', (forall r, p' <> p ++ r) -> getf (delp t p) p' = getf t p'.
Proof.
  induction p as [|s r0 IH]; intros t p' Hn; [exfalso; apply (Hn p'); reflexivity|].
  destruct t as [bl a|a k]; [rewrite delp_file; reflexivity|].
  destruct r0 as [|s2 r2].
  - rewrite delp_single. destruct p' as [|s' r']; [reflexivity|]. rewrite !getf_dir_cons.
    destruct (string_dec s' s) as [E|E]; [subst s'; exfalso; apply (Hn r'); reflexivity|]. rewrite kfind_kdel_other by exact E. reflexivity.
  - rewrite delp_deeper. destruct (kfind k s) as [c|] eqn:F; [|reflexivity].
    destruct p' as [|s' r']; [reflexivity|]. rewrite !getf_dir_cons.
    destruct (string_dec s' s) as [E|E].
    + subst s'. rewrite kfind_kput_same, F. apply IH. intros r H. apply (Hn r). cbn. rewrite H. reflexivity.
    + rewrite kfind_kput_other by exact E. reflexivity.
Qed.

Lemma getf_below_empty : forall a r, getf (ND a []) r = None.
Proof. intros a [|s r]; reflexivity. Qed.

(* the kids lists of the model hold one entry per name (kput replaces): removing the name removes the entry *)
Fixpoint names_once (t : node) : Prop :=
  match t with
  | NF _ _ => True
  | ND _ k => (fix go (k : list (string * node)) : Prop :=
                 match k with [] => True | (m, c) :: r => kfind r m = None /\ names_once c /\ go r end) k
  end.

Lemma kfind_kdel_gone : forall k s, (fix go (k : list (string * node)) : Prop :=
     match k with [] => True | (m, c) :: r => kfind r m = None /\ names_once c /\ go r end) k -> kfind (kdel k s) s = None.
Proof.
  induction k as [|[m t] r IH]; intros s H; [reflexivity|]. destruct H as [H1 [H2 H3]]. cbn [kdel].
  destruct (String.eqb m s) eqn:E.
  - apply String.eqb_eq in E. subst m. exact H1.
  - cbn [kfind]. rewrite E. apply IH. exact H3.
Qed.

(* rewriting the attributes of a directory leaves every file as it was *)
Lemma getf_setp_dir_attrs : forall p t a k a' p', lookp t p = L_node (ND a k) -> getf (setp t p (ND a' k)) p' = getf t p'.
Proof.
  induction p as [|s r0 IH]; intros t a k a' p' L.
  - cbn in L. inversion L; subst t. cbn [setp]. destruct p' as [|s' r']; [reflexivity|]. rewrite !getf_dir_cons. reflexivity.
  - destruct t as [bl a0|a0 k0]; [cbn in L; discriminate|]. cbn [lookp] in L. destruct (kfind k0 s) as [c|] eqn:F; [|discriminate].
    cbn [setp]. rewrite F. destruct p' as [|s' r']; [reflexivity|]. rewrite !getf_dir_cons.
    destruct (string_dec s' s) as [E|E].
    + subst s'. rewrite kfind_kput_same, F. apply (IH c a k a' r' L).
    + rewrite kfind_kput_other by exact E. reflexivity.
Qed.

Lemma getf_setp_newdir : forall p t a p', (lookp t p = L_noent \/ lookp t p = L_notdir) -> getf (setp t p (ND a [])) p' = getf t p'.
Proof.
  intros p t a p' L. destruct (prefix_cases p p') as [[r Hr]|Hn].
  - subst p'. rewrite getf_setp_below; [symmetry; apply lookp_none_ext; exact L|apply getf_below_empty|apply lookp_none_ext; exact L].
  - apply getf_setp_apart. exact Hn.
Qed.

(* ---------- every operation but DeleteObject, as a step on the abstract map from file keys to what is stored *)
Definition amap := list string -> option (nat * attrs).
Fixpoint path_eqb (a b : list string) : bool :=
  match a, b with [], [] => true | x :: a', y :: b' => String.eqb x y && path_eqb a' b' | _, _ => false end.
Lemma path_eqb_eq : forall a b, path_eqb a b = true <-> a = b.
Proof.
  induction a as [|x a IH]; intros [|y b]; cbn; split; intros H; try reflexivity; try discriminate.
  - apply andb_true_iff in H. destruct H as [H1 H2]. apply String.eqb_eq in H1. apply IH in H2. subst. reflexivity.
  - inversion H; subst. rewrite String.eqb_refl. apply IH. reflexivity.
Qed.
Definition upd (m : amap) (p : list string) (v : option (nat * attrs)) : amap := fun q => if path_eqb q p then v else m q.
Definition put_attrs (blob : nat) (ctype : string) (meta : attrs) : attrs :=
  ("etag", etag_of blob) :: (if String.eqb ctype "" then [] else [("content-type", ctype)]) ++ meta_attrs meta.

Definition astep (m : amap) (o : op) (ob : obs) : amap :=
  match o, ob with
  | PutObject b key blob len ctype meta, O_ok => if ends_slash key then m else upd m (b :: segs key) (Some (blob, put_attrs blob ctype meta))
  | _, _ => m
  end.

Definition is_delete (o : op) : bool := match o with DeleteObject _ _ => true | _ => false end.

Lemma abs_step : forall root m o, is_delete o = false -> (forall q, m q = getf root q) ->
  forall q, astep m o (snd (step root o)) q = getf (fst (step root o)) q.
Proof.
  intros root m o Hd Hm q. destruct o as [b|b key blob len ctype meta|b key|b key|b pre dl af mx]; try discriminate.
  - (* CreateBucket *)
    cbn [step astep]. destruct (lookp root [b]) as [n| |] eqn:L; cbn [fst snd]; try apply Hm.
    rewrite getf_setp_newdir by (left; exact L). apply Hm.
  - (* PutObject *)
    destruct (step root (PutObject b key blob len ctype meta)) as [root' ob] eqn:S. cbn [fst snd].
    destruct ob; try (cbn [astep]; cbn [step] in S;
      repeat match type of S with context [if ?c then _ else _] => destruct c end;
      repeat match type of S with context [match ?x with _ => _ end] => destruct x end; inversion S; subst; apply Hm; fail).
    cbn [astep]. destruct (ends_slash key) eqn:Es.
    + (* a directory object: files untouched *)
      cbn [step] in S. destruct (valid_object_name key); cbn [negb] in S; [|inversion S].
      destruct (bucket_ok root b); cbn [negb] in S; [|inversion S]. rewrite Es in S.
      destruct (negb (Nat.eqb len 0)); [inversion S|].
      match type of S with context [mkdir_all ?f ?t ?p] => destruct (mkdir_all f t p) as [r1|] eqn:M end; [|inversion S].
      destruct (lookp r1 (b :: segs key)) as [[bl a|a k]| |] eqn:L; try (inversion S; fail).
      match type of S with (setp r1 ?p (ND ?a' k), O_ok) = _ => assert (Er : root' = setp r1 p (ND a' k)) by congruence end. rewrite Er.
      rewrite (getf_setp_dir_attrs _ _ a k _ q L), (getf_mkdir_all _ _ _ _ q M). apply Hm.
    + (* a file object: its own key reads the upload, every other key as before *)
      unfold upd. destruct (path_eqb q (b :: segs key)) eqn:Eq.
      * apply path_eqb_eq in Eq. subst q. symmetry.
        cbn [step] in S. destruct (valid_object_name key) eqn:V; cbn [negb] in S; [|inversion S].
        destruct (bucket_ok root b) eqn:B; cbn [negb] in S; [|inversion S]. rewrite Es in S.
        destruct (lookp root (b :: segs key)) as [[bl0 a0|a0 k0]| |] eqn:L; try (inversion S; fail).
        all: match type of S with context [mkdir_all ?f ?t ?p] => destruct (mkdir_all f t p) as [r1|] eqn:M end; [|inversion S].
        all: match type of S with (setp ?rr ?pp ?x, O_ok) = _ => assert (Er : root' = setp rr pp x) by congruence end; rewrite Er.
        all: unfold getf; rewrite lookp_setp; [reflexivity|discriminate|eapply mkdir_all_dir; exact M].
      * assert (Hq : q <> b :: segs key) by (intros E; apply path_eqb_eq in E; congruence).
        (* the frame theorem is stated on GetObject answers; here the same argument on getf *)
        cbn [step] in S. destruct (valid_object_name key) eqn:V; cbn [negb] in S; [|inversion S].
        destruct (bucket_ok root b) eqn:B; cbn [negb] in S; [|inversion S]. rewrite Es in S.
        set (p := b :: segs key) in *.
        destruct (lookp root p) as [[bl0 a0|a0 k0]| |] eqn:L; try (inversion S; fail).
        all: set (r0 := match lookp root [b; ".sgwtmp"] with L_noent => setp root [b; ".sgwtmp"] (ND [] []) | _ => root end) in *.
        all: match type of S with context [mkdir_all ?f ?t ?pp] => destruct (mkdir_all f t pp) as [r1|] eqn:M end; [|inversion S].
        all: match type of S with (setp ?rr ?pp ?x, O_ok) = _ => assert (Er : root' = setp rr pp x) by congruence end; clear S; rewrite Er; clear Er.
        all: assert (G0 : getf r0 q = getf root q)
               by (unfold r0; destruct (lookp root [b; ".sgwtmp"]) as [n| |] eqn:Lt; [reflexivity|apply getf_setp_newdir; left; exact Lt|reflexivity]).
        all: assert (G1 : getf r1 q = getf root q) by (rewrite (getf_mkdir_all _ _ _ _ q M); exact G0).
        all: rewrite Hm.
        all: destruct (prefix_cases p q) as [[r2 Hr2]|Hn]; [|rewrite getf_setp_apart by exact Hn; symmetry; exact G1].
        all: destruct r2 as [|s2 r2]; [rewrite app_nil_r in Hr2; congruence|].
        all: rewrite Hr2, getf_below_file by discriminate.
        all: destruct (getf root (p ++ s2 :: r2)) as [v|] eqn:Gv; [|reflexivity].
        all: assert (Hnn : s2 :: r2 <> []) by discriminate.
        all: destruct (getf_ext_dir p root (s2 :: r2) v Gv Hnn) as [a1 [k1 L1]]; rewrite L1 in L; discriminate.
  - (* GetObject *)
    cbn [astep]. rewrite (surjective_pairing (step root (GetObject b key))).
    assert (E : fst (step root (GetObject b key)) = root).
    { cbn [step]. destruct (valid_object_name key); cbn [negb fst]; [|reflexivity]. destruct (bucket_ok root b); cbn [negb fst]; [|reflexivity].
      destruct (lookp root (b :: segs key)) as [[bl a|a k]| |]; try reflexivity; destruct (ends_slash key); reflexivity. }
    cbn [fst snd]. rewrite E. destruct (snd (step root (GetObject b key))); apply Hm.
  - (* ListV2 *)
    cbn [astep step]. destruct (lookp root [b]) as [[bl a|a k]| |]; cbn [fst snd]; try apply Hm.
    destruct (walk _ _ _ _ _ _ _); cbn [fst snd]; apply Hm.
Qed.

(* ---------- histories *)
Fixpoint run_abs (root : node) (m : amap) (ops : list op) : node * amap :=
  match ops with
  | [] => (root, m)
  | o :: r => run_abs (fst (step root o)) (astep m o (snd (step root o))) r
  end.

Theorem history_refines_map : forall ops root m, forallb (fun o => negb (is_delete o)) ops = true ->
  (forall q, m q = getf root q) ->
  forall q, snd (run_abs root m ops) q = getf (fst (run_abs root m ops)) q.
Proof.
  induction ops as [|o r IH]; intros root m Hnd Hm q; [apply Hm|].
  cbn [forallb] in Hnd. apply andb_true_iff in Hnd. destruct Hnd as [Ho Hr]. apply negb_true_iff in Ho.
  cbn [run_abs]. apply IH; [exact Hr|]. apply abs_step; assumption.
Qed.

(* what a GetObject of a file key answers after any such history: the last acknowledged upload of that key, else what was there *)
Theorem read_after_history : forall ops root m b key, forallb (fun o => negb (is_delete o)) ops = true ->
  (forall q, m q = getf root q) -> ends_slash key = false ->
  let root' := fst (run_abs root m ops) in
  snd (step root' (GetObject b key)) =
    if negb (valid_object_name key) then O_err InvalidURI else if negb (bucket_ok root' b) then O_err NoSuchBucket
    else get_answer (snd (run_abs root m ops) (b :: segs key)).
Proof.
  intros ops root m b key Hnd Hm Hs. cbv zeta. rewrite get_file_key by exact Hs. rewrite (history_refines_map ops root m Hnd Hm). reflexivity.
Qed.
