From Coq Require Import String Ascii List Arith Bool Lia.
From VGW Require Import Base.GoStr Model.Bucket.
Import ListNotations.
Open Scope string_scope.

(* ---------- names *)
Lemma all_chars_spec f s : all_chars f s = true <-> forall c, In c (list_ascii_of_string s) -> f c = true.
Proof.
  induction s as [|a r IH]; cbn.
  - split; [intros _ c []|reflexivity].
  - rewrite andb_true_iff, IH. split.
    + intros [H1 H2] c [->|Hc]; auto.
    + intros H. split; [apply H; left; reflexivity|intros c Hc; apply H; right; exact Hc].
Qed.

Definition name_rules (s : string) : Prop :=
  3 <= String.length s <= 63 /\
  (forall c, In c (list_ascii_of_string s) -> is_name_char c = true) /\
  (exists c r, s = String c r /\ is_lower_alnum c = true) /\
  (exists l, last_char s = Some l /\ is_lower_alnum l = true) /\
  str_contains s ".." = false /\ ip_shaped s = false.

Theorem valid_bucket_name_spec s : valid_bucket_name s = true <-> name_rules s.
Proof.
  unfold valid_bucket_name, name_rules. split.
  - intros H. repeat rewrite andb_true_iff in H. destruct H as [[[[L1 L2] M] D] I].
    apply Nat.leb_le in L1. apply Nat.leb_le in L2.
    destruct s as [|c r]; [discriminate|]. repeat rewrite andb_true_iff in M. destruct M as [[F A] La].
    split; [lia|]. split; [apply all_chars_spec; exact A|]. split; [exists c, r; auto|].
    split; [destruct (last_char (String c r)) as [l|]; [exists l; auto|discriminate]|].
    split; [apply negb_true_iff; exact D|apply negb_true_iff; exact I].
  - intros [[L1 L2] [A [[c [r [E F]]] [[l [La Ll]] [D I]]]]]. subst s.
    repeat rewrite andb_true_iff. repeat split.
    + apply Nat.leb_le; exact L1.
    + apply Nat.leb_le; exact L2.
    + exact F.
    + apply all_chars_spec; exact A.
    + rewrite La; exact Ll.
    + rewrite D; reflexivity.
    + rewrite I; reflexivity.
Qed.

(* ---------- the bucket table *)
Lemma bfind_bset_same s n b : bfind (bset s n b) n = Some b.
Proof. induction s as [|[m x] r IH]; cbn; [rewrite String.eqb_refl; reflexivity|]. destruct (String.eqb m n) eqn:E; cbn; [rewrite String.eqb_refl; reflexivity|rewrite E; exact IH]. Qed.
Lemma bfind_bset_other s n n' b : n' <> n -> bfind (bset s n b) n' = bfind s n'.
Proof.
  intros H. induction s as [|[m x] r IH]; cbn.
  - destruct (String.eqb n n') eqn:E; [apply String.eqb_eq in E; congruence|reflexivity].
  - destruct (String.eqb m n) eqn:E; cbn.
    + apply String.eqb_eq in E. subst m. destruct (String.eqb n n') eqn:E2; [apply String.eqb_eq in E2; congruence|reflexivity].
    + destruct (String.eqb m n'); [reflexivity|exact IH].
Qed.
Lemma bfind_bdel_other s n n' : n' <> n -> bfind (bdel s n) n' = bfind s n'.
Proof.
  intros H. induction s as [|[m x] r IH]; cbn; [reflexivity|].
  destruct (String.eqb m n) eqn:E; cbn.
  - apply String.eqb_eq in E. subst m. destruct (String.eqb n n') eqn:E2; [apply String.eqb_eq in E2; congruence|reflexivity].
  - destruct (String.eqb m n'); [reflexivity|exact IH].
Qed.
Definition names_unique (s : st) : Prop := NoDup (map fst s).
Lemma bset_names s n b : names_unique s -> names_unique (bset s n b) /\ forall x, In x (map fst (bset s n b)) <-> x = n \/ In x (map fst s).
Proof.
  unfold names_unique. induction s as [|[m x] r IH]; cbn; intros N.
  - split; [constructor; [tauto|constructor]|]. intros y. intuition congruence.
  - inversion N; subst. destruct (String.eqb m n) eqn:E; cbn.
    + apply String.eqb_eq in E. subst m. split; [constructor; assumption|]. intros y. intuition congruence.
    + destruct (IH H2) as [N' M]. split.
      * constructor; [|exact N']. intros HI. apply M in HI. destruct HI as [->|HI]; [rewrite String.eqb_refl in E; discriminate|tauto].
      * intros y. rewrite M. tauto.
Qed.
Lemma bfind_bdel_same s n : names_unique s -> bfind (bdel s n) n = None.
Proof.
  unfold names_unique. induction s as [|[m x] r IH]; cbn; intros N; [reflexivity|]. inversion N; subst.
  destruct (String.eqb m n) eqn:E; cbn.
  - apply String.eqb_eq in E. subst m. clear -H1. induction r as [|[m' x'] r' IH']; cbn; [reflexivity|].
    destruct (String.eqb m' n) eqn:E2; [apply String.eqb_eq in E2; subst; exfalso; apply H1; left; reflexivity|].
    apply IH'. intros HI. apply H1. right. exact HI.
  - rewrite E. apply IH. exact H2.
Qed.
Lemma bdel_names s n : names_unique s -> names_unique (bdel s n).
Proof.
  unfold names_unique. induction s as [|[m x] r IH]; cbn; intros N; [constructor|]. inversion N; subst.
  destruct (String.eqb m n); [exact H2|]. cbn. constructor; [|apply IH; exact H2].
  intros HI. apply H1. clear -HI. induction r as [|[m' x'] r' IH']; cbn in *; [tauto|].
  destruct (String.eqb m' n); [right; exact HI|]. cbn in HI. destruct HI as [->|HI]; [left; reflexivity|right; apply IH'; exact HI].
Qed.

Lemma names_unique_step s o : names_unique s -> names_unique (fst (step s o)).
Proof.
  intros N. destruct o; cbn [step].
  - destruct (negb (valid_bucket_name n)); [exact N|]. destruct (bfind s n); [exact N|]. cbn. apply bset_names. exact N.
  - destruct (bfind s n) as [b|]; [|exact N]. destruct (Nat.eqb (b_objects b) 0); [cbn; apply bdel_names; exact N|exact N].
  - destruct (bfind s n); [cbn; apply bset_names; exact N|exact N].
  - destruct (bfind s n) as [b|]; [|exact N]. destruct (sfind (b_settings b) kind); exact N.
  - destruct (bfind s n); [cbn; apply bset_names; exact N|exact N].
  - destruct (bfind s n); [cbn; apply bset_names; exact N|exact N].
  - destruct (bfind s n); [cbn; apply bset_names; exact N|exact N].
  - exact N.
Qed.
Lemma names_unique_run : forall ops s, names_unique s -> names_unique (fst (run s ops)).
Proof.
  induction ops as [|o r IH]; intros s N; cbn [run]; [exact N|].
  pose proof (names_unique_step s o N) as N1. destruct (step s o) as [s1 x]. cbn [fst] in N1.
  specialize (IH s1 N1). destruct (run s1 r) as [s2 xs]. exact IH.
Qed.

(* names outside the rules are refused, creating an existing bucket fails and changes nothing *)
Theorem create_refuses_bad_names s n c : valid_bucket_name n = false -> step s (Create n c) = (s, O_err InvalidBucketName).
Proof. intros H. cbn [step]. rewrite H. reflexivity. Qed.
Theorem create_existing_changes_nothing s n c b : bfind s n = Some b ->
  exists e, step s (Create n c) = (s, O_err e) /\ (e = InvalidBucketName \/ e = BucketAlreadyOwnedByYou \/ e = BucketAlreadyExists).
Proof.
  intros H. cbn [step]. destruct (negb (valid_bucket_name n)); [eexists; split; [reflexivity|auto]|].
  rewrite H. destruct (Nat.eqb (b_owner b) c); eexists; (split; [reflexivity|auto]).
Qed.
Theorem create_new s n c : valid_bucket_name n = true -> bfind s n = None ->
  let s' := fst (step s (Create n c)) in
  snd (step s (Create n c)) = O_ok /\ bfind s' n = Some {| b_owner := c; b_settings := []; b_objects := 0 |} /\
  forall n', n' <> n -> bfind s' n' = bfind s n'.
Proof.
  intros V F s'. subst s'. cbn [step]. rewrite V, F. cbn. split; [reflexivity|]. split; [apply bfind_bset_same|].
  intros n' H. apply bfind_bset_other. exact H.
Qed.

(* a setting reads back exactly as last written ... *)
Lemma sfind_sdel_same l k : sfind (sdel l k) k = None.
Proof. induction l as [|[j v] r IH]; cbn; [reflexivity|]. destruct (Nat.eqb j k) eqn:E; [exact IH|cbn; rewrite E; exact IH]. Qed.
Lemma sfind_sdel_other l k k' : k' <> k -> sfind (sdel l k) k' = sfind l k'.
Proof.
  intros H. induction l as [|[j v] r IH]; cbn; [reflexivity|].
  destruct (Nat.eqb j k) eqn:E; cbn.
  - apply Nat.eqb_eq in E. subst j. destruct (Nat.eqb k k') eqn:E2; [apply Nat.eqb_eq in E2; congruence|exact IH].
  - destruct (Nat.eqb j k'); [reflexivity|exact IH].
Qed.

Definition setting (s : st) (n : string) (k : nat) : option nat :=
  match bfind s n with Some b => sfind (b_settings b) k | None => None end.
Definition touches (n : string) (k : nat) (o : op) : bool :=
  match o with
  | PutSetting m j _ | DelSetting m j => String.eqb m n && Nat.eqb j k
  | Delete m | Create m _ => String.eqb m n
  | _ => false
  end.

Lemma setting_frame s o n k : touches n k o = false -> setting (fst (step s o)) n k = setting s n k.
Proof.
  intros T. unfold setting. destruct o; cbn [step touches] in *.
  - destruct (negb (valid_bucket_name n0)); [reflexivity|]. destruct (bfind s n0); [reflexivity|]. cbn.
    rewrite bfind_bset_other; [reflexivity|]. intros ->. rewrite String.eqb_refl in T. discriminate.
  - destruct (bfind s n0) as [b|]; [|reflexivity]. destruct (Nat.eqb (b_objects b) 0); [|reflexivity]. cbn.
    rewrite bfind_bdel_other; [reflexivity|]. intros ->. rewrite String.eqb_refl in T. discriminate.
  - destruct (bfind s n0) as [b|] eqn:F; [|reflexivity]. cbn.
    destruct (String.eqb n0 n) eqn:E.
    + apply String.eqb_eq in E. subst n0. rewrite bfind_bset_same, F. cbn [b_settings with_settings sfind].
      cbn in T. destruct (Nat.eqb kind k) eqn:E2; [discriminate|]. apply sfind_sdel_other. intros ->. rewrite Nat.eqb_refl in E2. discriminate.
    + rewrite bfind_bset_other; [reflexivity|]. intros ->. rewrite String.eqb_refl in E. discriminate.
  - destruct (bfind s n0) as [b|]; [|reflexivity]. destruct (sfind (b_settings b) kind); reflexivity.
  - destruct (bfind s n0) as [b|] eqn:F; [|reflexivity]. cbn.
    destruct (String.eqb n0 n) eqn:E.
    + apply String.eqb_eq in E. subst n0. rewrite bfind_bset_same, F. cbn [b_settings with_settings].
      cbn in T. destruct (Nat.eqb kind k) eqn:E2; [discriminate|]. apply sfind_sdel_other. intros ->. rewrite Nat.eqb_refl in E2. discriminate.
    + rewrite bfind_bset_other; [reflexivity|]. intros ->. rewrite String.eqb_refl in E. discriminate.
  - destruct (bfind s n0) as [b|] eqn:F; [|reflexivity]. cbn.
    destruct (String.eqb n0 n) eqn:E.
    + apply String.eqb_eq in E. subst n0. rewrite bfind_bset_same, F. reflexivity.
    + rewrite bfind_bset_other; [reflexivity|]. intros ->. rewrite String.eqb_refl in E. discriminate.
  - destruct (bfind s n0) as [b|] eqn:F; [|reflexivity]. cbn.
    destruct (String.eqb n0 n) eqn:E.
    + apply String.eqb_eq in E. subst n0. rewrite bfind_bset_same, F. reflexivity.
    + rewrite bfind_bset_other; [reflexivity|]. intros ->. rewrite String.eqb_refl in E. discriminate.
  - reflexivity.
Qed.

Theorem setting_reads_back_last_written : forall ops s n k d b, bfind s n = Some b ->
  forallb (fun o => negb (touches n k o)) ops = true ->
  let s1 := fst (step s (PutSetting n k d)) in
  snd (step (fst (run s1 ops)) (GetSetting n k)) = O_doc d.
Proof.
  intros ops s n k d b F H s1.
  assert (S1 : setting s1 n k = Some d).
  { subst s1. unfold setting. cbn [step]. rewrite F. cbn. rewrite bfind_bset_same. cbn. rewrite Nat.eqb_refl. reflexivity. }
  clearbody s1. revert s1 S1 H. induction ops as [|o r IH]; intros s1 S1 H; cbn [run].
  - cbn [fst step]. unfold setting in S1. destruct (bfind s1 n) as [b1|]; [|discriminate]. rewrite S1. reflexivity.
  - cbn [forallb] in H. apply andb_true_iff in H. destruct H as [H1 H2]. apply negb_true_iff in H1.
    pose proof (setting_frame s1 o n k H1) as Fr. destruct (step s1 o) as [s2 x]. cbn [fst] in Fr.
    specialize (IH s2 (eq_trans Fr S1) H2). destruct (run s2 r) as [s3 xs]. exact IH.
Qed.

(* ... and is gone once deleted, or once the bucket has been deleted (also after it is created again) *)
Theorem setting_gone_after_delete s n k b : bfind s n = Some b ->
  snd (step (fst (step s (DelSetting n k))) (GetSetting n k)) = O_err NoSuchSetting.
Proof. intros F. cbn [step]. rewrite F. cbn. rewrite bfind_bset_same. cbn. rewrite sfind_sdel_same. reflexivity. Qed.
Theorem bucket_delete_forgets_settings s n c s1 : names_unique s -> step s (Delete n) = (s1, O_ok) -> valid_bucket_name n = true ->
  bfind s1 n = None /\ forall k, snd (step (fst (step s1 (Create n c))) (GetSetting n k)) = O_err NoSuchSetting.
Proof.
  intros N H V. cbn [step] in H. destruct (bfind s n) as [b|] eqn:F; [|discriminate].
  destruct (Nat.eqb (b_objects b) 0); [|discriminate]. inversion H; subst s1.
  assert (G : bfind (bdel s n) n = None) by (apply bfind_bdel_same; exact N).
  split; [exact G|]. intros k. cbn [step]. rewrite V, G. cbn. rewrite bfind_bset_same. reflexivity.
Qed.

(* DeleteBucket succeeds only on a bucket without objects *)
Theorem delete_only_when_empty s n s1 : step s (Delete n) = (s1, O_ok) -> exists b, bfind s n = Some b /\ b_objects b = 0.
Proof.
  cbn [step]. destruct (bfind s n) as [b|]; [|discriminate]. destruct (Nat.eqb (b_objects b) 0) eqn:E; [|discriminate].
  intros _. exists b. split; [reflexivity|apply Nat.eqb_eq; exact E].
Qed.

(* a non-admin's ListBuckets shows exactly the buckets it owns *)
Theorem list_shows_exactly_owned s caller n : names_unique s ->
  forall l, snd (step s (ListBuckets caller false)) = O_names l ->
  (In n l <-> exists b, bfind s n = Some b /\ b_owner b = caller).
Proof.
  intros N l H. cbn [step snd orb] in H. inversion H; subst l. clear H.
  unfold names_unique in N. induction s as [|[m x] r IH]; cbn.
  - split; [tauto|intros [b [F _]]; discriminate].
  - inversion N; subst. destruct (Nat.eqb (b_owner x) caller) eqn:E; cbn.
    + destruct (String.eqb m n) eqn:E2.
      * apply String.eqb_eq in E2. subst m. split; [intros _; exists x; split; [reflexivity|apply Nat.eqb_eq; exact E]|auto].
      * rewrite <- (IH H2). split; [intros [->|HI]; [rewrite String.eqb_refl in E2; discriminate|exact HI]|auto].
    + destruct (String.eqb m n) eqn:E2.
      * apply String.eqb_eq in E2. subst m. split.
        -- intros HI. exfalso. apply H1. clear -HI. induction r as [|[m' x'] r' IH']; cbn in *; [tauto|].
           destruct (Nat.eqb (b_owner x') caller); cbn in HI; [destruct HI as [->|HI]; [left; reflexivity|right; apply IH'; exact HI]|right; apply IH'; exact HI].
        -- intros [b [F O]]. inversion F; subst b. apply Nat.eqb_neq in E. congruence.
      * exact (IH H2).
Qed.

(* ---------- DeleteBucket against publications *)
Definition fs_init : fs := {| exists_ := true; published := 0; acked := 0; deleted_ok := 0 |}.
Theorem no_acknowledged_upload_lost : forall sched s, acked s = published s -> (exists_ s = false -> published s = 0) ->
  let s' := fold_left fs_step sched s in acked s' = published s' /\ (exists_ s' = false -> published s' = 0).
Proof.
  induction sched as [|x r IH]; intros s A E; cbn [fold_left]; [auto|].
  apply IH.
  - destruct x; cbn [fs_step].
    + destruct (exists_ s && Nat.eqb (published s) 0) eqn:C; [|exact A]. cbn.
      apply andb_true_iff in C. destruct C as [_ C]. apply Nat.eqb_eq in C. rewrite A. exact C.
    + destruct (exists_ s); [cbn; rewrite A; reflexivity|exact A].
    + destruct (exists_ s && negb (Nat.eqb (published s) 0)); [cbn; rewrite A; reflexivity|exact A].
  - destruct x; cbn [fs_step].
    + destruct (exists_ s && Nat.eqb (published s) 0); [cbn; reflexivity|exact E].
    + destruct (exists_ s) eqn:X; [cbn; discriminate|intros _; apply E; reflexivity].
    + destruct (exists_ s && negb (Nat.eqb (published s) 0)) eqn:C; [cbn; discriminate|exact E].
Qed.
