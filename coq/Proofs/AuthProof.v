From Coq Require Import String Ascii List ZArith Bool Arith Lia.
From VGW Require Import Base.GoStr Model.Auth.
Import ListNotations.
Open Scope string_scope.

Lemma chain_pass_valid : forall f, chain f = Pass -> valid_proof f.
Proof.
  intros f H. unfold chain in H.
  destruct (String.eqb (f_auth f) "") eqn:E0; [discriminate|]. apply String.eqb_neq in E0.
  destruct (parse_authorization (f_auth f)) as [d|e] eqn:P; [|discriminate].
  destruct (String.eqb (a_region d) (f_cfg_region f)) eqn:E1; cbn [negb] in H; [|discriminate]. apply String.eqb_eq in E1.
  destruct (f_account_exists f) eqn:E2; cbn [negb] in H; [|discriminate].
  destruct (f_xdate_present f) eqn:E3; cbn [negb] in H; [|discriminate].
  destruct (f_xdate_wellformed f) eqn:E4; cbn [negb] in H; [|discriminate].
  destruct (String.eqb (f_xdate_day f) (a_date d)) eqn:E5; cbn [negb] in H; [|discriminate]. apply String.eqb_eq in E5.
  destruct ((900 <? f_skew f)%Z || (f_skew f <? -900)%Z) eqn:E6; [discriminate|].
  apply orb_false_iff in E6. destruct E6 as [E6 E7]. apply Z.ltb_ge in E6, E7.
  exists d. repeat split; try assumption; try lia.
  - destruct (f_bigdata f); [destruct (f_sig_ok f); [reflexivity|discriminate]|].
    destruct (negb (f_special_payload f) && negb (f_hash_matches f)); [discriminate|].
    destruct (f_sig_ok f); [reflexivity|discriminate].
  - destruct (f_bigdata f) eqn:B; [left; reflexivity|right].
    destruct (f_special_payload f) eqn:S; [left; reflexivity|right].
    destruct (f_hash_matches f) eqn:Hm; [reflexivity|]. cbn in H. discriminate.
Qed.

Lemma valid_passes : forall f, valid_proof f -> chain f = Pass.
Proof.
  intros f [d [P [N [R [A [D1 [D2 [D3 [[S1 S2] [SG PH]]]]]]]]]]. unfold chain.
  destruct (String.eqb (f_auth f) "") eqn:E0; [apply String.eqb_eq in E0; congruence|].
  rewrite P, R, String.eqb_refl, A, D1, D2, D3, String.eqb_refl. cbn [negb].
  assert (E6 : ((900 <? f_skew f)%Z || (f_skew f <? -900)%Z) = false).
  { apply orb_false_iff. split; apply Z.ltb_ge; lia. }
  rewrite E6, SG. cbn [negb].
  destruct (f_bigdata f); [reflexivity|].
  destruct PH as [PH|[PH|PH]]; [discriminate| |]; rewrite PH; cbn; [reflexivity|]. rewrite andb_false_r. reflexivity.
Qed.

(* ParseAuthorization is total and never panics: every input gives a parsed record or one of seven errors *)
Lemma parse_total : forall s, (exists d, parse_authorization s = PA_ok_ d) \/ (exists e, parse_authorization s = PA_err_ e).
Proof. intros s. destruct (parse_authorization s); [left|right]; eexists; reflexivity. Qed.
