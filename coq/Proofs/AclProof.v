From Coq Require Import String List Bool.
From VGW Require Import Base.GoStr Model.Json Model.Policy Spec.PolicySpec Proofs.PolicyProof Model.Acl.
Import ListNotations.
Open Scope string_scope.

(* the ACL grants p to who: a canonical-user grant of p or FULL_CONTROL, or an all-users group grant of p *)
Definition acl_grants (grants : list grantee) (who : string) (p : perm) : Prop :=
  exists g, In g grants /\
    ((g_type g = TCanonicalUser /\ g_access g = who /\ (g_perm g = p \/ g_perm g = PFullControl)) \/
     (g_type g = TGroup /\ g_access g = "all-users" /\ g_perm g = p)).

Lemma perm_eqb_eq a b : perm_eqb a b = true <-> a = b.
Proof. destruct a, b; cbn; split; intros H; try reflexivity; try discriminate. Qed.

Lemma verify_acl_spec grants who p : verify_acl grants who p = true <-> acl_grants grants who p.
Proof.
  unfold verify_acl, acl_grants. rewrite existsb_exists. split.
  - intros [g [Hg M]]. exists g. split; [exact Hg|]. destruct (g_type g).
    + left. apply andb_true_iff in M. destruct M as [E M]. apply String.eqb_eq in E. apply orb_true_iff in M.
      repeat split; auto. destruct M as [M|M]; apply perm_eqb_eq in M; auto.
    + right. apply andb_true_iff in M. destruct M as [E M]. apply String.eqb_eq in E. apply perm_eqb_eq in M. auto.
  - intros [g [Hg [[T [E M]]|[T [E M]]]]]; exists g; (split; [exact Hg|]); rewrite T.
    + apply andb_true_iff. split; [apply String.eqb_eq; exact E|]. apply orb_true_iff.
      destruct M as [M|M]; [left|right]; apply perm_eqb_eq; exact M.
    + apply andb_true_iff. split; [apply String.eqb_eq; exact E|apply perm_eqb_eq; exact M].
Qed.

(* the access decision, for every caller, policy state, ACL and request *)
Theorem verify_access_spec pol o : verify_access pol o = true <->
  ~ (o_readonly o = true /\ is_write (o_perm o) = true) /\
  (o_is_root o = true \/ o_role o = "admin" \/
   (exists doc l, pol = PolicyDoc doc /\ parse_policy doc = Ok l /\
        allowed l (o_who o) (o_action o) (resource_of (o_bucket o) (o_object o))) \/
   (pol = NoPolicy /\ acl_grants (o_grants o) (o_who o) (o_perm o))).
Proof.
  unfold verify_access.
  destruct (o_readonly o && is_write (o_perm o)) eqn:RO.
  { split; [discriminate|]. intros [N _]. exfalso. apply N. apply andb_true_iff in RO. exact RO. }
  assert (NRO : ~ (o_readonly o = true /\ is_write (o_perm o) = true)).
  { intros [A B]. rewrite A, B in RO. discriminate. }
  destruct (o_is_root o) eqn:R; [split; [intros _; split; [exact NRO|left; reflexivity]|reflexivity]|].
  destruct (String.eqb (o_role o) "admin") eqn:A.
  { apply String.eqb_eq in A. split; [intros _; split; [exact NRO|right; left; exact A]|reflexivity]. }
  apply String.eqb_neq in A.
  destruct pol as [|doc|].
  - rewrite verify_acl_spec. split.
    + intros H. split; [exact NRO|]. right; right; right. auto.
    + intros [_ [H|[H|[[d [l [H _]]]|[_ H]]]]]; try discriminate; try congruence.
  - unfold verify. destruct (parse_policy doc) as [l|e] eqn:P.
    + rewrite deny_overrides. split.
      * intros H. split; [exact NRO|]. right; right; left. exists doc, l. auto.
      * intros [_ [H|[H|[[d [l' [E [P' H]]]]|[E _]]]]]; try discriminate; try congruence.
    + split; [discriminate|]. intros [_ [H|[H|[[d [l' [E [P' H]]]]|[E _]]]]]; try discriminate; try congruence.
  - split; [discriminate|]. intros [_ [H|[H|[[d [l' [E _]]]|[E _]]]]]; try discriminate; congruence.
Qed.

(* read-only mode: no write permission is ever granted, to anybody *)
Theorem readonly_denies_writes pol o : o_readonly o = true -> is_write (o_perm o) = true -> verify_access pol o = false.
Proof. intros R W. unfold verify_access. rewrite R, W. reflexivity. Qed.

Theorem readonly_denies_copy dp sp sg cs o : o_readonly o = true -> verify_copy_access dp sp sg cs o = false.
Proof. intros R. unfold verify_copy_access. rewrite R. reflexivity. Qed.

(* a decision about bucket b consults only the policy and ACL handed in for b: the function has no other input *)
Theorem copy_needs_both dp sp sg cs o : verify_copy_access dp sp sg cs o = true -> o_is_root o = false -> o_role o <> "admin" ->
  verify_access dp o = true /\
  exists sb so g, str_cut cs "/" = (sb, so, true) /\ sg = Some g /\
    verify_access sp {| o_readonly := false; o_is_root := false; o_role := o_role o; o_who := o_who o; o_grants := g;
                        o_perm := PRead; o_bucket := sb; o_object := so; o_action := "s3:GetObject" |} = true.
Proof.
  intros H R A. unfold verify_copy_access in H. destruct (o_readonly o); [discriminate|]. rewrite R in H.
  destruct (String.eqb (o_role o) "admin") eqn:E; [apply String.eqb_eq in E; congruence|].
  destruct (verify_access dp o) eqn:D; cbn [negb] in H; [|discriminate]. split; [reflexivity|].
  destruct (str_cut cs "/") as [[sb so] f]. destruct f; [|discriminate]. destruct sg as [g|]; [|discriminate].
  exists sb, so, g. auto.
Qed.
